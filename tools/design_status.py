import json
p='/verif/DESIGN.md'
s=open(p).read()
if "\n## 9. " in s:
    s=s[:s.index("\n## 9. ")]
import glob
rows=[]
for d in sorted(glob.glob('/verif/seeded/C*/')):
    m=json.load(open(d+'meta.json'))
    rows.append((d.split('/')[3], m['breaks_property'], (m['summary'] or '').replace('\n',' ').split('. ')[0][:230]))
fixed=json.load(open('/verif/known_findings.json'))['fixed']
sec = r'''

## 9. What was built, what it found (status of the committed tree)

Sections 1–8 were written before the machinery existed; the per-property sections of §5 for C07,
C08, C17 and C20 have since been rewritten “as built”.  This section records the state of the
committed tree and is updated with it.

### 9.1 Claimed properties

All twenty properties are claimed in `MANIFEST.json` (`not_applicable` is empty), each with
`./check Cxx --tier quick|thorough` and `./check Cxx --replay <file>`.  Every check (i) regenerates
`lean/Nanite/Gen` from `/repo` where a generator exists (C02, C11, C12, C13, C14, C18, C19 and the
parameter tables of C03), (ii) builds `Props/Cxx` and `Audit/Cxx` with `lake build` (thorough:
from clean, then `lake env leanchecker`), (iii) audits `#print axioms` (⊆ {propext,
Classical.choice, Quot.sound}) and greps for `sorry`/`admit`/`axiom`/`native_decide`/`bv_decide`,
(iv) runs the correspondence (model executed by `lake env lean --run Drivers/…` on the inputs the
real code was run on) and the property oracle on the real code, (v) writes `evidence/Cxx.json`.
A broken build, audit or correspondence is never silent and never by itself a verdict: the oracle
has then already searched the implementation; the VIOLATION line carries the concrete replay if
one was found and `no-failing-input-found` otherwise (§2.4).

| id | Lean model / theorems audited | tie | quick wall (16 cores) |
|----|-------------------------------|-----|-----------------------|
| C01 | generated models + `Fitter` + closed-form least squares (`Props/C01Noise`); 13 | recovery runs with recorded optimiser calls; fixed-contact-point fits vs the closed form at exact rationals | ≈ 10 s |
| C02 | generated ℝ/Float renderings + hand spec; 31 | regeneration; Float rendering vs numpy (ulp) | ≈ 5 s |
| C03 C06 C09 C10 | object model `Indent` (+`Rater`), incl. the E(δ)-scan cache (`Props/C03Scan`), the pipeline decision (`Props/C09Pipeline`) and keyword order (`Props/C10Order`); 9 + 5 + 14 + 7 | history engine (random + directed histories incl. `compute_emodulus_mindelta`, in-place edits, fresh-object oracle) | ≈ 30 s each |
| C04 C05 C11 | `Residual`, `Fitter` (C05 also audits `c05_scan_sample_count` of the object model); 17 + 16 + 12 | exact-rational correspondence with recorded θ̂ / index sets; paired fits | 3–7 s |
| C07 | `Preproc`; 21 | step-by-step exact-rational correspondence | ≈ 20 s |
| C08 | `Poc`; 17 | exact-rational correspondence + recorded optimiser inputs | ≈ 60 s |
| C12 | `Hash`; 16 | byte-exact pre-image correspondence | ≈ 11 s |
| C13 C18 | `Residual` wrapper + regenerated model functions (`Props/C13`, `Props/C13Shape`), regenerated default weighting distances and parameter limits (`Props/C13Defaults`), `Registry`, generated attribute tables; 39 + 12 | regeneration; harness models (order-sensitive, retained results); mutant modules, call sequences | 3–4 s |
| C14 | `Order` + generated requirement table; 14 (`decide +kernel` over all selections) | exhaustive correspondence | ≈ 6 s |
| C15 | `TrainingSet`; 9 + 4 (`Props/C15Mixed`) | real training-set directories at exact rationals | ≈ 5 s |
| C16 | `Container`; 11 | h5 dumps + fault injection at every write | ≈ 55 s |
| C17 | `Features`; 26 | stub datasets at exact rationals; names exhaustively | ≈ 10 s |
| C19 | `Profile`, `Legacy` (the key=value parser) + generated defaults; 11 + 14 | files + scripted input; every generated legacy file parsed by both | ≈ 10 s |
| C20 | `Loading`; 10 | recorded reader progress; real maps | ≈ 10 s |

### 9.2 Genuine defects found and repaired in `/repo` (one `fix:` commit each; unedited 176 tests pass)

Each line is the entry of `known_findings.json` (`fixed`), which names the commit and the failing
input / history.  A fixed entry suppresses nothing: the check passes on the repaired tree and
reports the violation again if it returns (verified for the fixes of this round by reverse-applying
the commit and running the check: C07 dd322c8, C08 269f194 and 13aa2c2 are reported with a
concrete replay; C14 cbd93cb, C16 280e6bf and C06 1e22c1e likewise – the last was reported by `./check C06` on the
tree before the repair with the history as replay).

''' + "\n".join("* " + f[len("fixed: "):] for f in fixed) + r'''

Candidates of §6 and their outcome: F1–F5, F7–F15 were confirmed by the checks and repaired; F6
repaired (f24e8b5); F16 repaired in the docstring (the code is proved equal to the formula with
0.8887); F17 was not reproduced by the C05 search and stays an observation; F18 is a precondition
of the C15 theorems; F19 was confirmed on realistic height data and repaired (dd322c8).  The observation of the first session that contact-point limits are not
corrected with `gcf_k` turned out to violate C04 and C11 once the generator covered it, and was repaired
(15a51c8).

### 9.3 Known findings (recorded, not repaired; `known_findings.json` → `findings`)

* **C03 / C06 `direct-edit-of-preprocessing-setting`** – history `[…, fit_properties["preprocessing"]
  = <other steps>]` (a direct edit of a stored setting instead of `apply_preprocessing`): the stored
  pipeline changes without the data being re-processed.  The Lean model contains the behaviour
  (`Witness/C03.lean: c03w_direct_edit_of_preprocessing`), the theorems carry the excluding
  hypothesis.  Not repaired: a repair means making `FitProperties` re-run preprocessing, which it
  has no access to – not a small patch.
* **C08 `optimiser-amplifies-rounding:fit_line_polynomial`** – for factors that are not powers of two
  the normalised force handed to Nelder–Mead differs by ≤ 1e-12 (binary64 rounding) and the
  optimiser still ends in another minimum (x0 out of range → centre fallback): hertz_pyr3s curve,
  n = 3000, baseline 12.5 %, noise 1e-4: index 374 for `f`, 1499 for `0.7·f` and `1.1·f`.  Rate
  ≈ 1 in 7000 (curve, factor) pairs, only seen for this estimator.  The theorem
  (`c08_affine_invariant_fit`) is about identical input; the finding is classified only when the
  recorded optimiser inputs agree to 1e-12 *and* the start index is identical – any other
  non-invariance of the same estimator is still a VIOLATION.  The recorded input runs first in
  every run.  A second instance of the same mechanism, in another estimator, was found by the thorough
  tier of the final tree (seed 141) and is recorded under its own signature
  `optimiser-amplifies-rounding:fit_constant_polynomial`: hertz_pyr3s curve of 60 + 29 samples, noise 5 %,
  tilt −5 %: index 30 for `f`, 33 for `f + 2.755e-12` (the normalised forces differ by 2.2e-16).  It was
  reproduced on the real code and runs first in every run as well.
* **C13 `at-declared-bound:…`** – three shipped models fail on a *closed* declared limit of one of their
  parameters: `power_layer_clifford_2009` with `E_S = 0` raises ZeroDivisionError (`(E_L/E_S)**m`),
  `sneddon_spher_approx` with `R = 0` returns NaN for every point in contact, `sneddon_spher` with `R = 0` raises
  ZeroDivisionError.  The property quantifies over “parameters in bounds”, and lmfit's bounds are closed.  Found
  when the contract oracle of `./check C13` was extended to the declared limits (for seed C13j, which moves the
  layer-thickness limit onto such a point).  Not repaired: the degenerate limit (a tip of zero radius, a substrate
  of zero stiffness) is never the result of fitting a real curve; the repair would be an open lower limit as the
  code already uses for the layer thickness (`min=1e-12`), which changes the declared defaults of shipped models and
  with them the hash of every fit – a decision for the maintainers.  Each finding is keyed by model, parameter and
  value: any other parameter on a limit (e.g. the seeded `t = 0`) is a VIOLATION.
* **C17 `order-all-with-names`** – `compute_features(which_type="all", names=<list>)` keeps the order
  of the list (documented in the code); every other form returns sorted names.  Proved as the
  second disjunct of `c17_compute_order`.

### 9.4 False alarms of the machinery that were corrected (the code was right, the check was wrong)

* C18 described the module after registration (registration adds attributes); ancillary values
  outside the lmfit bounds – harness corrected.
* C19 driver lines / expectations misaligned, out-of-bounds answers, statistics row order.
* C16 loaded rating id taken from a deleted temp path; load order not canonicalised.
* C04 lmfit floors `chisqr` at 1e-250·ndata; the rounding budget of the residual identity is now
  explicit (`Σ(2|r|b + b²)`, `b = 64·eps·(|y| + |model|)`).
* C11 plateau search on exact data is decided by rounding noise – model-mismatch data are used and
  results compared only when the plateau choice agrees; contact-point bounds are in corrected units.
* C11 (found by multi-seed quick and thorough runs): (i) the plateau search on mismatch data can select an
  interval that lies entirely on the baseline side of the contact point – the modulus is then arbitrary for
  every k (“modulus-not-identifiable”); (ii) signal below the noise (“low signal-to-noise”); (iii) one of the two
  optimiser runs stops in another local minimum (different chi², both in force units; on exact data the
  minimiser is unique by the C01 identifiability theorem, so two runs that both reach chi² ≈ 0 must agree –
  those are always compared).  Such cases are counted in the evidence and not compared.
* C04 (thorough, after the generator was extended): where baseline and contact force cancel, and just beyond
  the contact point, `fit` and the model at the reported parameters differ by rounding relative to the *terms*;
  the tolerance is now `1e-12·|m| + 64·eps·(|m| + 2|baseline| + 1e-3·max|m|)`.  The harness's own
  reconstruction of the corrected contact point was clipped by the caller's limits – limits are lifted first.
* C01 (thorough, seed 21): with a contact-point weighting width above the indentation depth MINPACK is trapped
  in side minima from a factor-2 modulus guess on (measured 0/450 failures inside a factor 1.5, 29/600 outside) –
  the *stated basin* was wrong, not the code; it now says factor 1.5 for that case.
* C03/C10 (after limits became part of the histories): a fit that ends at a parameter limit is flat in that
  direction and not reproducible bit by bit (2850.04 vs 2850.0 between two identical fits in one process) – the
  fresh-object oracle compares to 1e-3 there, exactly otherwise; “a fit ran” now means the outermost
  `IndentationFitter.fit()` returned (an interval with too few points never reaches the optimiser).
* C01 `least_squares`/`powell` stop early on SI-scaled data (explored, not asserted); the layered
  model is ill-conditioned outside a stated regime.
* C03 model: the kwargs loop stops at the first error; parameter sets are compared per parameter
  state; `0 == 0.0` in canonical tokens.
* C15 `np.nanmax` of an all-NaN column is NaN, not an error (model corrected, proofs redone).
* C08: invariance was first asserted also for degenerate arrays (a linear ramp makes the Fréchet
  estimator rounding-decided) – now only for arrays with a baseline, as the property says;
  exceptions on recorded curves are now reported as violations with the file as replay instead of
  breaking the harness.
* C07: an invented bound “split within 2 samples of the piezo turning point” (noise moves the
  farthest point) was reduced to a sanity window; the “trend remains” test assumed the baseline lies
  inside the corrected region (false for extreme lags) and is now conditional; recorded “bad” files
  with 2–4 samples are outside “well-formed”; lag restricted to ≤ 5 % of the approach.
* C17: an exactly constant or non-positive force is outside the property (division by the maximal
  force); the model returns `none` for a zero denominator (`divO`) instead of Lean's `x/0 = 0`.
* C07 (ninth round): the tie of the slope correction compared lmfit's fitted slope with the closed-form slope to a
  relative 1e-6; for an integer-valued curve with a force offset of −2·10⁵ and a slope of 0.19 the iterative fit is
  only that precise *relative to the data*, not to the slope (difference 7·10⁻⁶ of the slope, 4·10⁻⁵ of a force of
  2·10⁵).  The comparison now also accepts a line that agrees with the closed form to 1e-7 of the force magnitude
  over the fitted baseline; the step's output given the fitted line is still compared to 1e-9.
* C17 (ninth round, clean-tree seed 121): a “drop-at-end” stub dataset whose only positive force samples were the
  two that the generator zeroes has a maximal force of zero; the features that divide by it are infinite.  A force
  that never exceeds zero was already outside the property for the value clauses; the `not-finite` test of the model
  tie now has the same guard.
* C20: the workshop csv file has no spring constant – its refusal by groups is the specified
  behaviour, not a load failure.

### 9.5 Seeded changes (independent sub-agents, property text + scratch worktree only)

Two hundred and seventy-eight changes are kept under `seeded/<id>/` (`patch.diff`, `demo.py`, `meta.json`; each
confirmed by me in a scratch worktree: demo passes on HEAD, fails with the change, 176 tests pass with it): forty
from the first round (two per property), ten from a second round of eight agents, seventeen from a third round
of twelve agents, thirty-one from a fourth round of twenty agents that were asked to avoid the most obvious
slips (interactions between functions, fallback branches, caches, argument defaults, unusual option
combinations), and twenty-six from a fifth round of twenty agents that were pointed at state surviving across
calls / objects / processes, numerical edge cases, error paths followed by a retry, rarely used entry points and
effects that only show in a later operation, and twenty-eight from a sixth round of twenty agents that were told
to stay away from caches and narrowed except clauses and to look at boundaries ordinary data do not hit, unusual
but legitimate array properties and element types, units and magnitudes, argument type variety, text details and
rarely used entry points, and twenty-two from a seventh round of twenty agents that were given the list of
everything tried so far and asked for changes of another kind (formula details that are right for the default
parameters only, the second / third segment, options that are accepted but ignored, interactions of two settings,
metadata and folder handling, saturated or incomplete data, documented return conventions), and twenty-four from
an eighth round of twenty agents that were pointed at public functions hardly touched so far and at pairs of
functions that must agree with each other, and twenty-eight from a ninth round of twenty agents that were asked to
run the test suite under a line / branch tracer and to change code the suite never executes, and thirty-four from a
tenth round of twenty agents that were additionally pointed at strict versus non-strict comparisons that only differ
when a value coincides with a bound, at pairs of edits, at sign conventions, ancillary parameters, group / map helpers,
the rating manager and returned types, and twenty from an eleventh round of twenty agents (one per property, fifth
session) that were told the property is already checked by randomised differential testing against a from-scratch
oracle and asked for corners such sampling is unlikely to reach; ninety-eight further submissions duplicated earlier
changes and were not kept.
After the repair 1e22c1e of `apply_preprocessing` C03a, C06a and C06d were re-expressed on the repaired tree and
re-confirmed.  C04c, C11a, C11b and C11c were re-expressed on the tree in which the contact-point limits are corrected
with `gcf_k`, C10g on the tree in which `compute_poc` converts its input to floating point, C16g and C16i on the
tree in which rating containers store `range_x` as plain floats, and re-confirmed.
Two earlier seeds were retired: C08f (in-place normalisation that failed for integer arrays) is harmless since
`compute_poc` converts its input to floating point (ed7126e; its demonstration passes), and C14d (`preproc.apply` sorted the list returned by `available()` in place) only
broke the property because `available()` handed out its cached list; after the repair cbd93cb the change is
harmless (its demonstration passes).  Neither is counted any more.
`tools/run_seeds.py` applies each to `/repo`, runs the quick check of its property, undoes it and
writes `seeded/RESULTS.json`.  All of them are reported by `./check <property> --tier quick`; all but two with a
concrete failing input (the share of first-missed seeds per round was 8/17, 15/31, 14/26, 13/28, 10/22, 5/24, 12/28, 13/34 and 6/20 in
rounds three to eleven – the last two were aimed at code the test suite never executes, which is also code the checks
had not reached yet).  The exception is C08j (`poc_deviation_from_baseline` tests `|force − baseline|` instead of
the signed deviation): it keeps every returned index valid and invariant and leaves clean model curves untouched –
what it changes is the estimate on curves with a descending baseline, for which the property states no accuracy –
so no input violates the statement; the correspondence with the Lean model of the estimator breaks and the check
reports it as `no-failing-input-found`, as designed for a property that is no longer shown to hold.
The second is C09m (eleventh round: two cooperating edits after which a preprocessing change on a curve *without fit
results* no longer clears the cached rating).  The object model says the rating must be recomputed (`cached=false`),
the implementation answers from the cache, so the correspondence breaks on the first such history; the cached and the
recomputed value of an unfitted curve coincide, however, unless the new pipeline moves the approach segment across the
600-sample size criterion (the agent's demonstration uses a recording of 590 approach samples that
`correct_split_approach_retract` re-splits to 614), which none of the pool curves does – reported as
`no-failing-input-found`; a pool curve of that kind is the obvious next addition.

| seed | change | caught by |
|------|--------|-----------|
''' + "\n".join(f"| {n} | {short.replace('|','/')} | " + (f"`./check {prop}` – broken correspondence with the Lean model, `no-failing-input-found` (see above)" if n in ("C08j", "C09m") else f"`./check {prop}` – oracle on the real code with replay") for n,prop,short in rows) + r'''

Checks that had to be strengthened because a seed was first missed or reported only as
`no-failing-input-found` (each strengthening is generic – a class of inputs or histories, not the seed):

* first round: C12 (parameter-history variants, close values), C14 (`check_order` oracle), C19 (fit-params
  oracle), C16 (retract / failed-fit variants), C09 (rating value against a standalone rater, `reg_kwargs`
  isolation, large curve), C15 (kept-rows oracle), C03/C10 (follow-up operations after in-place edits,
  attribute edits, directed enumeration of a reduced alphabet);
* second round: C08 (exceptions on recorded curves as violations; `ret_details=True` calls – C08d), C04
  (contact points far from zero with finite limits and k ≠ 1 – C04c, which also exposed the genuine defect
  15a51c8), C07 (staircase height set-points with equal neighbours – C07c; instrument segment flag before /
  after the deepest point – C07d), C20 (unsuccessful refit that keeps stale parameters – C20c);
* third round (8 of 17 were first missed, 4 had no failing input): C01 (position jitter larger than the
  sample spacing – non-monotonic abscissa, C01c), C02 (evaluation through `NaniteFitModel.model`, approach +
  retract cycles in one array, every array kind for every model in turn, boundary-coincident parameter values
  such as `E_S = E_L` – C02a/c/d), C03/C10 (plateau-search settings and inverted intervals in the history
  alphabet, in-place edits of parameter *limits*, targeted scenarios – C03c, C10c; this required modelling the
  fitter-side `range_x` rule `fitterFp` and the unconditional FitDataError of the plateau search on retract
  segments in `Model/Indent.lean`), C09 (order of the feature names with training sets read from disk –
  C09c), C12 (several optioned steps across `PYTHONHASHSEED` values and insertion orders – C12c), C15
  (manager inspected, container changed, then exported – C15c), C16 (metadata-only readers and the manager
  after every injected fault – C16d), C18 (late key / default mismatches behind a signature-order warning; the
  rule “keys of `get_parameter_defaults` = `parameter_keys`” as an oracle – C18c; ancillary keys of every model
  across register / query / deregister – C18d), C19 (repeated setup runs on an existing profile, answer 0 –
  C19d).

* fourth round (15 of 31 were first missed, 2 had no failing input): C01 (defaults isolation across curves –
  C01d), C03 (interval bounds / widths / factors changing in the last digits – C03d), C05 (settings passed in an
  earlier call than the one that uses them; inverted intervals with the plateau search – C05d/e), C07 (a step
  listed a second time – C07e), C08 (integer and single-precision element types – C08f), C09 (a rater built
  directly from the regressor table as reference; training sets that differ only in the middle rows; a user
  directory rewritten in place – C09d), C11 (fixed contact point that carries limits – C11d; the scanned depths
  of the plateau search must not depend on k – C11e, previously hidden by the “different plateau” guard), C12
  (limits of exactly zero – C12d), C13 (writing into a returned array; no point in contact, both orientations –
  C13c/d), C14 (every entry point incl. the deprecated keyword – C14e), C16 (the same raw curve in two containers
  loaded in one process – C16e), C17 (retract-segment fits – C17d), C19 (the batch fit must use the profile's
  current model, interval and parameters incl. the model's limits – C19f), C20 (a refused curve must not stay
  in the group – C20e).  A side remark of one agent (shared mutable `FP_DEFAULT` objects in `fit_properties`)
  was reproduced, repaired (773cbd2) and is now probed by `./check C10`.

* fifth round (14 of 26 were first missed, 6 more had no failing input): C01 (the fitter class as an entry
  point with keyword arguments in any order – C01f; a refit whose guesses differ only in their limits – C01g),
  C02 (stiff substrates – moduli up to 2·10¹¹ Pa are inside the bounds, the mutated Clifford formula loses digits
  there – C02g), C03/C05 (`compute_emodulus_mindelta()` as an operation of the histories; the visible E(δ) scan
  is compared with the scan of a fresh copy – C03e, C05g), C04 (force-map style batches: equal lengths, equal
  fixed contact point, different abscissae – C04e), C05 (a single-precision abscissa column with interval bounds
  within a float32 rounding of a sample – C05f), C07 (indentations of a few nanometres – C07f; tip-sample
  separation after another step wrote the height column – C07g), C10 (every array inside returned details is
  overwritten, columns and caller arrays must not change – C10g; grid search with only `brute_step` edited –
  C10f), C11 (one-sided contact-point limits; an unfittable attempt followed by a call that reuses the stored
  guess – C11f/g), C12 (the plateau-search flag as numpy boolean or 0/1 – C12f), C13 (a user model that hands
  out an array it keeps – C13e), C14 (lists returned by `autosort` / `available` edited by the caller; a rejected
  request repeated on the same curve through `apply_preprocessing` and `fit_model` – C14f/g), C16 (the same fit
  reached with other settings stored again: only the user fields may change; integer then fractional ratings –
  C16g/h), C17 (`compute_features` against the feature methods on the current data after an in-place change;
  consecutive datasets – C17e), C18 (a faulty module carrying the key of a registered model – C18e), C19
  (expected defaults snapshotted before any profile operation instead of asked from the library – C19g; legacy
  values containing `=`, modelled in Lean – C19h), C20 (curves long enough for non-trivial ratings, rated with
  non-default settings – C20f: all ratings were 0 before, the rating map was only trivially checked).
  Strengthening C14 for C14f exposed that the unchanged `available()` itself handed out its cached list (repaired,
  cbd93cb); the thorough tier of C08 (element-type stream added in the fourth round) found the integer-input
  defect ed7126e.

* sixth round (13 of 28 were first missed, 3 more had no failing input): C01 (coarsely sampled curves fitted on an
  interval that holds 5–7 samples – C01h), C07 (time stamps that are not one uniform grid: a retract sampled at
  another rate, a dwell – C07h), C08 (constant offsets of 2¹⁷–2²⁰ times the signal amplitude, judged for the
  direct estimators – C08h), C09 (a reference pipeline built with scikit-learn alone from the documented rules,
  SVR regressors with `lda` None / False / True – C09f: the “directly built rater” used before shared the mutated
  constructor; response arrays of integer type – C09e), C10 (the caller's own training arrays are passed, not
  copies – C10h; the same keyword arguments in every order – C10i), C14 (tuples through every entry point – C14i),
  C15 (sample weights for int / int8 / float32 responses – C15f), C16 (a recorded curve whose approach/retract
  switch is moved by segment discovery – C16j), C17 (datasets whose approach does not end at its maximal force;
  the value clauses are now also evaluated on the stub datasets of the model tie – C17f), C18 (NaN as Python
  float, numpy scalars of both widths and a computed NaN – C18f), C19 (a second batch run into the same results
  directory; a legacy-format profile handed to the batch fit; the type of integer settings – C19i/j), C20 (maps
  that mix long and short curves so that ratings of exactly 0 and non-trivial ratings both occur – C20g).  A side
  remark of one agent (an interval given with numpy scalars makes the whole rating container unreadable) was
  reproduced, repaired (280e6bf) and is covered by fit variant N of `./check C16`.

* seventh round (10 of 22 were first missed, 4 more had no failing input): C04/C05 (curves recorded with a dwell:
  three segments, fits of segment 2 – C04g, C05i; minimisations that lmfit gives up on, with a budget of 2–6
  function evaluations – C04f), C07 (deflection offsets that make the whole raw force negative or far above zero –
  C07i), C09 (the scikit-learn reference also for feature subsets with training sets loaded from disk, and a fitted
  curve too short for the size criterion: a criterion that is not selected must not exclude the curve – C09g), C15
  (every infinite entry is compared with twice the largest finite magnitude of its column, computed from the
  returned rows after re-deriving which rows are kept and what was imputed – C15g/h; the first version of this
  oracle matched rows greedily and raised a false alarm when an imputed value was itself infinite: corrected before
  it was committed), C16 (a three-segment curve stored and loaded – C16k), C17 (twin datasets that differ only in
  `gcf_k`, or in the name of the abscissa column next to an unrelated `tip position` column, must have equal
  features – C17g/h), C19 (interval bounds that are not on a nanometre grid must survive a setup run in which both
  prompts are skipped; a folder that only looks like a training set must be asked for again – C19k/l), C20 (folders
  below a dot-named directory and folders named by a relative path through `..` – C20h).  C08k was submitted for C07
  and is kept under C08 (the fallback is the middle of the clipped approach part).

* eighth round (5 of 24 were first missed, 2 more had no failing input): C01 (a small sphere pushed to more than
  twice its radius – C01i), C04 (an E(δ) scan requested after an ordinary fit must leave the reported results alone;
  exceptions of the numerical library instead of an unsuccessful fit – C04h/i), C05 (a second scan request and the
  accessor after a plateau-search fit return the stored arrays in the stored order – C05j), C06 (a freshly built
  curve reports no preprocessing whatever earlier curves of the process went through; the options attribute is
  edited in place as well – C06k/l), C07 (the curve's own `estimate_contact_point_index` agrees with the step –
  C07j), C09 (the standalone rater fed with the curve's feature vector through `rate(samples=…)` – C09h), C10 (only
  the constraint expression of a fixed parameter edited in place – C10j), C12 (the same parameters added to the
  container in another order – C12i), C14 (lists that name a step twice, first in front of its required step –
  C14k), C15 (fractional user ratings through export and import – C15i), C17 (a tip position that saturates and
  hovers at a rigid surface; every stub dataset is evaluated once more in SI-like magnitudes so that the
  logarithmic features do not saturate – C17i), C18 (a module whose `compute_ancillaries` returns undeclared
  entries in another order; names and units of keys that are fit parameter and ancillary at once – C18h/i), C19 (a
  non-default regressor in the second batch run – C19n), C20 (every map ends fully fitted and rated with non-default
  rating settings – which also restored the detection of C20f that the sixth-round change of the map generator had
  lost for the default seed; found by re-running all seeds).

* ninth round (12 of 28 were first missed, 2 more had no failing input; the agents worked from a coverage run of
  the test suite): C01 (the whole-segment interval spelled out, written (high, low), and relative to the contact
  point – C01j), C06 (every request repeated with `ret_details=True`: accepted iff accepted without, data columns
  unchanged; degenerate recordings on which the estimators find nothing; option values that cannot be compared with
  the stored ones – C06m and the repaired defect 1e22c1e), C07 (the tip-sample separation asked for a second time
  after the force was corrected, in the pipeline and by calling the step functions on a processed curve – C07l), C08
  (recordings of 6500–12000 samples; for the quadratic models, which the polynomial fits represent almost
  exactly (δ³/(aδ² + bδ + c) → δ²/b), the stated fraction is 1 % plus one sample instead of 35 % – C08l took the centre fallback within the old bound), C09
  (user directories holding NaN, +inf and −inf in one sample, and a user directory that carries the name of the
  shipped set, against a reference that reads and cleans the files itself – C09i/j), C10 (the details returned for a
  caller-held option dictionary edited between calls – C10l), C11 (the factor requested through each documented
  route on a curve fitted before with another factor, including `IndentationFitter(idnt, gcf_k=k)` – C11l), C12
  (limits of a *constrained* parameter – C12j), C13 (residual without a weighting distance against the weights
  function's own default; every parameter on each declared limit – C13i/j, and the three recorded findings), C16
  (interval bounds computed from the data, seventeen significant digits – C16l), C17 (a twin dataset whose retract
  reaches beyond both ends of the approach – C17k), C19 (writes the profile cannot serialise, in between: rejected
  and nothing stored before is lost – C19o).  A side remark of one agent (an option value that cannot be compared
  leaves a half-stored request behind) was reproduced with `./check C06`, repaired (1e22c1e) and is covered by the
  incomparable requests of the pair oracle; another (the plateau search ignores a changed lower interval bound even
  when it exceeds the upper one) leaves stored settings and results consistent with each other and is listed
  under the observations.

* tenth round (13 of 34 were first missed, 2 more had no failing input): C01 (the default interval with the range type
  switched to contact-point-relative – C01l), C02 (one parameter on each declared limit at which the documented
  formula is defined: finite forces, the formula, the exact baseline – C02m), C06 (pipelines with height smoothing,
  which works through the segment views of the curve, after a fit – C06n), C07 (the contact index used by the offset
  corrections against the Lean model of the documented rule, strictly whenever binary64 is exact there – flat
  baselines are generated on purpose; the same change was submitted for C08 and is kept as C07m and C08n), C09
  (unrated samples, response −1, sitting on the rated curve in feature space: the reference weights the classes 0…10
  only; fits whose fixed contact point leaves 0–3 approach samples in front of it – C09k/l), C10 (the standalone
  rater: training arrays edited after `get_rater` returned; keyword arguments of an earlier `get_rater` call; the
  table of regressor defaults is monitored – C10m/n), C11 (minimisers that report no uncertainties: Nelder–Mead,
  `calc_covar=False` – C11n), C15 (a *folder* of rating containers with sub-folders as the rating source – C15l), C16
  (directed “different fit” sequences: an all-NaN fit after a successful one and the reverse; a fit with an identical
  hash on a curve whose segment switch was moved by hand – C16m/n), C17 (a “ringing” artefact; several hundred
  samples are needed before the spike features respond, so long directed datasets were added, and – as the brief
  prescribes – a broken tie with the Lean model now triggers a search among datasets of the same kind for one on
  which a value clause fails on the implementation – C17l; the twin with a wide retract is evaluated with the contact
  point just outside the approach range on purpose – which restored the detection of C17k that the new dataset kind
  had shifted away), C18 (whatever was accepted must be usable: advertised ancillary keys can be named and computed –
  C18k), C19 (open-ended intervals `[-inf, x]`, `[x, inf]` as profile values – C19q).  Re-running all seeds afterwards showed
  that the larger pipeline catalogue had moved the random histories away from the one that used to give C06h (an empty
  option dictionary silently replaced by the remembered options) its failing input; the pair oracle now also compares
  the columns after every accepted request with those of a fresh curve given *that request* – the property's own
  words – and not only with a fresh curve given the pipeline the curve says it stored.

* eleventh round (6 of 20 were first missed, 2 more had no failing input): C01 (a fit with a wrong fixed tip radius
  followed on the same object by the fit with the right one, for sharp tips whose radius and its correction are of
  the order of 1e-9 … 1e-8 – C01m compared the old and new parameters with an absolute tolerance of 1e-8), C06
  (requests aborted by `KeyboardInterrupt` / `SystemExit` / `MemoryError` raised inside the contact-point
  estimation: not remembered, and the same request afterwards gives the columns of a fresh curve – C06o narrowed the
  roll-back to `Exception`), C10 (minimiser keywords with an *inner* dictionary edited by the caller between two
  calls – C10o stored a shallow copy), C13 (the wrapper stated on the user's function itself: evaluated on the
  abscissa with first ≥ last and returned in the caller's order, for non-monotonic abscissae whose extreme positions
  disagree with first / last – C13m had only broken the tie with `Residual.wrap`), C14 (every selection also handed to
  a recording that already holds a "tip position" column – C14q counted the tip-sample separation as done for such
  data), C17 (the list returned by `get_feature_names` reversed and extended by the caller, then asked for again –
  C17n handed out a cached list), C19 (two or three live `Profile` objects on one file with interleaved writes; every
  reader – old objects and a new one – sees every value written last – C19r cached the parsed file per object).
  New theorems of the round: `Props/C04` (weights rise monotonically and symmetrically, chi-square is non-negative and
  zero exactly when the used residuals vanish, weighting never increases chi-square) with the same laws evaluated on
  the real `compute_contact_point_weights` / `residual`, and `Props/C05` (`lmin_spec`, `lmax_spec`, `select_mem`,
  `c05_xmin_xmax_extreme`: the reported xmin / xmax are attained at points the `fit range` column flags and bracket
  every used point).  After the round the quick tier of all twenty checks (seed 0; the affected nine also with
  seeds 1 and 2) and the thorough tier of C01, C04, C05, C10, C13, C14, C17 and C19 (seed 0, `leanchecker` included)
  were run on the unchanged tree: no violation, no broken tie.

### 9.6 Observations that are not findings

`optimal_fit_num_samples ≤ 6` makes scipy's `filtfilt` raise; `preproc.apply(options=None)` raises
AttributeError (the public entry point passes a dict); `least_squares`/`powell` stop early on SI-scaled data; parameter sets with extra user
parameters are outside the object model; afmformats' HDF5 reader iterates curve groups in
lexicographic key order (third party); the plateau search (`optimal_fit_edelta`) raises FitDataError for every
retract segment (`compute_emodulus_vs_mindelta` ends in an unconditional raise there) and, with an upper bound
equal to the default's, replaces the user's `range_x` by the default list (modelled as `fitterFp`); a map pixel without a curve is NaN without a warning; with the plateau search on, `range_x = [a, b] → [c, b]` is ignored even for `c > b`, where
`max(range_x)` would have become `c` – the stored interval stays `[a, b]`, and results and hash belong to the stored one (C03 holds; modelled by the `sameHi` branch of `setitem`).

### 9.7 Deviations from the design

* §2.6 planned a faithful/repaired *switch* in the model for every recorded defect.  As almost all
  defects were repaired, the models follow the repaired code; the three recorded findings are
  handled by an excluding hypothesis + witness (C03/C06), by classification on recorded optimiser
  inputs (C08) and by a disjunct in the theorem (C17).
* C07 proves full strict monotonicity of `smooth_axis_monotone` (for the repaired exit test) instead
  of only “what the exit tests imply”.
* C08 models the gradient estimator concretely (moving average with reflect boundary) instead of an
  abstract operator, and the optimiser as a parameter of `fitBased`.
* C17 models all 15 features; Gaussian weights are handed to the driver as data rather than
  recording filter outputs.
'''
s=s.rstrip("\n")+sec
open(p,'w').write(s)
