#!/usr/bin/env python3
"""Apply each kept seeded change to /repo, run the quick check of its property, undo it, and record
whether the check reported a violation.   usage: run_seeds.py [name ...]   (default: all claimed)"""
import json
import pathlib
import subprocess
import sys

V = pathlib.Path("/verif")
names = sys.argv[1:] or sorted(p.name for p in (V / "seeded").iterdir() if p.is_dir())
claimed = {c["property_id"] for c in json.loads((V / "MANIFEST.json").read_text())["checks"]}
resf = V / "seeded" / "RESULTS.json"
results = json.loads(resf.read_text()) if resf.exists() else {}
assert subprocess.run("git -C /repo status --porcelain", shell=True, capture_output=True, text=True).stdout.strip() == "", "repo dirty"
for n in names:
    d = V / "seeded" / n
    meta = json.loads((d / "meta.json").read_text())
    prop = meta["breaks_property"]
    if prop not in claimed:
        continue
    try:
        subprocess.run(f"git -C /repo apply {d / 'patch.diff'}", shell=True, check=True)
        p = subprocess.run(f"./check {prop} --tier quick", shell=True, cwd=V, capture_output=True, text=True,
                           timeout=3600)
    finally:
        subprocess.run("git -C /repo checkout -- .", shell=True)
    viol = [l for l in p.stdout.splitlines() if l.startswith("VIOLATION")]
    results[n] = {"property": prop, "exit": p.returncode, "detected": p.returncode == 1 and bool(viol),
                  "with_failing_input": any("no-failing-input-found" not in l for l in viol),
                  "summary": p.stdout.strip().splitlines()[-1] if p.stdout.strip() else p.stderr[-300:]}
    print(n, results[n])
resf.write_text(json.dumps(results, indent=1, sort_keys=True))
