#!/usr/bin/env python3
"""Confirm a seeded change produced by a sub-agent in a scratch worktree and keep it under
/verif/seeded/<name>/.   usage: confirm_seed.py <name> <property> <srcdir>"""
import json
import os
import pathlib
import shutil
import subprocess
import sys

name, prop, src = sys.argv[1], sys.argv[2], pathlib.Path(sys.argv[3])
wt = pathlib.Path("/tmp/wtc") / name
dest = pathlib.Path("/verif/seeded") / name


def sh(cmd, cwd=None, env=None, timeout=1800):
    p = subprocess.run(cmd, shell=True, cwd=cwd, env=env, capture_output=True, text=True, timeout=timeout)
    return p.returncode, (p.stdout + p.stderr)[-2000:]


wt.parent.mkdir(exist_ok=True)
sh(f"git -C /repo worktree remove --force {wt}")
rc, out = sh(f"git -C /repo worktree add -q --detach {wt} HEAD")
assert rc == 0, out
shutil.copy("/repo/src/nanite/_version.py", wt / "src/nanite/_version.py")
env = dict(os.environ, PYTHONPATH=str(wt / "src"), MPLBACKEND="Agg")
res = {"property": prop, "name": name}
try:
    shutil.copy(src / "demo.py", wt / "seed_demo.py")
    rc0, out0 = sh("/venv/bin/python seed_demo.py", cwd=wt, env=env)
    res["demo_without_change_exit"] = rc0
    rc, out = sh(f"git apply {src / 'patch.diff'}", cwd=wt)
    res["patch_applies"] = rc == 0
    rc1, out1 = sh("/venv/bin/python seed_demo.py", cwd=wt, env=env)
    res["demo_with_change_exit"] = rc1
    rct, outt = sh("/venv/bin/python -m pytest -q -p no:cacheprovider --timeout=900 -n 8 tests", cwd=wt, env=env)
    res["tests_with_change"] = outt.strip().splitlines()[-1] if outt.strip() else ""
    res["tests_pass"] = rct == 0 and "176 passed" in outt
    res["confirmed"] = bool(res["patch_applies"] and rc0 == 0 and rc1 != 0 and res["tests_pass"])
finally:
    sh(f"git -C /repo worktree remove --force {wt}")
if res["confirmed"]:
    dest.mkdir(parents=True, exist_ok=True)
    shutil.copy(src / "patch.diff", dest / "patch.diff")
    shutil.copy(src / "demo.py", dest / "demo.py")
    meta = {}
    if (src / "meta.json").exists():
        try:
            meta = json.loads((src / "meta.json").read_text())
        except Exception:
            meta = {"raw": (src / "meta.json").read_text()[:2000]}
    meta_out = {"breaks_property": prop, "summary": meta.get("summary"), "needs": meta.get("needs"),
                "files_touched": meta.get("files_touched"), "author": "independent sub-agent (given only "
                "the property text and a scratch worktree)",
                "confirmed_by_me": {"base_commit": subprocess.check_output(
                    ["git", "-C", "/repo", "rev-parse", "--short", "HEAD"], text=True).strip(),
                    "ran": ["demo.py on a clean scratch worktree of /repo HEAD -> exit 0",
                            "git apply patch.diff; demo.py -> exit %d" % res["demo_with_change_exit"],
                            "full test-suite with the change: " + res["tests_with_change"]]}}
    (dest / "meta.json").write_text(json.dumps(meta_out, indent=1))
print(json.dumps(res))
