"""Translate the body of a shipped `model_func` (element-wise numpy code) from its Python AST into a
point-wise Lean definition: once over ℝ (for proofs) and once over Float (for execution, so that the
translation itself is validated against numpy on every run).

Supported subset (anything else raises TranslateError):
  name = <expr>                       assignment of a scalar / element-wise expression
  name = np.zeros_like(delta)         ↦ 0
  pos = <expr> > 0                    a mask (only `>`, `>=`, `<`, `<=` against an expression)
  name[pos] = <expr>                  masked assignment ↦ `if pos then <expr> else name`
  x[pos]                              ↦ x
  + - * / ** unary -, numeric literals, `pi`, np.sqrt, np.tan, np.zeros_like
  return <expr>
"""
import ast
import fractions
import inspect
import textwrap


class TranslateError(Exception):
    pass


class Tr:
    def __init__(self, func, flavour):
        self.flavour = flavour          # "R" or "F"
        src = textwrap.dedent(inspect.getsource(func))
        self.fn = ast.parse(src).body[0]
        if not isinstance(self.fn, ast.FunctionDef):
            raise TranslateError("not a function definition")
        self.args = [a.arg for a in self.fn.args.args]
        if self.fn.args.vararg or self.fn.args.kwarg or self.fn.args.kwonlyargs:
            raise TranslateError("unsupported signature")
        self.masks = set()
        self.version = {}               # python name -> SSA counter
        self.lines = []

    # ------------------------------------------------------------------ names
    def cur(self, name):
        if name in self.args and name not in self.version:
            return self.lean_name(name)
        if name not in self.version:
            raise TranslateError(f"use of unassigned name {name}")
        v = self.version[name]
        return self.lean_name(name) + ("" if v == 0 else f"_{v}")

    def new(self, name):
        if name in self.args:
            raise TranslateError(f"assignment to argument {name}")
        self.version[name] = self.version.get(name, -1) + 1
        return self.cur(name)

    @staticmethod
    def lean_name(n):
        return {"delta": "δ", "nu": "ν"}.get(n, n)

    # ------------------------------------------------------------------ expressions
    def num(self, v):
        if self.flavour == "F":
            return f"({float(v)!r} : Float)" if not isinstance(v, int) else f"({v} : Float)"
        if isinstance(v, int):
            return f"({v} : ℝ)"
        return f"({v!r} : ℝ)"

    def expr(self, e):
        if isinstance(e, ast.Constant) and isinstance(e.value, (int, float)) and not isinstance(e.value, bool):
            return self.num(e.value)
        if isinstance(e, ast.Name):
            if e.id == "pi":
                return "Real.pi" if self.flavour == "R" else "(3.141592653589793 : Float)"
            if e.id in self.masks:
                raise TranslateError("mask used as a value")
            return self.cur(e.id)
        if isinstance(e, ast.Subscript):
            # x[pos] ↦ x (point-wise)
            if isinstance(e.value, ast.Name) and isinstance(e.slice, ast.Name) and e.slice.id in self.masks:
                return self.cur(e.value.id)
            raise TranslateError("unsupported subscript")
        if isinstance(e, ast.UnaryOp) and isinstance(e.op, ast.USub):
            return f"(-{self.expr(e.operand)})"
        if isinstance(e, ast.UnaryOp) and isinstance(e.op, ast.UAdd):
            return self.expr(e.operand)
        if isinstance(e, ast.BinOp):
            if isinstance(e.op, ast.Pow):
                base = self.expr(e.left)
                k = self.const_int(e.right)
                if k is not None and k >= 0:
                    if self.flavour == "R":
                        return f"({base} ^ ({k} : ℕ))"
                    return "(" + " * ".join([base] * k) + ")" if k > 0 else self.num(1)
                ex = self.expr(e.right)
                if self.flavour == "R":
                    return f"(Real.rpow {base} {ex})"
                return f"(Float.pow {base} {ex})"
            op = {ast.Add: "+", ast.Sub: "-", ast.Mult: "*", ast.Div: "/"}.get(type(e.op))
            if op is None:
                raise TranslateError(f"unsupported operator {type(e.op).__name__}")
            return f"({self.expr(e.left)} {op} {self.expr(e.right)})"
        if isinstance(e, ast.Call):
            f = e.func
            name = None
            if isinstance(f, ast.Attribute) and isinstance(f.value, ast.Name) and f.value.id == "np":
                name = f.attr
            if name == "sqrt" and len(e.args) == 1:
                a = self.expr(e.args[0])
                return f"(Real.sqrt {a})" if self.flavour == "R" else f"(Float.sqrt {a})"
            if name == "tan" and len(e.args) == 1:
                a = self.expr(e.args[0])
                return f"(Real.tan {a})" if self.flavour == "R" else f"(Float.tan {a})"
            if name == "zeros_like" and len(e.args) == 1:
                return self.num(0)
            raise TranslateError(f"unsupported call {ast.dump(f)[:60]}")
        raise TranslateError(f"unsupported expression {type(e).__name__}")

    @staticmethod
    def const_int(e):
        if isinstance(e, ast.Constant) and isinstance(e.value, int) and not isinstance(e.value, bool):
            return e.value
        return None

    def mask(self, e):
        if isinstance(e, ast.Compare) and len(e.ops) == 1:
            op = {ast.Gt: ">", ast.GtE: "≥", ast.Lt: "<", ast.LtE: "≤"}.get(type(e.ops[0]))
            if op is None:
                raise TranslateError("unsupported comparison")
            a, b = self.expr(e.left), self.expr(e.comparators[0])
            if self.flavour == "F":
                op = {"≥": ">=", "≤": "<="}.get(op, op)
                return f"decide ({a} {op} {b})"
            return f"({a} {op} {b})"
        raise TranslateError("unsupported mask expression")

    # ------------------------------------------------------------------ statements
    def translate(self, lean_fn):
        ty = "ℝ" if self.flavour == "R" else "Float"
        body = []
        ret = None
        for st in self.fn.body:
            if isinstance(st, ast.Expr) and isinstance(st.value, ast.Constant) and isinstance(st.value.value, str):
                continue   # docstring
            if ret is not None:
                raise TranslateError("code after return")
            if isinstance(st, ast.Assign) and len(st.targets) == 1:
                t = st.targets[0]
                if isinstance(t, ast.Name):
                    if isinstance(st.value, ast.Compare):
                        m = self.mask(st.value)
                        self.masks.add(t.id)
                        body.append((self.new(t.id), m, True))
                    else:
                        v = self.expr(st.value)
                        body.append((self.new(t.id), v, False))
                    continue
                if isinstance(t, ast.Subscript) and isinstance(t.value, ast.Name) \
                        and isinstance(t.slice, ast.Name) and t.slice.id in self.masks:
                    old = self.cur(t.value.id)
                    v = self.expr(st.value)
                    cond = self.cur(t.slice.id)
                    body.append((self.new(t.value.id), f"if {cond} then {v} else {old}", False))
                    continue
                raise TranslateError("unsupported assignment target")
            if isinstance(st, ast.Return):
                ret = self.expr(st.value)
                continue
            raise TranslateError(f"unsupported statement {type(st).__name__}")
        if ret is None:
            raise TranslateError("no return")
        params = " ".join(self.lean_name(a) for a in self.args)
        nc = "noncomputable " if self.flavour == "R" else ""
        out = [f"{nc}def {lean_fn} ({params} : {ty}) : {ty} :="]
        for name, val, is_mask in body:
            if is_mask and self.flavour == "R":
                out.append(f"  let {name} : Prop := {val}")
            elif is_mask:
                out.append(f"  let {name} : Bool := {val}")
            else:
                out.append(f"  let {name} : {ty} := {val}")
        out.append(f"  {ret}")
        return "\n".join(out), self.args


# ---------------------------------------------------------------------- series coefficients
def series_coefficients(func):
    """For the truncated-series sphere model: the polynomial in t = root/R that multiplies
    root**(3/2), extracted from the AST with exact rational arithmetic."""
    src = textwrap.dedent(inspect.getsource(func))
    fn = ast.parse(src).body[0]
    target = None
    for st in fn.body:
        if isinstance(st, ast.Assign) and isinstance(st.targets[0], ast.Subscript):
            target = st.value
    if target is None or not isinstance(target, ast.BinOp) or not isinstance(target.op, ast.Mult):
        raise TranslateError("series model: masked assignment of the form power * (series) not found")
    poly = target.right

    def ev(e):
        if isinstance(e, ast.Constant) and isinstance(e.value, int):
            return {0: fractions.Fraction(e.value)}
        if isinstance(e, ast.UnaryOp) and isinstance(e.op, (ast.UAdd, ast.USub)):
            p = ev(e.operand)
            return p if isinstance(e.op, ast.UAdd) else {k: -v for k, v in p.items()}
        if isinstance(e, ast.BinOp):
            if isinstance(e.op, ast.Div) and isinstance(e.left, ast.Subscript) and isinstance(e.right, ast.Name) \
                    and e.right.id == "R" and getattr(e.left.value, "id", None) == "root":
                return {1: fractions.Fraction(1)}
            a = ev(e.left)
            if isinstance(e.op, ast.Pow):
                k = Tr.const_int(e.right)
                if k is None or k < 0:
                    raise TranslateError("series: non-integer power")
                r = {0: fractions.Fraction(1)}
                for _ in range(k):
                    r = mul(r, a)
                return r
            b = ev(e.right)
            if isinstance(e.op, ast.Add):
                return add(a, b)
            if isinstance(e.op, ast.Sub):
                return add(a, {k: -v for k, v in b.items()})
            if isinstance(e.op, ast.Mult):
                return mul(a, b)
            if isinstance(e.op, ast.Div):
                if set(b) != {0} or b[0] == 0:
                    raise TranslateError("series: division by a non-constant")
                return {k: v / b[0] for k, v in a.items()}
        raise TranslateError("series: unsupported expression " + type(e).__name__)

    def add(a, b):
        r = dict(a)
        for k, v in b.items():
            r[k] = r.get(k, 0) + v
        return r

    def mul(a, b):
        r = {}
        for i, x in a.items():
            for j, y in b.items():
                r[i + j] = r.get(i + j, 0) + x * y
        return r
    p = ev(poly)
    deg = max(p)
    return [p.get(i, fractions.Fraction(0)) for i in range(deg + 1)]
