"""History engine shared by C03 / C06 / C09 / C10: random operation histories on a real in-memory
Indentation (with caller-held mutable argument objects that are edited in place between calls), the same
operations – by VALUE – sent to the Lean object model (`Nanite.Model.Indent`), the fresh-object oracle
(the property statement of C03/C06) and the argument-mutation monitor (C10)."""
import copy
import hashlib
import json
import warnings

import numpy as np

PP_KEYS = ("preprocessing", "preprocessing_options")


# ----------------------------------------------------------------------------- canonical tokens
def params_model(p):
    names = list(p.keys())
    if "R" in names and "E" in names:
        return "hertz_para"
    if "alpha" in names:
        return "hertz_cone"
    return "other:" + ",".join(names)


def params_states(p):
    """one state token per parameter (what FitProperties.__setitem__ compares: Parameter.__getstate__)"""
    def cs(x):
        # Python == on the state tuples does not distinguish 0 from 0.0
        if isinstance(x, (int, float, np.integer, np.floating)) and not isinstance(x, bool):
            return repr(float(x))
        if isinstance(x, (tuple, list)):
            return "(" + ",".join(cs(y) for y in x) + ")"
        return repr(x)
    return [hashlib.sha1(cs(p[n].__getstate__()).encode()).hexdigest()[:10] for n in p]


def tok(v):
    """canonical token of a plain value: equal tokens <=> Python == (for the domains used here)"""
    if isinstance(v, (bool, np.bool_)):
        return repr(float(v))
    if isinstance(v, str):
        return "s:" + v
    if isinstance(v, (int, float, np.integer, np.floating)):
        return repr(float(v))
    if isinstance(v, list):
        return "L[" + ",".join(tok(x) for x in v) + "]"
    if isinstance(v, tuple):
        return "T(" + ",".join(tok(x) for x in v) + ")"
    if isinstance(v, dict):
        return "{" + ",".join(f"{k}:{tok(x)}" for k, x in sorted(v.items())) + "}"
    if v is None:
        return "None"
    return "?" + repr(v)


def canon_v(key, v, step_ids):
    import lmfit
    if v is None:
        return None
    if isinstance(v, lmfit.Parameters):
        return {"p": [params_model(v), params_states(v)]}
    if key == "range_x" and isinstance(v, (list, tuple)) and len(v) == 2:
        return {"r": [isinstance(v, tuple), repr(float(v[0])), repr(float(v[1]))]}
    if key == "preprocessing" and isinstance(v, (list, tuple)):
        return {"s": [step_ids.get(s, 100 + i) for i, s in enumerate(v)]}
    return {"t": tok(v)}


def show_v(key, v, step_ids):
    c = canon_v(key, v, step_ids)
    if c is None:
        return "None"
    if "p" in c:
        return "params:" + ",".join(v.keys())
    if "r" in c:
        t, lo, hi = c["r"]
        return ("T(" if t else "L[") + lo + "," + hi + (")" if t else "]")
    if "s" in c:
        return "steps[" + ", ".join(map(str, c["s"])) + "]"
    return c["t"]


def opt_errors(steps, opts):
    """per step: the error its options cause (None = fine), from the live option tables"""
    from nanite import preproc
    import inspect
    out = []
    for s in steps:
        try:
            f = preproc.get_func(s)
        except KeyError:
            out.append(None)
            continue
        o = opts.get(s, {}) if isinstance(opts, dict) else {}
        err = None
        sig = inspect.signature(f).parameters
        table = {d["name"]: d.get("choices") for d in (f.options or [])}
        for k, v in o.items():
            if k not in sig:
                err = "TypeError"
                break
            if k in table and table[k] is not None and v not in table[k]:
                err = "ValueError"
        out.append(err)
    return out


def digest(a):
    a = np.asarray(a)
    return hashlib.sha1(str(a.dtype).encode() + a.tobytes()).hexdigest()[:12]


def deep_state(obj):
    """value snapshot of a caller-held argument (for the mutation monitor)"""
    import lmfit
    if isinstance(obj, lmfit.Parameters):
        return ("P", [(n, obj[n].__getstate__()) for n in obj])
    if isinstance(obj, np.ndarray):
        return ("A", digest(obj))
    if isinstance(obj, dict):
        return ("D", [(k, deep_state(v)) for k, v in obj.items()])
    if isinstance(obj, (list, tuple)):
        return ("L" if isinstance(obj, list) else "T", [deep_state(v) for v in obj])
    return ("V", repr(obj))


class Counter:
    """counts optimiser runs (lmfit.minimize) and rater constructions during one operation"""

    def __enter__(self):
        import nanite.fit as nfit
        import nanite.indent as nind
        self.nfit, self.nind = nfit, nind
        self.minimize = 0
        self.raters = 0
        me = self
        self.o_lm = nfit.lmfit
        o_min = nfit.lmfit.minimize

        class P:
            def __getattr__(self, n):
                return getattr(me.o_lm, n)

            def minimize(self, *a, **k):
                me.minimize += 1
                return o_min(*a, **k)
        nfit.lmfit = P()
        # a fit "ran" when the outermost IndentationFitter.fit() returned (it may have stopped before the
        # optimiser when the interval holds too few points); multi-pass fits count once, raising fits do not
        self.fits = 0
        self.o_fit = nfit.IndentationFitter.fit
        depth = [0]

        def fit(self_):
            depth[0] += 1
            try:
                r_ = me.o_fit(self_)
            finally:
                depth[0] -= 1
            if depth[0] == 0:
                me.fits += 1          # (a fit that raises is not counted)
            return r_
        nfit.IndentationFitter.fit = fit
        self.o_gr = nind.get_rater

        def gr(*a, **k):
            me.raters += 1
            return me.o_gr(*a, **k)
        nind.get_rater = gr
        return self

    def __exit__(self, *a):
        self.nfit.lmfit = self.o_lm
        self.nfit.IndentationFitter.fit = self.o_fit
        self.nind.get_rater = self.o_gr
        return False


RAW_CACHE = {}


def raw_curve(cid):
    """raw arrays of the pool curves (no innate tip position: needs compute_tip_position)"""
    if cid not in RAW_CACHE and cid >= 100:
        # degenerate recordings on which contact-point estimators find nothing: constant force, a force that
        # only falls (maximum at the first sample), a very short curve
        from curves import synth
        idnt = synth(n_app=[200, 200, 40][cid % 3], n_ret=[100, 100, 20][cid % 3], noise=[0.0, 0.0, 2e-11][cid % 3],
                     seed=40 + cid)
        cols = {c: np.array(idnt[c], copy=True) for c in ("force", "height (measured)", "segment", "time")}
        if cid % 3 == 0:
            cols["force"] = np.full_like(cols["force"], 1.5e-9)
        elif cid % 3 == 1:
            cols["force"] = np.linspace(3e-9, 1e-9, cols["force"].size)
        RAW_CACHE[cid] = cols
    if cid not in RAW_CACHE:
        from curves import synth
        idnt = synth(n_app=[160, 240, 700][cid % 3], n_ret=[80, 120, 200][cid % 3], noise=[2e-11, 4e-11, 1e-11][cid % 3],
                     tilt=[0.0, 3e-6, 0.0][cid % 3], seed=40 + cid, cp=[0.0, 1e-7, -5e-8][cid % 3],
                     E=[400, 900, 2500][cid % 3])
        RAW_CACHE[cid] = {c: np.array(idnt[c], copy=True) for c in ("force", "height (measured)", "segment", "time")}
    return RAW_CACHE[cid]


def fresh(cid):
    from curves import make_indentation
    r = raw_curve(cid)
    return make_indentation(r["force"].copy(), r["height (measured)"].copy(), r["segment"].copy(),
                            time=r["time"].copy())


TS_CACHE = {}


def tiny_training_set(seed=0, names=None):
    """small in-memory training set whose columns match the continuous features selected by `names`"""
    key = (seed, tuple(names) if names else None)
    if key not in TS_CACHE:
        from nanite.rate import IndentationRater
        n = len(IndentationRater.get_feature_names(which_type=["continuous"], names=list(names) if names else None))
        g = np.random.default_rng(seed)
        X = g.normal(0, 1, (60, max(n, 1)))
        y = g.integers(0, 11, 60).astype(float)
        TS_CACHE[key] = (X, y)
    return TS_CACHE[key]


class World:
    def __init__(self, cid, rng):
        from nanite import model, preproc
        self.cid = cid
        self.rng = rng
        self.idnt = fresh(cid)
        self.step_names = [f.identifier for f in preproc.PREPROCESSORS]
        self.step_ids = {n: i for i, n in enumerate(self.step_names)}
        # caller-held objects (edited in place by `mut` operations and passed again)
        self.obj = {
            "steps": ["compute_tip_position", "correct_tip_offset"],
            "opts": {"correct_tip_offset": {"method": "deviation_from_baseline"}},
            "params": model.models_available["hertz_para"].get_parameter_defaults(),
            "cone": model.models_available["hertz_cone"].get_parameter_defaults(),
            "method_kws": {},
            "names": ["feat_con_apr_sum", "feat_con_idt_sum", "feat_bin_size"],
            "range": [-8e-7, 4e-7],
        }
        self.history = []
        # a freshly built curve has no preprocessing of its own - whatever other curves went through before
        self.leak = None
        if list(self.idnt.preprocessing) != [] or dict(self.idnt.preprocessing_options) != {} or \
                len(self.idnt.fit_properties) != 0:
            self.leak = (f"a freshly built curve reports preprocessing={self.idnt.preprocessing!r}, "
                         f"preprocessing_options={self.idnt.preprocessing_options!r}, fit_properties keys "
                         f"{sorted(self.idnt.fit_properties)} (state of an earlier curve of this process)")

    # ------------------------------------------------------------------ observation
    def observe(self, outcome, counter, extra=""):
        import nanite.fit as nfit
        fp = self.idnt.fit_properties
        has_res = "hash" in fp
        fitcols = "fit" in self.idnt
        keys = [k for k in nfit.FP_DEFAULT if k in fp]
        fpstr = ", ".join(f"{k}={show_v(k, fp[k], self.step_ids)}" for k in keys)
        return {"outcome": outcome, "res": has_res, "fitcols": fitcols, "fit_ran": counter.fits > 0,
                "scan": "optimal_fit_E_array" in fp,
                "rated": counter.raters, "fp": "{" + fpstr + "}", "extra": extra}

    # ------------------------------------------------------------------ the fresh-object oracle
    def fresh_oracle(self):
        """C03/C06: visible results and columns == a fresh copy with only the stored pipeline and the
        stored settings applied once.  Returns a list of (signature, description)."""
        import nanite.fit as nfit
        fp = self.idnt.fit_properties
        bad = []
        ref = fresh(self.cid)
        with warnings.catch_warnings():
            warnings.simplefilter("ignore")
            try:
                if "preprocessing" in fp:
                    ref.apply_preprocessing(copy.deepcopy(fp["preprocessing"]),
                                            copy.deepcopy(fp.get("preprocessing_options", {})))
            except BaseException as e:  # noqa
                return [("stored-pipeline-not-applicable", f"stored pipeline raises on a fresh copy: {e!r}")]
            # data columns: function of the stored pipeline only
            for col in sorted(set(self.idnt.columns) | set(ref.columns)):
                if col in ("fit", "fit residuals", "fit range"):
                    continue
                if (col in self.idnt) != (col in ref) or \
                        (col in ref and digest(self.idnt[col]) != digest(ref[col])):
                    bad.append(("columns-differ-from-fresh", f"column '{col}' differs from a fresh copy with the "
                                f"stored pipeline {fp.get('preprocessing')} / {fp.get('preprocessing_options')}"))
                    break
            if "hash" in fp and not bad:
                kw = {k: copy.deepcopy(fp[k]) for k in nfit.FP_DEFAULT if k in fp and k not in PP_KEYS}
                try:
                    ref.fit_model(**kw)
                except BaseException as e:  # noqa
                    return bad + [("stored-settings-not-fittable", f"stored settings raise on a fresh copy: {e!r}")]
                fr = ref.fit_properties
                # a fit that ends at a parameter limit is flat in that direction: its last digits are not
                # reproducible bit by bit (observed: 2850.04 vs 2850.0 at a lower limit of 2850) - compared
                # to 1e-3 there, exactly otherwise
                at_limit = False
                if "params_fitted" in fp:
                    for n_, q_ in fp["params_fitted"].items():
                        for lim in (q_.min, q_.max):
                            if q_.vary and np.isfinite(lim) and abs(q_.value - lim) <= 1e-3 * max(abs(lim), 1e-300):
                                at_limit = True

                def differs(u, v):
                    if at_limit:
                        return abs(u - v) > 1e-3 * max(abs(u), abs(v), 1e-300)
                    return u != v
                if fr.get("hash") != fp.get("hash"):
                    bad.append(("hash-differs-from-fresh", "hash differs from a fresh copy with the stored settings"))
                if "params_fitted" in fp and "params_fitted" in fr:
                    a, b_ = fp["params_fitted"], fr["params_fitted"]
                    if any(differs(a[n].value, b_[n].value) for n in a):
                        bad.append(("results-differ-from-fresh", "fitted parameters differ from a fresh copy with "
                                    "the stored settings: " +
                                    ", ".join(f"{n}: {a[n].value!r} vs {b_[n].value!r}" for n in a
                                              if differs(a[n].value, b_[n].value))))
                for k in ("chi_sqr", "xmin", "xmax", "success"):
                    if k == "chi_sqr" and at_limit:
                        continue
                    if fp.get(k) != fr.get(k) and not bad:
                        bad.append(("results-differ-from-fresh", f"{k} differs from a fresh copy"))
                for col in ("fit", "fit residuals", "fit range"):
                    if at_limit and col in self.idnt and col in ref and col != "fit range":
                        u_, v_ = np.asarray(self.idnt[col], dtype=float), np.asarray(ref[col], dtype=float)
                        sc_ = float(np.nanmax(np.abs(np.asarray(self.idnt["force"], dtype=float)))) or 1.0
                        if u_.shape == v_.shape and np.array_equal(np.isnan(u_), np.isnan(v_)) and \
                                np.nanmax(np.abs(u_ - v_), initial=0.0) <= 1e-3 * sc_:
                            continue
                    if (col in self.idnt) != (col in ref) or \
                            (col in ref and digest(self.idnt[col]) != digest(ref[col])):
                        bad.append(("fit-columns-differ-from-fresh", f"column '{col}' differs from a fresh copy"))
                        break
            elif "hash" not in fp and "fit" in self.idnt:
                bad.append(("stale-fit-columns", "fit columns are visible although no results are stored"))
            if "optimal_fit_E_array" in fp and not bad:
                # a visible E(delta) scan (cached by compute_emodulus_mindelta or stored by a plateau search)
                # must be the scan of the stored settings
                ref2 = fresh(self.cid)
                try:
                    if "preprocessing" in fp:
                        ref2.apply_preprocessing(copy.deepcopy(fp["preprocessing"]),
                                                 copy.deepcopy(fp.get("preprocessing_options", {})))
                    for k in sorted(k for k in nfit.FP_DEFAULT if k in fp and k not in PP_KEYS):
                        ref2.fit_properties[k] = copy.deepcopy(fp[k])
                    e2, d2 = ref2.compute_emodulus_mindelta()
                except BaseException:  # noqa
                    e2 = None
                if e2 is not None:
                    e1 = np.asarray(fp["optimal_fit_E_array"], dtype=float)
                    d1 = np.asarray(fp["optimal_fit_delta_array"], dtype=float)
                    e2, d2 = np.asarray(e2, dtype=float), np.asarray(d2, dtype=float)
                    if e1.shape != e2.shape:
                        bad.append(("scan-differs-from-fresh", f"the visible E(delta) scan has {e1.size} samples, "
                                    f"a fresh copy with the stored settings (optimal_fit_num_samples="
                                    f"{fp.get('optimal_fit_num_samples')!r}) gives {e2.size}"))
                    elif not (np.allclose(d1, d2, rtol=1e-9, atol=0, equal_nan=True) and
                              np.allclose(e1, e2, rtol=1e-3, atol=0, equal_nan=True)):
                        bad.append(("scan-differs-from-fresh", "the visible E(delta) scan differs from the scan of "
                                    "a fresh copy with the stored settings"))
        return bad

    def raw_unchanged(self):
        r = raw_curve(self.cid)
        return all(digest(self.idnt._raw_data[c]) == digest(r[c]) for c in r)
