"""Shared helpers for the fit-related properties (C01 C04 C05 C11): synthetic curves from the shipped
models, recording of lmfit.minimize calls, exact rationals for the Lean driver."""
import copy
import fractions
import warnings

import numpy as np

MODELS = ["hertz_para", "hertz_cone", "hertz_pyr3s", "sneddon_spher_approx", "power_layer_clifford_2009"]


def q(x):
    """exact rational of a float as 'n/d'"""
    f = fractions.Fraction(float(x))
    return f"{f.numerator}/{f.denominator}" if f.denominator != 1 else str(f.numerator)


def qf(s):
    """'n/d' -> float (correctly rounded)"""
    if s in ("nan", "none"):
        return float("nan")
    return float(fractions.Fraction(s))


def parse_list(s):
    s = s.strip()[1:-1]
    return [qf(t) for t in s.split(",")] if s else []


def model_force(model_key, tip, params):
    """force of a shipped model via the public model API"""
    from nanite import model
    md = model.models_available[model_key]
    return md.model(params, np.asarray(tip, dtype=float))


def truth_params(model_key, rng, cp=None):
    """random ground-truth parameters inside the bounds of a shipped model"""
    from nanite import model
    p = model.models_available[model_key].get_parameter_defaults()
    E = 10 ** rng.uniform(2, 5)
    if model_key == "power_layer_clifford_2009":
        p["E_S"].set(value=E)
        p["E_L"].set(value=rng.uniform(5, 200))
        p["t"].set(value=10 ** rng.uniform(-7.5, -6.5))
        p["R"].set(value=rng.choice([2e-6, 5e-6, 10e-6]))
        p["nu_S"].set(value=rng.choice([0.3, 0.45]))
        p["nu_L"].set(value=rng.choice([0.3, 0.2]))
    else:
        p["E"].set(value=E)
        if "R" in p:
            p["R"].set(value=rng.choice([2e-6, 5e-6, 10e-6, 20e-6]))
        if "alpha" in p:
            p["alpha"].set(value=rng.choice([10, 20, 25, 28]))
        p["nu"].set(value=rng.choice([0.5, 0.4, 0.3]))
    p["contact_point"].set(value=rng.uniform(-2e-7, 2e-7) if cp is None else cp)
    p["baseline"].set(value=rng.choice([0.0, rng.uniform(-2e-10, 2e-10)]))
    return p


def synth_curve(model_key, params, rng, n_app=300, n_ret=200, zmax=3e-6, depth=1.2e-6, noise=0.0,
                uniform=True, seed=0, tilt=0.0, path="synthetic.tab", enum=0):
    """an in-memory Indentation whose approach AND retract segments follow `model_key` exactly
    (plus optional noise / tilt); the 'tip position' column is innate"""
    from curves import make_indentation
    cp = params["contact_point"].value
    if uniform:
        ta = np.linspace(cp + zmax, cp - depth, n_app)
        tr = np.linspace(cp - depth, cp + zmax, n_ret + 1)[1:]
    else:
        ua = np.array(sorted(rng.random() for _ in range(n_app)))
        ur = np.array(sorted(rng.random() for _ in range(n_ret)))
        ta = cp + zmax - ua * (zmax + depth)
        tr = cp - depth + ur * (zmax + depth)
    tip = np.concatenate([ta, tr])
    force = model_force(model_key, tip, params) + tilt * tip
    if noise:
        force = force + np.random.default_rng(seed).normal(0, noise, force.size)
    seg = np.concatenate([np.zeros(n_app), np.ones(len(tr))])
    height = tip - force / 0.05
    return make_indentation(force, height, seg, tip=tip, path=path, enum=enum)


def synth_curve_dwell(model_key, params, rng, n_app=200, n_dwell=60, n_ret=150, zmax=3e-6, depth=1.2e-6, noise=0.0,
                      seed=0):
    """approach (segment 0), a dwell at the deepest point during which the force relaxes (segment 1), retract
    (segment 2) - as recorded with a pause; approach and retract follow `model_key` exactly (plus noise)"""
    from curves import make_indentation
    cp = params["contact_point"].value
    ta = np.linspace(cp + zmax, cp - depth, n_app)
    td = np.full(n_dwell, cp - depth) + 1e-10 * np.sin(np.arange(n_dwell))      # (piezo holds, nm-level wobble)
    tr = np.linspace(cp - depth, cp + zmax, n_ret + 1)[1:]
    tip = np.concatenate([ta, td, tr])
    force = model_force(model_key, tip, params)
    fdeep = force[n_app - 1]
    force[n_app:n_app + n_dwell] = fdeep * (1 - 0.2 * (1 - np.exp(-np.arange(n_dwell) / (0.3 * n_dwell))))
    if noise:
        force = force + np.random.default_rng(seed).normal(0, noise, force.size)
    seg = np.concatenate([np.zeros(n_app), np.ones(n_dwell), np.full(len(tr), 2)])
    height = tip - force / 0.05
    return make_indentation(force, height, seg, tip=tip)


class MinimizeRecorder:
    """wraps nanite.fit.lmfit.minimize: records, for every optimiser call, the initial and the
    resulting contact point (k-scaled units) and the number of points"""

    def __init__(self):
        self.calls = []

    def __enter__(self):
        import nanite.fit as nfit
        self.nfit = nfit
        self.orig_mod = nfit.lmfit
        rec = self
        orig_min = nfit.lmfit.minimize

        class Proxy:
            def __getattr__(self, name):
                return getattr(rec.orig_mod, name)

            def minimize(self, fcn, params, *a, **k):
                cp0 = params["contact_point"].value if "contact_point" in params else None
                snap = {p: (params[p].value, params[p].vary, params[p].min, params[p].max, params[p].expr)
                        for p in params}
                out = orig_min(fcn, params, *a, **k)
                args = k.get("args", ())
                rec.calls.append({"cp_init": cp0, "params_in": snap,
                                  "cp_out": out.params["contact_point"].value
                                  if "contact_point" in out.params else None,
                                  "n": len(args[0]) if args else None,
                                  "x": np.array(args[0], copy=True) if args else None,
                                  "weight_cp": args[2] if len(args) > 2 else None,
                                  "chisqr": out.chisqr})
                return out
        nfit.lmfit = Proxy()
        return self

    def __exit__(self, *a):
        self.nfit.lmfit = self.orig_mod
        return False


def fit(idnt, **kw):
    """fit_model with warnings silenced; returns (outcome string, recorder)"""
    with MinimizeRecorder() as rec, warnings.catch_warnings():
        warnings.simplefilter("ignore")
        try:
            idnt.fit_model(**kw)
            res = "ok"
        except BaseException as e:  # noqa
            res = "err " + type(e).__name__
    return res, rec


def start_params(model_key, truth, rng, rel=0.0):
    """initial guess inside the stated basin: contact point within `rel`*depth of the truth, E within
    a factor, baseline within a fraction of the maximal force"""
    p = copy.deepcopy(truth)
    for name in p:
        if name.startswith("E"):
            p[name].set(value=truth[name].value * (1 + rel * 5 * (2 * rng.random() - 1)))
    p["contact_point"].set(value=truth["contact_point"].value + rel * 1e-7 * (2 * rng.random() - 1))
    return p


def gen_fit_case(rng, i, allow_plateau=False):
    """a synthetic curve plus fit keyword arguments covering segments, range types, boundary-coincident /
    inverted / one-sided / narrow / zero-width intervals, weighting widths, correction factors,
    fixed-varied choices and model mismatch"""
    mk = rng.choice(MODELS[:4] if rng.random() < 0.9 else MODELS)
    truth = truth_params(mk, rng)
    far = rng.random() < 0.2
    if far:
        # contact point far from zero (no tip-offset correction applied)
        truth["contact_point"].set(value=rng.choice([2e-6, -1.5e-6, 8e-7]))
    cp = truth["contact_point"].value
    noise = rng.choice([0.0, 0.0, 1e-11, 5e-11])
    n_app = rng.choice([40, 120, 300])
    n_ret = rng.choice([30, 100, 200])
    dense = rng.random() < 0.15
    if dense:
        n_app, n_ret = 2400, 600
    idnt = synth_curve(mk, truth, rng, n_app=n_app, n_ret=n_ret, noise=noise, uniform=rng.random() < 0.7,
                       seed=i, tilt=rng.choice([0.0, 0.0, 2e-6]))
    fit_mk = mk
    if rng.random() < 0.25:
        fit_mk = rng.choice(MODELS[:4])          # model mismatch (contact point depends on the range)
    kw = {"model_key": fit_mk}
    seg = rng.choice([0, 1, "approach", "retract"])
    kw["segment"] = seg
    x = idnt["tip position"]
    xs = np.sort(x[idnt["segment"] == (0 if seg in (0, "approach") else 1)])
    r = rng.random()
    if allow_plateau and r < 0.12:
        kw["optimal_fit_edelta"] = True
        kw["optimal_fit_num_samples"] = rng.choice([7, 8, 12])   # (n <= 6: scipy filtfilt raises ValueError)
        kw["range_type"] = "absolute"
        kw["range_x"] = rng.choice([[0, 0], [-1e-6, 1e-6], [-np.inf, 5e-7], [5e-7, -5e-6], (1e-6, -1e-6)])
    elif r < 0.55:
        kw["range_type"] = "absolute"
        choice = rng.random()
        if choice < 0.15:
            kw["range_x"] = [0, 0]
        elif choice < 0.3:      # boundaries coincide with sample abscissae
            a, b_ = sorted(rng.sample(list(xs), 2))
            kw["range_x"] = [float(a), float(b_)]
        elif choice < 0.45:     # inverted
            kw["range_x"] = [cp + 6e-7, cp - 8e-7]
        elif choice < 0.6:      # one-sided
            kw["range_x"] = rng.choice([[-np.inf, cp + 4e-7], [cp - 9e-7, np.inf]])
        elif choice < 0.75:     # narrow (a few nm) but non-zero width
            w = rng.choice([4e-9, 6e-9, 8e-9, 3e-8])
            c0 = cp - rng.uniform(1e-7, 8e-7)
            kw["range_x"] = [c0, c0 + w]
        elif choice < 0.85:     # zero width away from zero
            kw["range_x"] = [cp - 3e-7, cp - 3e-7]
        else:
            kw["range_x"] = [cp - rng.uniform(3e-7, 1.1e-6), cp + rng.uniform(1e-7, 2e-6)]
        if rng.random() < 0.3:
            kw["range_x"] = tuple(kw["range_x"])
    else:
        kw["range_type"] = "relative cp"
        kw["range_x"] = rng.choice([[-8e-7, 5e-7], [-1.1e-6, 1e-6], [-3e-7, 2e-6], [5e-7, -6e-7],
                                    [-1e-8, 1e-8], [-4e-9, 0], [-2.5e-7, 1e-7]])
    kw["weight_cp"] = rng.choice([0, False, 1e-7, 5e-7, 2e-6])
    kw["gcf_k"] = rng.choice([1.0, 1.0, 0.5, 0.75, 2.0, 0.3183098861837907])
    if far and rng.random() < 0.7:
        kw["gcf_k"] = rng.choice([0.5, 2.0, 0.3183098861837907])
    p0 = start_params(fit_mk, truth_params(fit_mk, rng, cp=cp) if fit_mk != mk else truth, rng,
                      rel=rng.choice([0.0, 0.05, 0.2]))
    for name in p0:
        if name in ("R", "nu", "alpha", "nu_S", "nu_L"):
            p0[name].set(vary=False)
    tog = rng.random()
    if tog < 0.15:
        p0["baseline"].set(vary=False)
    elif tog < 0.3:
        p0["contact_point"].set(vary=False)
    elif tog < 0.4 and "E" in p0:
        p0["E"].set(min=0, max=10 ** 5.2)
    elif tog < 0.5 and "E" in p0:
        p0["baseline"].set(expr="E*1e-15")
    elif tog < 0.58 and "E" in p0:
        p0["E"].set(vary=False)
    elif tog < 0.7 or (far and tog < 0.9):
        # finite limits on the varied contact point (given in measured units)
        p0["contact_point"].set(min=cp - 1.5e-6, max=cp + 1.5e-6)
    kw["params_initial"] = p0
    if rng.random() < 0.12:
        kw["method"] = rng.choice(["nelder", "least_squares"])
    meta = {"data_model": mk, "fit_model": fit_mk, "noise": noise, "n": [n_app, n_ret],
            "segment": str(seg), "range_type": kw["range_type"], "range_x": [float(v) for v in kw["range_x"]],
            "weight_cp": float(kw["weight_cp"]), "gcf_k": kw["gcf_k"],
            "varied": [n for n in p0 if p0[n].vary and not p0[n].expr],
            "expr": [n for n in p0 if p0[n].expr], "method": kw.get("method", "leastsq"),
            "cp_true": cp, "cp_limits": [float(p0["contact_point"].min), float(p0["contact_point"].max)],
            "plateau": bool(kw.get("optimal_fit_edelta", False)), "seed_index": i}
    return idnt, kw, truth, meta
