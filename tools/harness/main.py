import argparse
import importlib
import os
import pathlib
import subprocess
import sys
import traceback

HERE = pathlib.Path(__file__).resolve().parent
sys.path.insert(0, str(HERE.parent))
sys.path.insert(0, str(HERE))
import core  # noqa: E402


def setup():
    """regenerate Nanite/Gen from /repo and build the whole Lean library"""
    from py2lean import gen
    info = gen.write_all()
    print("regenerated:", sorted(info["files"]))
    p = subprocess.run(["lake", "build"], cwd=core.LEAN)
    return p.returncode


def main():
    ap = argparse.ArgumentParser()
    ap.add_argument("pid", nargs="?")
    ap.add_argument("--tier", default=os.environ.get("VERIF_TIER", "quick"),
                    choices=["quick", "thorough"])
    ap.add_argument("--replay")
    ap.add_argument("--setup", action="store_true")
    a = ap.parse_args()
    os.chdir(core.VERIF)
    if a.setup:
        sys.exit(setup())
    seed = int(os.environ.get("VERIF_SEED", "0") or 0)
    mod = importlib.import_module("props." + a.pid.lower())
    ctx = core.Ctx(a.pid, a.tier, seed)
    if a.replay:
        sys.exit(mod.replay(ctx, a.replay))
    try:
        mod.run(ctx)
    except SystemExit:
        raise
    except Exception as e:
        # the harness itself failed on the current tree (e.g. nanite no longer imports):
        # that is a broken tie, not silence
        ctx.broken.append({"kind": "harness", "detail": traceback.format_exc()[-3000:]})
    sys.exit(ctx.finish())


if __name__ == "__main__":
    main()
