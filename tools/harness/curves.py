"""Synthetic in-memory curves shared by the harnesses."""
import numpy as np


def make_indentation(force, height, segment, time=None, spring=0.05, tip=None, path="synthetic.tab",
                     enum=0, extra_meta=None, tip_dtype=float):
    import nanite
    n = len(force)
    data = {"force": np.asarray(force, dtype=float),
            "height (measured)": np.asarray(height, dtype=float),
            "segment": np.asarray(segment, dtype=np.uint8),
            "time": np.asarray(time if time is not None else np.arange(n) * 1e-3, dtype=float)}
    if tip is not None:
        data["tip position"] = np.asarray(tip, dtype=tip_dtype)
    meta = {"spring constant": spring, "imaging mode": "force-distance", "path": path,
            "enum": enum, "format": "tab-separated values", "sensitivity": 5e-8,
            "software": "verif", "software version": "0"}
    if spring is None:
        meta.pop("spring constant")
    if extra_meta:
        meta.update(extra_meta)
    return nanite.Indentation(data=data, metadata=meta)


def hertz_force(tip, E=500.0, R=5e-6, nu=0.5, cp=0.0, b=0.0, p=1.5):
    d = np.clip(cp - tip, 0, None)
    return 4 / 3 * E / (1 - nu ** 2) * np.sqrt(R) * d ** p + b


def synth(n_app=400, n_ret=300, E=500.0, R=5e-6, cp=0.0, b=0.0, zmax=4e-6, zmin=-1.5e-6,
          noise=0.0, tilt=0.0, seed=0, spring=0.05, with_tip=False, **kw):
    """approach from +zmax (far) to zmin (indented), retract back; 'tip position' convention of
    nanite: decreasing during approach, contact at tip == cp"""
    rng = np.random.default_rng(seed)
    tip_a = np.linspace(zmax, zmin, n_app)
    tip_r = np.linspace(zmin, zmax, n_ret + 1)[1:]
    tip = np.concatenate([tip_a, tip_r])
    force = hertz_force(tip, E=E, R=R, cp=cp, b=b) + tilt * tip
    if noise:
        force = force + rng.normal(0, noise, force.size)
    height = tip - force / spring
    seg = np.concatenate([np.zeros(n_app), np.ones(n_ret)])
    return make_indentation(force, height, seg, spring=spring, tip=tip if with_tip else None, **kw)


def tiny_curve():
    return synth(n_app=120, n_ret=60, noise=2e-12, seed=1)
