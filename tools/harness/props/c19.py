"""C19 – CLI profile: set/get/new/get_fit_params histories against the Lean store model, legacy
files, scripted interactive setup, batch-fit acceptance and the statistics file."""
import builtins
import copy
import json
import random
import os
import pathlib
import shutil
import sys
import tempfile
import warnings

import numpy as np

from core import TRUST_COMMON

MODS = ["Nanite.Props.C19", "Nanite.Witness.C19", "Nanite.Audit.C19", "Nanite.Props.C19Legacy",
        "Nanite.Audit.C19Legacy"]


def to_jv(v):
    if isinstance(v, bool):
        return {"b": v}
    if isinstance(v, str):
        return {"s": v}
    if isinstance(v, (int, float)):
        return {"n": repr(v)}
    if isinstance(v, (list, tuple)):
        return {"l": [to_jv(x) for x in v]}
    if isinstance(v, dict):
        return {"d": [[k, to_jv(x)] for k, x in v.items()]}
    raise ValueError(v)


_SNAP = {}


def snapshot_defaults():
    """the models' default parameters as plain data, taken once before any profile operation: the expectation
    must not come from an object the library hands out during the run (it could be a shared, edited one)"""
    from nanite import model
    for mk, md in model.models_available.items():
        if mk not in _SNAP:
            d = md.module.get_parameter_defaults()
            _SNAP[mk] = [(n_, d[n_].value, bool(d[n_].vary), float(d[n_].min), float(d[n_].max)) for n_ in d]


def clean_defaults(mk):
    import lmfit
    if mk not in _SNAP:
        snapshot_defaults()
    p_ = lmfit.Parameters()
    for n_, v_, vy_, lo_, hi_ in _SNAP[mk]:
        p_.add(n_, value=v_, vary=vy_, min=lo_, max=hi_)
    return p_


def show(v):
    if isinstance(v, bool):
        return "b:" + str(v).lower()
    if isinstance(v, str):
        return "s:" + v
    if isinstance(v, (int, float)):
        return "n:" + repr(v)
    if isinstance(v, (list, tuple)):
        return "[" + ", ".join(show(x) for x in v) + "]"
    if isinstance(v, dict):
        return "{" + ", ".join(f"{k}={show(x)}" for k, x in sorted(v.items())) + "}"
    return "?" + repr(v)


DOMAIN = {
    "model_key": ["hertz_para", "hertz_cone", "sneddon_spher_approx", "hertz_pyr3s", ""],
    "preprocessing": [[], ["compute_tip_position"], ["compute_tip_position", "correct_force_offset",
                                                     "correct_tip_offset"],
                      ["compute_tip_position", "correct_tip_offset", "correct_force_slope"]],
    "preprocessing_options": [{}, {"correct_tip_offset": {"method": "fit_constant_line"}}],
    "range_type": ["absolute", "relative cp"],
    # (open-ended intervals are legitimate: the fitter supports an infinite bound)
    "range_x": [[0, 0], [0.0, 0.0], [-1e-6, 2e-6], [], [-2e-6, 0], [float("-inf"), 5e-7], [0, float("inf")]],
    "segment": [0, 1],
    "weight_cp": [0, 0.0, 5e-7, 1e-6, 2.5e-7],
    "rating regressor": ["Extra Trees", "Random Forest", "none"],
    "rating training set": ["zef18", ""],
}


def gen_history(rng, models):
    ops = []
    for _ in range(rng.randint(3, 14)):
        r = rng.random()
        if r < 0.12:
            ops.append(("new",))
        elif r < 0.45:
            k = rng.choice(list(DOMAIN) + ["unknown key", "fit param E value"])
            ops.append(("get", k))
        elif r < 0.8:
            if rng.random() < 0.7:
                k = rng.choice(list(DOMAIN))
                ops.append(("set", k, rng.choice(DOMAIN[k])))
            else:
                p = rng.choice(["E", "R", "nu", "contact_point", "baseline", "alpha"])
                kind = rng.choice(["value", "vary", "vary", "bad"])
                if kind == "value":
                    # (inside the bounds of every shipped model; lmfit clips anything else)
                    dom = {"nu": [0, 0.0, 0.3, 0.25], "alpha": [0, 5, 12.5, 20]}.get(
                        p, [0, 0.0, 50, 16e-6, 0.3, 1234.5])
                    ops.append(("set", f"fit param {p} value", rng.choice(dom)))
                elif kind == "vary":
                    ops.append(("set", f"fit param {p} vary", rng.choice([True, False])))
                else:
                    ops.append(("set", f"fit param {p}", 1))
        else:
            ops.append(("fitparams", rng.choice(models)))
    return ops


class SkipHistory(Exception):
    pass


def run_history(ops, path, ctx=None):
    """execute on the real Profile; returns list of canonical outputs and the final file"""
    from nanite.cli import profile
    from nanite import model
    outs = []
    pf = profile.Profile(path=path)
    outs.append("unit")
    lines = [{"op": "reset"}, {"op": "new"}]
    expect = ["ok", "unit"]
    for op in ops:
        if op[0] == "new":
            lines.append({"op": "new"})
        elif op[0] == "get":
            lines.append({"op": "get", "k": op[1]})
        elif op[0] == "set":
            lines.append({"op": "set", "k": op[1], "v": to_jv(op[2])})
        elif op[0] == "fitparams":
            md = clean_defaults(op[1])
            lines.append({"op": "set", "k": "model_key", "v": to_jv(op[1])})
            expect.append("unit")
            lines.append({"op": "fitparams",
                          "md": [[p, to_jv(md[p].value), bool(md[p].vary)] for p in md]})
        if op[0] == "setbad":
            # a write the profile cannot store (not serialisable): rejected - and nothing stored so far is lost (no
            # line for the Lean store model: its state is unchanged by a rejected write, which is what is checked
            # by the reads that follow and by the final file comparison)
            bad_v = {"ndarray": np.array([1e-6, 2e-6]), "set": {"compute_tip_position"}, "complex": 3 + 4j}[op[2]]
            try:
                pf[op[1]] = bad_v
                raise SkipHistory()
            except SkipHistory:
                raise
            except BaseException:  # noqa
                pass
            try:
                json.loads(pathlib.Path(path).read_text())
            except BaseException as e:  # noqa
                if ctx is not None:
                    ctx.violation("rejected-write-corrupts-profile",
                                  f"after the rejected write profile[{op[1]!r}] = <{op[2]}> the profile file is no longer "
                                  f"readable ({type(e).__name__}): every value stored before is lost",
                                  {"history": [list(map(str, o)) for o in ops]})
                raise SkipHistory()
            continue
        try:
            if op[0] == "new":
                pf = profile.Profile(path=path)
                got = "unit"
            elif op[0] == "get":
                got = "val " + show(pf[op[1]])
            elif op[0] == "set":
                pf[op[1]] = op[2]
                got = "unit"
            elif op[0] == "fitparams":
                pf["model_key"] = op[1]
                before = json.loads(pathlib.Path(path).read_text())
                params = pf.get_fit_params()
                md0 = clean_defaults(op[1])
                for p_ in md0:
                    ev = before.get(f"fit param {p_} value", md0[p_].value)
                    md0[p_].value = ev   # (through lmfit, so that bounds apply as in the code)
                    ev = md0[p_].value
                    evy = before.get(f"fit param {p_} vary", md0[p_].vary)
                    if ctx is not None and (params[p_].value != ev or bool(params[p_].vary) != bool(evy)):
                        ctx.violation(f"fit-params:{p_}",
                                      f"get_fit_params: {p_} is ({params[p_].value!r}, vary={params[p_].vary}) "
                                      f"but the stored entries/defaults give ({ev!r}, vary={evy})",
                                      {"history": [list(map(str, o)) for o in ops],
                                       "expected": [repr(ev), evy],
                                       "observed": [repr(params[p_].value), params[p_].vary]})
                got = "params " + ", ".join(f"{p}={show(params[p].value)}/{str(bool(params[p].vary)).lower()}"
                                            for p in params)
        except KeyError:
            got = "err KeyError"
        except ValueError:
            got = "err ValueError"
        except BaseException as e:  # noqa
            got = "err other:" + type(e).__name__
        expect.append(got)
    lines.append({"op": "file"})
    expect.append(show(json.loads(pathlib.Path(path).read_text())))
    return lines, expect


def fresh_read_oracle(ctx, ops, path):
    """values written are returned unchanged by later reads from any new profile object"""
    from nanite.cli import profile
    last = {}
    for op in ops:
        if op[0] == "set" and not (op[1].startswith("fit param") and not op[1].endswith(("value", "vary"))):
            last[op[1]] = op[2]
        if op[0] == "fitparams":
            last["model_key"] = op[1]
    pf2 = profile.Profile(path=path)
    for k, v in last.items():
        if k.startswith("fit param"):
            got = pf2.load().get(k)
        else:
            got = pf2[k]
        if k.startswith("fit param") and any(o[0] == "fitparams" for o in ops):
            continue   # get_fit_params legitimately rewrites all fit parameter entries
        if got != v or type(got) is not type(v) and not (isinstance(v, (int, float)) and got == v):
            ctx.violation(f"set-get:{k}={v!r}",
                          f"profile[{k!r}] was set to {v!r} but a new Profile object reads {got!r}",
                          {"history": [list(map(str, o)) for o in ops], "expected": repr(v),
                           "observed": repr(got)})


def two_objects_oracle(ctx, tdir, n):
    """several live Profile objects on one file (the CLI entry points each create their own): every value
    written through any of them is what a later read - through any of them or a new one - returns"""
    from nanite.cli import profile
    rng = random.Random(ctx.seed * 7919 + 5)
    choices = {"segment": [0, 1], "weight_cp": [0, 2e-7, 5e-7, 1e-6], "range_type": ["absolute", "relative cp"],
               "range_x": [[0, 0], [-1e-6, 2e-7], [-2e-6, 0]], "fit param E value": [50.0, 1234.5, 8e3],
               "fit param E vary": [True, False], "model_key": ["hertz_para", "hertz_cone", "sneddon_spher_approx"]}
    for i in range(n):
        path = tdir / f"two{i}.cfg"
        objs = [profile.Profile(path=path), profile.Profile(path=path)]
        if rng.random() < 0.5:
            objs.append(profile.Profile(path=path, create=False))
        last, hist = {}, []
        for _ in range(rng.randint(3, 7)):
            j = rng.randrange(len(objs))
            k = rng.choice(sorted(choices))
            v = copy.deepcopy(rng.choice(choices[k]))
            objs[j][k] = v
            last[k] = v
            hist.append([f"p{j}", k, repr(v)])
        readers = [("new object", profile.Profile(path=path, create=False))] + \
            [(f"p{j}", o) for j, o in enumerate(objs)]
        bad = []
        for who, o in readers:
            data = o.load()
            for k, v in last.items():
                if data.get(k, "<missing>") != v:
                    bad.append((who, k, v, data.get(k, "<missing>")))
        ctx.case({"two-objects": hist}, nontrivial="two:" + json.dumps(hist), bucket=["stream=two-objects",
                                                                                     f"objects={len(objs)}"])
        if bad:
            who, k, v, got = bad[0]
            ctx.violation(f"write-lost-between-objects:{k}", f"{k!r} was set to {v!r} through one Profile object, but "
                          f"{who} reads {got!r} after writes through another object on the same file "
                          f"({len(bad)} such reads)", {"history": hist, "expected": repr(v), "observed": repr(got)})
        path.unlink()


def _isfloat(t):
    try:
        float(t)
        return True
    except ValueError:
        return False


LEG_TEXT = {"model_key": ["hertz_para", "hertz_cone", "sneddon_spher_approx", "my=model"],
            "range_type": ["absolute", "relative cp"],
            "rating regressor": ["Extra Trees", "Random Forest", "none", "SVR (RBF kernel)"],
            "rating training set": ["zef18", "/data/cantilever_k=0.05/ts_user", "C:\\ts\\a=b=c", "ts = 1", "=x"]}


def legacy_oracle(ctx, tdir, n, driver_jobs):
    """legacy key=value profiles load to the same values as their JSON form; every file is also parsed by the
    Lean model of load_legacy (driver_jobs collects (line for the driver, what the real code returned))"""
    from nanite.cli import profile
    rng = ctx.rng
    ws = ["", " ", "  ", "\t", " \t "]
    for i in range(n):
        vals = {}
        for k in rng.sample(["model_key", "preprocessing", "range_type", "range_x", "segment", "weight_cp",
                             "rating regressor", "rating training set"], rng.randint(1, 8)):
            if k in LEG_TEXT and rng.random() < 0.6:
                v = rng.choice(LEG_TEXT[k])
            else:
                v = rng.choice([x for x in DOMAIN[k] if x != [] and x != ""])
            vals[k] = v
        fps = {}
        for p_ in rng.sample(["E", "R", "nu", "contact_point"], rng.randint(0, 3)):
            if rng.random() < 0.7:
                fps[f"fit param {p_} value"] = rng.choice([50.0, 16e-6, 0.3, 1234.5])
            if rng.random() < 0.6:
                fps[f"fit param {p_} vary"] = rng.choice([True, False])

        def text(k, v):
            if isinstance(v, list):
                return ",".join(str(x) for x in v)
            if k == "segment" and rng.random() < 0.5:
                return {0: "approach", 1: "retract"}[v]
            if isinstance(v, bool) and rng.random() < 0.3:
                return str(v).upper() if rng.random() < 0.5 else str(v).lower()
            return str(v)

        lines = []
        items = list({**vals, **fps}.items())
        # an overridden earlier line for some keys (the later line wins)
        for k, v in items:
            if rng.random() < 0.15:
                other = rng.choice(LEG_TEXT[k]) if k in LEG_TEXT else v
                lines.append(f"{k} = {text(k, other)}")
        rng.shuffle(items)
        for k, v in items:
            t = text(k, v)
            if rng.random() < 0.5:
                lines.append(f"{k} = {t}")
            else:
                lines.append(rng.choice(ws) + k + rng.choice(ws) + "=" + rng.choice(ws) + t + rng.choice(ws))
        malformed = rng.random() < 0.06
        if malformed:
            lines.insert(rng.randrange(len(lines) + 1), rng.choice(["model_key hertz_para", "# comment", "range_x"]))
        pl = tdir / f"legacy_{i}.cfg"
        pl.write_text("\n".join(lines) + "\n")
        pj = tdir / f"json_{i}.cfg"
        pj.write_text(json.dumps({**vals, **fps}))
        da = None
        try:
            a = profile.Profile(path=pl, create=False)
            b_ = profile.Profile(path=pj, create=False)
            da, db = a.load(), b_.load()
            # (the segment is an integer setting: the fitter refuses anything else)
            ok = (da == db) and all(type(da[k_]) is type(db[k_]) for k_ in ("segment",) if k_ in da and k_ in db)
            obs = {k: (repr(da.get(k)), repr(db.get(k))) for k in set(da) | set(db)
                   if da.get(k) != db.get(k) or (k == "segment" and type(da.get(k)) is not type(db.get(k)))}
        except BaseException as e:  # noqa
            ok, obs = False, repr(e)
            if malformed and isinstance(e, ValueError):
                ok = True     # a line without "=" is rejected, as the model says (compared below)
        ctx.case({"legacy": lines}, nontrivial="leg:" + "|".join(sorted(lines)),
                 bucket=["stream=legacy", "fitparams=" + str(bool(fps)), "malformed=" + str(malformed),
                         "value-with-equals=" + str(any("=" in str(v) for v in vals.values()))])
        if not ok:
            ctx.violation("legacy-differs:" + ",".join(sorted(k.split()[0] for k in obs)
                                                       if isinstance(obs, dict) else ["exc"]),
                          f"legacy profile loads differently from its JSON form: {obs}",
                          {"input": lines, "observed": str(obs)})
        toks = set()
        for ln in lines:
            if "=" in ln:
                for t in ln.split("=", 1)[1].split(","):
                    if _isfloat(t.strip()):
                        toks.add(t.strip())
        driver_jobs.append(({"op": "legacy", "lines": lines, "floats": sorted(toks)},
                            da if da is not None else obs, lines))


def parse_model_legacy(out):
    """'{k => v; ...}' of the driver -> dict of python values (numbers as float)"""
    def val(t):
        if t.startswith("s:"):
            return t[2:]
        if t.startswith("n:"):
            return float(t[2:])
        if t.startswith("b:"):
            return t[2:] == "true"
        if t.startswith("["):
            inner = t[1:-1]
            return [val(x) for x in inner.split(", ")] if inner else []
        return t
    d = {}
    body = out[1:-1]
    for item in (body.split("; ") if body else []):
        k, v = item.split(" => ", 1)
        d[k] = val(v)
    return d


def legacy_correspondence(ctx, outs, driver_jobs):
    for out, (job, real, lines) in zip(outs, driver_jobs):
        if out.startswith("err"):
            if not (isinstance(real, str) and "ValueError" in real):
                ctx.disagree({"stream": "legacy", "what": "" + out, "input": lines}, repr(real), out)
            continue
        if "err " in out:
            # a key the model rejects (unknown key / one-element numeric list): the real loader must raise
            if not isinstance(real, str):
                ctx.disagree({"stream": "legacy", "what": "model-rejects-key", "input": lines}, repr(real), out)
            continue
        if isinstance(real, str):
            if "could not convert" in real or "invalid literal" in real:
                continue            # float()/int() of a text value: conversions are outside the model
            ctx.disagree({"stream": "legacy", "what": "implementation-raises", "input": lines}, repr(real), out)
            continue
        try:
            m = parse_model_legacy(out)
        except Exception:
            ctx.disagree({"stream": "legacy", "what": "unparsable-model-output", "input": lines}, repr(real), out)
            continue
        norm = {k: ([float(x) if isinstance(x, (int, float)) and not isinstance(x, bool) else x for x in v]
                    if isinstance(v, list) else
                    (float(v) if isinstance(v, (int, float)) and not isinstance(v, bool) else v))
                for k, v in real.items()}
        # (a Profile object fills in the default of every key its file does not hold)
        from nanite.cli import profile as _pf
        extra_ok = all(k in _pf.DEFAULTS and real[k] == _pf.DEFAULTS[k] for k in norm if k not in m)
        if {k: v for k, v in norm.items() if k in m} != m or not extra_ok:
            ctx.disagree({"stream": "legacy", "what": "values-differ", "input": lines}, repr(norm), repr(m))


class Script:
    def __init__(self, answers):
        self.answers = list(answers)
        self.prompts = []

    def __call__(self, prompt=""):
        self.prompts.append(prompt)
        if not self.answers:
            return ""
        return self.answers.pop(0)


def setup_oracle(ctx, n, tdir, model_lines, model_expect):
    """scripted setup_profile(): every accepted answer is the value stored; the produced profile is
    accepted by the batch fit"""
    from nanite.cli import profile, rating
    from nanite import model, preproc, rate
    from curves import synth
    rng = ctx.rng
    steps = [pp.identifier for pp in preproc.PREPROCESSORS]
    models = sorted(model.models_available.keys())
    regs = rate.reg_names
    old_input, old_argv = builtins.input, sys.argv
    sys.argv = ["nanite-setup-profile"]
    try:
        for i in range(n):
            # a fresh profile, or (40 %) a second / third setup run on the profile of the previous iteration
            prev = {}
            if profile.PROFILE_PATH.exists():
                if i in (2, 4) or (i and i not in (1, 3) and rng.random() < 0.4):
                    prev = json.loads(profile.PROFILE_PATH.read_text())
                else:
                    profile.PROFILE_PATH.unlink()
            exp = {}
            ans = []
            # preprocessing
            if rng.random() < 0.5:
                sel = rng.choice([[1, 2, 4], [1, 4], [1], [1, 2, 4, 3]])
                ans.append(",".join(map(str, sel)))
                exp["preprocessing"] = [steps[j - 1] for j in sel]
            else:
                ans.append("")
            # model
            mk = prev.get("model_key", profile.DEFAULTS["model_key"])
            if rng.random() < 0.5:
                j = rng.randint(1, len(models))
                if models[j - 1] in ("hertz_para", "hertz_cone", "hertz_pyr3s", "sneddon_spher_approx"):
                    ans.append(str(j))
                    mk = models[j - 1]
                    exp["model_key"] = mk
                else:
                    ans.append("")
            else:
                ans.append("")
            md = clean_defaults(mk)
            for p in md:
                if rng.random() < 0.3:
                    # (inside the parameter bounds; lmfit clips anything else)
                    v = {"E": rng.choice([1000.0, 250.0]), "R": rng.choice([2e-6, 5e-6]), "nu": 0.4,
                         "alpha": rng.choice([20.0, 28.5]), "contact_point": rng.choice([0.0, 1e-7]),
                         "baseline": rng.choice([0.0, 1e-11])}[p]
                    ans.append(repr(v))
                    exp[f"fit param {p} value"] = v
                else:
                    ans.append("")
                    exp[f"fit param {p} value"] = prev.get(f"fit param {p} value", md[p].value)
                r = rng.random()
                if r < 0.15:
                    ans.append("maybe")      # invalid -> re-prompt
                    ans.append("false")
                    exp[f"fit param {p} vary"] = False
                elif r < 0.4:
                    b_ = rng.choice([True, False])
                    ans.append(str(b_))
                    exp[f"fit param {p} vary"] = b_
                else:
                    ans.append("")
                    exp[f"fit param {p} vary"] = prev.get(f"fit param {p} vary", md[p].vary)
            # range type
            r = rng.random()
            if r < 0.35:
                ans.append("relative")
                rt_answer = "relative"
            elif r < 0.55:
                ans += ["nonsense", "absolute"]
                rt_answer = "absolute"
            else:
                ans.append("")
                rt_answer = None
            # interval
            left = rng.choice([None, -2.0, -0.5, 0.0])
            right = rng.choice([None, 1.0, 0.25, 0.0])
            if i == 1:
                left, right = -2.0, 1.0          # directed pair: a non-zero interval ...
            elif i == 2:
                left, right = 0.0, 0.0           # ... then the answer 0 on the existing profile
            elif i == 3:
                left, right = -1.2345678, 0.43217     # bounds that are not on a nanometre grid ...
            elif i == 4:
                left, right = None, None              # ... must survive a run in which both prompts are skipped
            elif rng.random() < 0.2:
                left = rng.choice([-1.2345678, -0.7000004])
            ans.append("" if left is None else repr(left))
            ans.append("" if right is None else repr(right))
            cur = list(np.array(prev.get("range_x", profile.DEFAULTS["range_x"])) * 1e6)
            # weight
            w = rng.choice([None, 0.0, 2.0, 0.75])
            ans.append("" if w is None else repr(w))
            if w is not None:
                exp["weight_cp"] = float(w) * 1e-6
            # training set
            r = rng.random()
            if r < 0.2:
                ans += ["does_not_exist_ts", "zef18"]
                exp["rating training set"] = "zef18"
            elif r < 0.4 or i == 3:
                # a folder that looks like a training set but lacks the feature files: not usable, asked again
                inc = tdir / "incomplete_ts"
                inc.mkdir(exist_ok=True)
                (inc / "train_response.txt").write_text("1.0\n5.0\n9.0\n")
                ans += [str(inc), "zef18"]
                exp["rating training set"] = "zef18"
            else:
                ans.append("")
            # regressor
            if rng.random() < 0.4:
                j = rng.randint(1, len(regs))
                ans.append(str(j))
                exp["rating regressor"] = regs[j - 1]
            else:
                ans.append("")
            script = Script(ans)
            builtins.input = script
            err = None
            try:
                import io
                import contextlib
                with contextlib.redirect_stdout(io.StringIO()), warnings.catch_warnings():
                    warnings.simplefilter("ignore")
                    profile.setup_profile()
            except BaseException as e:  # noqa
                err = repr(e)
            finally:
                builtins.input = old_input
            desc = {"answers": ans}
            desc["existing_profile"] = prev or None
            ctx.case({"setup": ans, "on_existing_profile": bool(prev)}, nontrivial="setup:" + "|".join(ans) + str(bool(prev)),
                     bucket=["stream=setup", f"rt={rt_answer}", f"left={left is not None}",
                             f"right={right is not None}", f"existing-profile={bool(prev)}"])
            if err is not None:
                ctx.violation("setup-raises:" + err.split("(")[0], f"setup_profile raised {err}",
                              {"input": desc, "observed": err})
                continue
            stored = json.loads(profile.PROFILE_PATH.read_text())
            # model side: the two transformed answers
            if rt_answer is not None:
                model_lines.append({"op": "range_type", "a": rt_answer})
                model_expect.append(stored.get("range_type"))
            # (micrometres rounded to 1e-9 on both sides: the conversion m -> um -> m is not exact in binary64)
            model_lines.append({"op": "interval", "cur0": to_jv(float(round(cur[0], 9))),
                                "cur1": to_jv(float(round(cur[1], 9))),
                                "left": None if left is None else to_jv(float(left)),
                                "right": None if right is None else to_jv(float(right))})
            sx = list(np.array(stored["range_x"]) * 1e6)
            model_expect.append(f"n:{float(round(sx[0], 9))!r} n:{float(round(sx[1], 9))!r}")
            # oracle: accepted answers are stored
            for k, v in exp.items():
                got = stored.get(k)
                same = (got == v) or (isinstance(v, float) and got is not None and abs(got - v) <= 1e-12 * abs(v))
                if not same:
                    ctx.violation(f"setup-not-stored:{k.split(' value')[0].split(' vary')[0]}",
                                  f"answer for {k} ({v!r}) is not the stored value ({got!r})",
                                  {"input": desc, "expected": repr(v), "observed": repr(got)})
            for name, a, idx in (("left", left, 0), ("right", right, 1)):
                if a is None and abs(stored["range_x"][idx] - cur[idx] * 1e-6) > 1e-15:
                    ctx.violation(f"setup-skipped-prompt-changed:range_x-{name}",
                                  f"{name} interval prompt was skipped but {stored['range_x']} is stored (before: "
                                  f"{[c * 1e-6 for c in cur]})", {"input": desc, "observed": stored["range_x"]})
                if a is not None and abs(stored["range_x"][idx] - a * 1e-6) > 1e-15:
                    ctx.violation(f"setup-not-stored:range_x-{name}",
                                  f"{name} interval bound {a} µm was entered but {stored['range_x']} is stored",
                                  {"input": desc, "observed": stored["range_x"]})
            # oracle: profile accepted by the batch fit
            idnt = synth(n_app=150, n_ret=60, noise=1e-11, seed=i)
            try:
                rating.fit_data.cache_clear()
                with warnings.catch_warnings():
                    warnings.simplefilter("ignore")
                    fitted = rating.fit_data(idnt, profile_path=profile.PROFILE_PATH)
                ok = True
                # ... and the batch fit used exactly what the profile holds NOW: model, interval, weighting and the
                # initial parameters (value, vary and the model's limits)
                fpf = fitted.fit_properties
                pin = fpf.get("params_initial")
                ref_p = clean_defaults(stored.get("model_key", profile.DEFAULTS["model_key"]))
                wrong = []
                if fpf.get("model_key") != stored.get("model_key", profile.DEFAULTS["model_key"]):
                    wrong.append(f"model_key {fpf.get('model_key')!r}")
                if [float(v) for v in fpf.get("range_x", [])] != [float(v) for v in stored["range_x"]]:
                    wrong.append(f"range_x {fpf.get('range_x')!r} (profile: {stored['range_x']!r})")
                if pin is not None:
                    for pname in ref_p:
                        sv = stored.get(f"fit param {pname} value", ref_p[pname].value)
                        sy = stored.get(f"fit param {pname} vary", ref_p[pname].vary)
                        if pname not in pin:
                            wrong.append(f"parameter {pname} missing")
                            continue
                        if abs(pin[pname].value - sv) > 1e-12 * max(abs(sv), 1e-300) or bool(pin[pname].vary) != bool(sy):
                            wrong.append(f"{pname}: value {pin[pname].value!r} vary {pin[pname].vary} (profile: "
                                         f"{sv!r}, {sy})")
                        if (pin[pname].min, pin[pname].max) != (ref_p[pname].min, ref_p[pname].max):
                            wrong.append(f"{pname}: limits [{pin[pname].min}, {pin[pname].max}] (model: "
                                         f"[{ref_p[pname].min}, {ref_p[pname].max}])")
                if wrong:
                    ctx.violation("batch-fit-ignores-profile", "the batch fit did not use the settings the profile "
                                  "holds: " + "; ".join(wrong[:4]), {"input": desc, "observed": wrong[:6]})
            except BaseException as e:  # noqa
                ok, err = False, repr(e)
            if not ok:
                ctx.violation("setup-profile-not-fittable:" + str(stored.get("range_type")),
                              f"profile produced by setup is rejected by the batch fit: {err}",
                              {"input": desc, "observed": err})
    finally:
        builtins.input = old_input
        sys.argv = old_argv


def stats_oracle(ctx, tdir):
    """statistics.tsv: one row per curve with path, enum, E and rating rounded to one decimal"""
    from nanite.cli import profile, rating
    import nanite
    from curves import synth
    folder = tdir / "data"
    folder.mkdir()
    for i in range(2):
        idnt = synth(n_app=650, n_ret=100, noise=2e-11, seed=10 + i, E=300 * (i + 1), path=f"curve{i}.tab")
        idnt.export_data(folder / f"curve{i}.tab", fmt="tab")
    out = tdir / "out"
    out.mkdir()
    pp = tdir / "stat_profile.cfg"
    pf = profile.Profile(path=pp)
    pf["model_key"] = "hertz_para"
    # the same profile in the legacy key = value format (pre-JSON versions wrote these)
    pl = tdir / "stat_profile_legacy.cfg"
    pl.write_text("model_key = hertz_para\nsegment = approach\nrange_type = absolute\nrange_x = 0,0\n"
                  "weight_cp = 5e-07\n")
    import io
    import contextlib

    def one_run(label, prof):
        with warnings.catch_warnings():
            warnings.simplefilter("ignore")
            with contextlib.redirect_stdout(io.StringIO()):
                try:
                    rating.fit_perform(folder, out, profile_path=prof)
                except BaseException as e:  # noqa
                    ctx.violation("batch-fit-raises:" + label.split()[0], f"fit_perform with {label} raises {e!r}",
                                  {"history": hist + [label], "observed": repr(e)})
                    return
        rows = (out / "statistics.tsv").read_text().splitlines()
        ok = rows[0].split("\t") == ["path", "enum", "E", "rating"] and len(rows) == 3 and \
            sorted(pathlib.Path(r.split("\t")[0]).name for r in rows[1:]) == ["curve0.tab", "curve1.tab"]
        detail = rows[:6]
        if ok:
            pfr = profile.Profile(path=prof, create=False)
            for i, row in enumerate(rows[1:]):
                path, enum, E, rt = row.split("\t")
                grp = nanite.IndentationGroup(path)
                rating.fit_data.cache_clear()
                ref = rating.fit_data(grp[0], profile_path=prof)
                e_ref = ref.fit_properties["params_fitted"]["E"].value
                r_ref = round(ref.rate_quality(training_set=pfr["rating training set"],
                                               regressor=pfr["rating regressor"]), 1)
                if pathlib.Path(path).parent != folder or int(enum) != ref.enum \
                        or abs(float(E) - e_ref) > 1e-9 * abs(e_ref) or float(rt) != float(r_ref):
                    ok = False
                    detail = [row, str(e_ref), str(r_ref)]
        ctx.case({"oracle": "statistics.tsv", "run": label, "rows": rows[:4]}, nontrivial="stats:" + label,
                 bucket="oracle=statistics")
        if not ok:
            ctx.violation("statistics-file:" + label.split()[0], f"statistics.tsv does not hold one correct row per "
                          f"curve after {label} ({len(rows)} lines)", {"history": hist + [label], "observed": detail})
    hist = []
    one_run("first run", pp)
    hist.append("fit_perform(folder, out, profile)")
    # the user edits the profile and runs the batch fit again into the same results directory
    pf["fit param R value"] = 7e-6
    pf["rating regressor"] = "Decision Tree"
    hist.append("profile['fit param R value'] = 7e-6; profile['rating regressor'] = 'Decision Tree'")
    one_run("second run into the same directory", pp)
    hist.append("fit_perform(folder, out, profile)")
    one_run("legacy-format profile (key = value lines)", pl)


def run(ctx):
    ctx.trusted = TRUST_COMMON + [
        "hand-written model lean/Nanite/Model/Profile.lean of Profile.__getitem__/__setitem__/__init__/"
        "get_fit_params and of the two transformed setup answers (tied by history correspondence on real "
        "profile files)",
        "hand-written model lean/Nanite/Model/Legacy.lean of Profile.load_legacy (line splitting at the first '=', "
        "stripping, segment names, later-line-wins, typing by the kind of the default; float()/int() are not "
        "modelled: numeric text stays a token and is compared as a number) - tied by parsing every generated "
        "legacy file with both",
        "tools/py2lean dump of cli.profile.DEFAULTS",
        "JSON/float text round-trip, input(), plotting/TIFF writing and the batch fit are runtime "
        "(explored by the oracle streams, not proved)"]
    ctx.rule = ("random histories of new-object/get/set/get_fit_params on a real profile file vs the Lean "
                "store model (values incl. falsy ones, vary-only entries, invalid fit-param keys, unknown "
                "keys); legacy key=value files (values containing '=', padding, overridden lines, lines without '=') vs "
                "their JSON form and vs the Lean model of load_legacy; scripted setup_profile runs (every prompt "
                "answered or skipped, invalid answers to exercise re-prompts) checked against the stored "
                "JSON and handed to the batch fit; statistics.tsv of a two-curve folder; non-trivial = "
                "distinct history/script")
    snapshot_defaults()
    tdir = pathlib.Path(tempfile.mkdtemp(prefix="verif_c19_"))
    os.environ["XDG_CONFIG_HOME"] = str(tdir / "xdg")
    ok_gen = ctx.gen(["profile"])
    ctx.build(MODS, clean=(ctx.tier == "thorough"))
    ctx.grep_audit()
    if ctx.tier == "thorough":
        ctx.leanchecker(["Nanite.Props.C19", "Nanite.Witness.C19", "Nanite.Props.C19Legacy"])
    try:
        from nanite.cli import profile
        assert str(profile.PROFILE_PATH).startswith(str(tdir)), "profile path not redirected"
        models = ["hertz_para", "hertz_cone", "sneddon_spher_approx", "hertz_pyr3s"]
        nh = 150 if ctx.tier == "quick" else 3000
        two_objects_oracle(ctx, tdir, 25 if ctx.tier == "quick" else 400)
        all_lines, all_expect, where = [], [], []
        for i in range(nh):
            ops = gen_history(ctx.rng, models)
            # rejected writes in between (own random stream, so that the main stream of histories is not shifted)
            g_ = random.Random(ctx.seed * 1009 + i)
            if g_.random() < 0.25:
                ops.insert(g_.randint(1, len(ops)), ("setbad", g_.choice(["range_x", "preprocessing", "fit param E value",
                                                                          "weight_cp"]),
                                                     g_.choice(["ndarray", "set", "complex"])))
            path = tdir / f"p{i}.cfg"
            try:
                lines, expect = run_history(ops, path, ctx)
            except SkipHistory:
                ctx.dist["history=abandoned-after-unmodelled-write"] = \
                    ctx.dist.get("history=abandoned-after-unmodelled-write", 0) + 1
                if path.exists():
                    path.unlink()
                continue
            fresh_read_oracle(ctx, ops, path)
            all_lines += lines
            all_expect += expect
            where += [(i, ops)] * len(lines)
            ctx.case({"history": [list(map(str, o)) for o in ops]},
                     nontrivial="h:" + json.dumps([list(map(str, o)) for o in ops]),
                     bucket=["stream=histories"] + [f"op={o[0]}" for o in ops])
            path.unlink()
        legacy_jobs = []
        legacy_oracle(ctx, tdir, 80 if ctx.tier == "quick" else 1500, legacy_jobs)
        lout = ctx.driver("C19", [j[0] for j in legacy_jobs]) if ok_gen else None
        if lout is not None:
            legacy_correspondence(ctx, lout, legacy_jobs)
        setup_oracle(ctx, 40 if ctx.tier == "quick" else 400, tdir, all_lines, all_expect)
        where += [("setup", None)] * (len(all_lines) - len(where))
        out = ctx.driver("C19", all_lines) if ok_gen else None
        if out is not None:
            for (i, ops), ln, a, b_ in zip(where, all_lines, all_expect, out):
                if a != b_:
                    ctx.disagree({"history": [list(map(str, o)) for o in ops] if ops else "setup",
                                  "line": ln}, a, b_)
        stats_oracle(ctx, tdir)
    finally:
        shutil.rmtree(tdir, ignore_errors=True)


def replay(ctx, path):
    run(ctx)
    return ctx.finish()
