"""C10 – arguments are taken by value (history engine of C03 with the weight on in-place edits of
previously passed / returned objects, the argument-mutation monitor, plus direct API probes)."""
import copy
import warnings

import numpy as np

from core import TRUST_COMMON
import histlib
from histlib import deep_state
from props import c03


import nanite.fit as _nfit0
DEFAULTS_AT_IMPORT = copy.deepcopy(dict(_nfit0.FP_DEFAULT))


def api_probes(ctx):
    """APIs outside the history alphabet: get_initial_fit_parameters (returned object edited in place),
    compute_poc, model / residual functions, the rater"""
    from nanite import model, poc
    from nanite.rate import IndentationRater
    for cid in range(3):
        w = histlib.World(cid, ctx.rng)
        idnt = w.idnt
        with warnings.catch_warnings():
            warnings.simplefilter("ignore")
            idnt.apply_preprocessing(["compute_tip_position", "correct_tip_offset"])
            p = idnt.get_initial_fit_parameters(model_key="hertz_para")
            idnt.fit_model(params_initial=p, weight_cp=0)
            e1 = idnt.fit_properties["params_fitted"]["E"].value
            # the returned object is edited in place and passed again: must behave like a fresh object
            q = idnt.get_initial_fit_parameters()
            q["R"].value = q["R"].value * 4
            idnt.fit_model(params_initial=q)
            e2 = idnt.fit_properties["params_fitted"]["E"].value
            ref = histlib.fresh(cid)
            ref.apply_preprocessing(["compute_tip_position", "correct_tip_offset"])
            ref.fit_model(params_initial=copy.deepcopy(q), weight_cp=0)
            e3 = ref.fit_properties["params_fitted"]["E"].value
        ctx.case({"probe": "returned-params-edited", "curve": cid}, nontrivial=f"probe:ret:{cid}",
                 bucket="stream=api-probes")
        if e2 != e3 or e1 == e2:
            ctx.violation("returned-object-edit-unnoticed", "editing the object returned by "
                          "get_initial_fit_parameters in place and passing it again is not noticed "
                          f"(E {e1!r} -> {e2!r}, fresh object gives {e3!r})", {"input": {"curve": cid}})
        stored = idnt.fit_properties["params_initial"]
        q["E"].value = 1.0
        if stored["E"].value == 1.0:
            ctx.violation("stored-aliases-argument", "fit_properties['params_initial'] aliases the caller's object",
                          {"input": {"curve": cid}})
        # nested containers inside an argument are taken by value too: minimiser keywords with an inner dict
        with warnings.catch_warnings():
            warnings.simplefilter("ignore")
            P0 = ["compute_tip_position", "correct_tip_offset"]
            nest = {"options": {"maxiter": 4}}
            nidn = histlib.fresh(cid)
            nidn.fit_model(preprocessing=list(P0), method="nelder", method_kws=nest)
            n1 = nidn.fit_properties["params_fitted"]["E"].value
            nest["options"]["maxiter"] = 400
            stored_inner = copy.deepcopy(nidn.fit_properties["method_kws"]).get("options", {}).get("maxiter")
            nidn.fit_model(preprocessing=list(P0), method="nelder", method_kws=nest)
            n2 = nidn.fit_properties["params_fitted"]["E"].value
            nref = histlib.fresh(cid)
            nref.fit_model(preprocessing=list(P0), method="nelder", method_kws={"options": {"maxiter": 400}})
            n3 = nref.fit_properties["params_fitted"]["E"].value
        ctx.case({"probe": "nested-argument-edited", "curve": cid}, nontrivial=f"probe:nested:{cid}",
                 bucket="stream=api-probes")
        if stored_inner != 4 or n2 != n3:
            ctx.violation("stored-aliases-nested-argument", "the inner dict of method_kws stays shared with the caller: "
                          f"after the caller set options['maxiter'] = 400 the stored setting reads {stored_inner!r} "
                          f"(expected 4) and passing the edited object again gives E={n2!r} (first fit {n1!r}, fresh "
                          f"object with maxiter=400: {n3!r})",
                          {"input": {"curve": cid},
                           "history": ["a.fit_model(method='nelder', method_kws=kws)  # kws={'options':{'maxiter':4}}",
                                       "kws['options']['maxiter'] = 400", "a.fit_model(method='nelder', method_kws=kws)"],
                           "observed": [repr(stored_inner), repr(n2)], "expected": ["4", repr(n3)]})
        # every mutable object the library hands back in fit_properties is edited in place: neither the
        # module-level defaults nor another curve may notice
        import nanite.fit as nfit
        snap = deep_state({k: v for k, v in nfit.FP_DEFAULT.items()})
        with warnings.catch_warnings():
            warnings.simplefilter("ignore")
            victim = histlib.fresh(cid)
            victim.fit_model(preprocessing=["compute_tip_position", "correct_tip_offset"])
            ref0 = histlib.fresh(cid)
            ref0.fit_model(preprocessing=["compute_tip_position", "correct_tip_offset"])
            before = (ref0.fit_properties.get("hash"), ref0.fit_properties["params_fitted"]["E"].value)
            fpv = victim.fit_properties
            edited = []
            for k in list(fpv.keys()):
                v = fpv[k]
                try:
                    if isinstance(v, list) and len(v) == 2 and k == "range_x":
                        v[0] = -5e-7
                        edited.append(k)
                    elif isinstance(v, list):
                        v.append("correct_force_offset")
                        edited.append(k)
                    elif isinstance(v, dict):
                        v["ftol" if k == "method_kws" else "correct_tip_offset"] = 1e-3 if k == "method_kws" else \
                            {"method": "fit_constant_line"}
                        edited.append(k)
                except BaseException:  # noqa
                    pass
            other = histlib.fresh(cid)
            other.fit_model(preprocessing=["compute_tip_position", "correct_tip_offset"])
            after = (other.fit_properties.get("hash"), other.fit_properties["params_fitted"]["E"].value)
        ctx.case({"probe": "returned-settings-edited", "curve": cid, "edited": edited}, nontrivial=f"probe:fpedit:{cid}",
                 bucket="stream=api-probes")
        snap2 = deep_state({k: v for k, v in nfit.FP_DEFAULT.items()})
        if snap2 != snap or after != before:
            changed = [k for k in nfit.FP_DEFAULT if deep_state(nfit.FP_DEFAULT[k]) != dict(snap[1]).get(k)] \
                if snap[0] == "D" else []
            # restore the defaults for the rest of the run
            for k in ("range_x", "method_kws", "preprocessing", "preprocessing_options"):
                pass
            ctx.violation("returned-settings-alias-module-defaults",
                          f"editing the objects in fit_properties of one curve in place ({edited}) changed the "
                          f"module-level defaults {changed} / the fit of another, fresh curve (hash, E: {before} -> "
                          f"{after})", {"history": ["a.fit_model(preprocessing=P1)", "edit a.fit_properties[k] in place "
                                                    f"for k in {edited}", "b = fresh curve; b.fit_model(preprocessing=P1)"],
                                        "observed": [repr(after)], "expected": [repr(before)]})
            import copy as _c
            nfit.FP_DEFAULT.update(_c.deepcopy(DEFAULTS_AT_IMPORT))
        # "the effect of a call depends only on the argument values": the same keyword arguments written in another
        # order are the same call
        import itertools
        P1 = ["compute_tip_position", "correct_tip_offset"]
        plateau = dict(optimal_fit_edelta=True, optimal_fit_num_samples=7, range_x=[-8e-7, 4e-7], range_type="absolute")
        for label, prefix, kw in (
                ("plateau search off + lower bound", [plateau], {"range_x": [-1.2e-6, 4e-7], "optimal_fit_edelta": False}),
                ("model + parameters", [{}], {"params_initial": "CONE", "model_key": "hertz_cone", "weight_cp": 0}),
                ("range type + interval", [{}], {"range_x": [-6e-7, 3e-7], "range_type": "relative cp", "segment": 0})):
            seen = {}
            for perm in itertools.permutations(list(kw)):
                with warnings.catch_warnings():
                    warnings.simplefilter("ignore")
                    c_ = histlib.fresh(cid)
                    c_.apply_preprocessing(list(P1))
                    try:
                        for pk in prefix:
                            c_.fit_model(**copy.deepcopy(pk))
                        kwo = {k_: (model.models_available["hertz_cone"].get_parameter_defaults()
                                    if kw[k_] == "CONE" else copy.deepcopy(kw[k_])) for k_ in perm}
                        c_.fit_model(**kwo)
                        fp_ = c_.fit_properties
                        obs_ = (repr(fp_.get("range_x")), fp_.get("hash"), fp_.get("model_key"),
                                tuple((n_, q_.value) for n_, q_ in fp_.get("params_fitted", {}).items()))
                    except BaseException as e:  # noqa
                        obs_ = "raises " + type(e).__name__
                seen.setdefault(obs_, []).append(list(perm))
            ctx.case({"probe": "keyword-order", "call": label, "curve": cid}, nontrivial=f"probe:kworder:{label}:{cid}",
                     bucket="stream=api-probes")
            if len(seen) > 1:
                ctx.violation("keyword-order-matters", f"fit_model({', '.join(kw)}) behaves differently depending on the "
                              f"order in which the keyword arguments are written ({label}): " +
                              "; ".join(f"{v_[0]} -> {str(k_)[:120]}" for k_, v_ in seen.items()),
                              {"history": [f"apply_preprocessing({P1})"] + [f"fit_model(**{pk})" for pk in prefix] +
                                          [f"fit_model(**{kw}) in the orders {[v_[0] for v_ in seen.values()]}"],
                               "curve": cid})
        # objects the library RETURNS (preprocessing details, POC details) are edited in place by the caller
        # (unit conversion for plotting): neither the curve's columns nor the caller's own arrays may change
        def scribble(o, depth=0):
            n_ = 0
            if isinstance(o, np.ndarray):
                if o.flags.writeable and o.dtype.kind == "f" and o.size:
                    o *= 1e9
                    o += 1.0
                    n_ += 1
            elif isinstance(o, dict) and depth < 6:
                for v_ in o.values():
                    n_ += scribble(v_, depth + 1)
            elif isinstance(o, (list, tuple)) and depth < 6:
                for v_ in o:
                    n_ += scribble(v_, depth + 1)
            return n_
        for pm in [f.identifier for f in poc.POC_METHODS]:
            steps_ = ["compute_tip_position", "correct_force_offset", "correct_tip_offset"]
            opts_ = {"correct_tip_offset": {"method": pm}}
            with warnings.catch_warnings():
                warnings.simplefilter("ignore")
                a_ = histlib.fresh(cid)
                det = a_.apply_preprocessing(copy.deepcopy(steps_), copy.deepcopy(opts_), ret_details=True)
                cols0 = {c: histlib.digest(a_[c]) for c in a_.columns}
                nscr = scribble(det)
                cols1 = {c: histlib.digest(a_[c]) for c in a_.columns}
                fcall = np.array(a_["force"], copy=True)
                f0_ = fcall.copy()
                _, det2 = poc.compute_poc(fcall, method=pm, ret_details=True)
                nscr += scribble(det2)
            ctx.case({"probe": "returned-details-edited", "curve": cid, "method": pm, "arrays_edited": nscr},
                     nontrivial=f"probe:details:{pm}:{cid}", bucket="stream=api-probes")
            if cols0 != cols1:
                ctx.violation("returned-details-alias-columns", "editing the arrays in the details returned by "
                              f"apply_preprocessing(..., ret_details=True) ({pm}) changed the columns "
                              f"{[c for c in cols0 if cols0[c] != cols1[c]]} of the curve",
                              {"history": [f"det = apply_preprocessing({steps_}, {opts_}, ret_details=True)",
                                           "every float array inside det: a *= 1e9; a += 1"], "curve": cid})
            if not np.array_equal(fcall, f0_):
                ctx.violation("returned-details-alias-argument", "editing the arrays in the details returned by "
                              f"compute_poc(force, {pm!r}, ret_details=True) changed the caller's force array",
                              {"input": {"method": pm, "curve": cid}})
        # the details handed out belong to the options as they are NOW: the caller keeps the option dictionary,
        # edits it in place between calls and applies it with and without asking for details
        pms = [f.identifier for f in poc.POC_METHODS]
        for k_, m1 in enumerate(pms):
            m2 = pms[(k_ + 1 + cid) % len(pms)]
            if m1 == m2:
                continue
            for route in ("apply_preprocessing", "fit_model"):
                steps_ = ["compute_tip_position", "correct_force_offset", "correct_tip_offset"]
                opts_ = {"correct_tip_offset": {"method": m1}}
                with warnings.catch_warnings():
                    warnings.simplefilter("ignore")
                    a_ = histlib.fresh(cid)
                    a_.apply_preprocessing(steps_, opts_, ret_details=True)
                    opts_["correct_tip_offset"]["method"] = m2
                    if route == "fit_model":
                        try:
                            a_.fit_model(preprocessing=steps_, preprocessing_options=opts_, model_key="hertz_para")
                        except BaseException:  # noqa
                            pass
                    else:
                        a_.apply_preprocessing(steps_, opts_)
                    det3 = a_.apply_preprocessing(steps_, opts_, ret_details=True)
                    ref_ = histlib.fresh(cid).apply_preprocessing(copy.deepcopy(steps_), copy.deepcopy(opts_),
                                                                  ret_details=True)
                ctx.case({"probe": "details-after-option-edit", "curve": cid, "from": m1, "to": m2, "route": route},
                         nontrivial=f"probe:details-edit:{m1}:{m2}:{route}:{cid}", bucket="stream=api-probes")
                if deep_state(det3) != deep_state(ref_):
                    ctx.violation("details-of-earlier-options", "the details returned for the caller's option dictionary "
                                  f"(method edited in place from {m1!r} to {m2!r}, applied through {route} in between) "
                                  "are not those of a fresh curve given an equal-valued dictionary",
                                  {"history": [f"apply_preprocessing({steps_}, opts = {{'correct_tip_offset': "
                                               f"{{'method': {m1!r}}}}}, ret_details=True)",
                                               f"opts['correct_tip_offset']['method'] = {m2!r}",
                                               f"{route}(... steps, opts)",
                                               "apply_preprocessing(steps, opts, ret_details=True)"], "curve": cid})
        # numerical functions must not modify their array arguments
        f = np.array(idnt["force"], copy=True)
        for m in [f.identifier for f in poc.POC_METHODS]:
            f0 = f.copy()
            with warnings.catch_warnings():
                warnings.simplefilter("ignore")
                poc.compute_poc(f, method=m)
            ctx.case({"probe": "compute_poc", "method": m}, nontrivial=f"probe:poc:{m}:{cid}",
                     bucket="stream=api-probes")
            if not np.array_equal(f, f0):
                ctx.violation(f"array-modified:compute_poc:{m}", f"compute_poc({m}) modified the force array",
                              {"input": {"method": m}})
        for mk, md in model.models_available.items():
            pp = md.get_parameter_defaults()
            x = np.linspace(1e-6, -1e-6, 50)
            y = np.linspace(0, 1e-9, 50)
            x0, y0, s0 = x.copy(), y.copy(), deep_state(pp)
            with warnings.catch_warnings():
                warnings.simplefilter("ignore")
                md.model(pp, x)
                md.residual(pp, x, y, 5e-7)
            ctx.case({"probe": "model/residual", "model": mk}, nontrivial=f"probe:model:{mk}:{cid}",
                     bucket="stream=api-probes")
            if not (np.array_equal(x, x0) and np.array_equal(y, y0)) or deep_state(pp) != s0:
                ctx.violation(f"argument-modified:model:{mk}", f"model/residual of {mk} modified an argument",
                              {"input": {"model": mk}})
    X, y = histlib.tiny_training_set(0)
    X0, y0 = X.copy(), y.copy()
    IndentationRater.compute_sample_weight(X, y)
    if not (np.array_equal(X, X0) and np.array_equal(y, y0)):
        ctx.violation("array-modified:compute_sample_weight", "training set modified", {})
    # the standalone rater: built from the caller's training arrays and regressor keyword arguments AS THEY ARE at the
    # time of the call - editing the arrays afterwards, or an earlier call with other keyword arguments, changes nothing
    from nanite.rate import rater as nrater
    from nanite.rate import regressors as nregs
    with warnings.catch_warnings():
        warnings.simplefilter("ignore")
        cur = histlib.fresh(2)
        cur.fit_model(preprocessing=["compute_tip_position", "correct_tip_offset"])
        for reg in ("Extra Trees", "Decision Tree", "SVR (linear kernel)"):
            Xa, ya = X0.copy(), y0.copy()
            rt = nrater.get_rater(regressor=reg, training_set=(Xa, ya))
            Xa *= -3.0
            Xa += 1.0
            ya[:] = 10 - ya
            r1 = rt.rate(datasets=cur)[0]
            r2 = nrater.get_rater(regressor=reg, training_set=(X0.copy(), y0.copy())).rate(datasets=cur)[0]
            ctx.case({"probe": "training-arrays-edited-after-get_rater", "regressor": reg},
                     nontrivial=f"probe:rater-arrays:{reg}", bucket="stream=api-probes")
            if not (r1 == r2 or (np.isnan(r1) and np.isnan(r2))):
                ctx.violation("rater-aliases-training-arrays", f"get_rater({reg!r}, training_set=(X, y)); X and y edited in "
                              f"place; rate() gives {r1!r} - a rater built from the values at the time of the call gives "
                              f"{r2!r}", {"history": [f"rt = get_rater({reg!r}, training_set=(X, y))", "X *= -3; X += 1; "
                                                      "y[:] = 10 - y", "rt.rate(datasets=curve)"]})
        snap_reg = deep_state({k: [v[0].__name__, v[1]] for k, v in nrater.reg_dict.items()})
        for reg, kwx in (("Decision Tree", {"max_depth": 1}), ("Extra Trees", {"n_estimators": 3}),
                         ("SVR (linear kernel)", {"C": 1e-3})):
            kw_in = dict(kwx)
            before = nrater.get_rater(regressor=reg, training_set=(X0.copy(), y0.copy())).rate(datasets=cur)[0]
            nrater.get_rater(regressor=reg, training_set=(X0.copy(), y0.copy()), **kw_in)
            after = nrater.get_rater(regressor=reg, training_set=(X0.copy(), y0.copy())).rate(datasets=cur)[0]
            ctx.case({"probe": "regressor-keywords-of-an-earlier-call", "regressor": reg, "keywords": kwx},
                     nontrivial=f"probe:rater-kwargs:{reg}", bucket="stream=api-probes")
            if kw_in != kwx:
                ctx.violation("argument-modified:get_rater", f"get_rater modified the keyword dictionary {kwx}", {})
            if not (before == after or (np.isnan(before) and np.isnan(after))):
                ctx.violation("regressor-keywords-leak", f"get_rater({reg!r}) rates {before!r} before and {after!r} after "
                              f"another call get_rater({reg!r}, **{kwx})",
                              {"history": [f"get_rater({reg!r}).rate(curve)", f"get_rater({reg!r}, **{kwx})",
                                           f"get_rater({reg!r}).rate(curve)"]})
        if deep_state({k: [v[0].__name__, v[1]] for k, v in nrater.reg_dict.items()}) != snap_reg:
            ctx.violation("library-defaults-modified:reg_dict", "the table of regressor defaults (nanite.rate.rater.reg_dict) "
                          "changed during get_rater calls with keyword arguments", {})


def run(ctx):
    ctx.trusted = TRUST_COMMON + [
        "the object model lean/Nanite/Model/Indent.lean is value-semantic (it has no references): its theorems "
        "hold for every history of argument VALUES; that the implementation behaves like it when callers edit "
        "previously passed / returned objects in place is the correspondence (in-place `edit` operations between "
        "calls) - mutation of numpy arrays handed to numerical functions is only monitored"]
    ctx.rule = ("random histories in which caller-held lists, nested option dicts, parameter sets, method_kws and "
                "feature-name lists are edited in place between calls and passed again (incl. edits at depth two "
                "and tiny numerical edits), compared with the value-semantic Lean model and a fresh object; every "
                "call's arguments are snapshotted before and compared after; plus API probes (returned "
                "parameters, compute_poc, model/residual functions, rater); non-trivial = distinct history/probe")
    c03.common_setup(ctx, "C10")
    c03.run_histories(ctx, "C10", focus=(3, 4, 1.5, 0.8, 5), nhist=80 if ctx.tier == "quick" else 1000,
                      direct_pp_edits=False)
    api_probes(ctx)


def replay(ctx, path):
    run(ctx)
    return ctx.finish()
