"""C04 – reported fit outputs are mutually consistent: `_fit` glue against the Lean model at exact
rationals (model values recorded through the public model API), plus the property oracle."""
import copy
import json
import warnings

import numpy as np

from core import TRUST_COMMON
import fitlib
from fitlib import q

MODS = ["Nanite.Props.C04", "Nanite.Audit.C04"]
EPS = np.finfo(float).eps


def seg_int(s):
    if s in ("approach", "retract"):
        return 0 if s == "approach" else 1
    return int(s)


def observe(idnt, kw, meta):
    """everything the oracle and the model need from one fitted curve"""
    from nanite import model
    fp = idnt.fit_properties
    x = np.asarray(idnt[fp.get("x_axis", "tip position")], dtype=float)
    y = np.asarray(idnt[fp.get("y_axis", "force")], dtype=float)
    seg = np.asarray(idnt["segment"]) == seg_int(kw["segment"])
    obs = {"x": x, "y": y, "seg": seg, "success": bool(fp.get("success", False)),
           "fit": np.asarray(idnt["fit"], dtype=float) if "fit" in idnt else None,
           "res": np.asarray(idnt["fit residuals"], dtype=float) if "fit residuals" in idnt else None,
           "used": np.asarray(idnt["fit range"], dtype=bool) if "fit range" in idnt else None,
           "k": float(fp.get("gcf_k", 1.0)), "wd": fp.get("weight_cp", 0), "fp": fp}
    if "params_fitted" in fp:
        pf = fp["params_fitted"]
        pk = copy.deepcopy(pf)
        # (the limits are in measured units: lift them before moving the value to corrected units)
        pk["contact_point"].set(min=-np.inf, max=np.inf)
        pk["contact_point"].set(value=pf["contact_point"].value * obs["k"])
        md = model.models_available[fp["model_key"]]
        obs["pk"] = pk
        obs["mvals"] = np.asarray(md.model(pk, x * obs["k"]), dtype=float)
    return obs


def oracle(ctx, obs, kw, meta):
    fp = obs["fp"]
    tag = f"{meta['range_type']}:k={meta['gcf_k']}:w={meta['weight_cp']}"
    rep = {"input": meta}
    if obs["fit"] is None:
        return
    seg, fit, res = obs["seg"], obs["fit"], obs["res"]
    if not obs["success"]:
        if not (np.all(np.isnan(fit)) and np.all(np.isnan(res))):
            ctx.violation("stale-columns-after-unsuccessful-fit:" + meta["range_type"],
                          "success is False but the fit / residual columns hold numbers "
                          f"({int(np.sum(~np.isnan(fit)))} in 'fit')", rep)
        return
    # fit column = model at the reported parameters on the segment, NaN elsewhere
    if not np.all(np.isnan(fit[~seg])) or not np.all(np.isnan(res[~seg])):
        ctx.violation("columns-not-nan-outside-segment", "fit columns hold numbers outside the segment", rep)
    m = obs["mvals"]
    # the model value is baseline + contact force: where the two cancel, the rounding error is relative to the
    # terms, not to their sum
    b0 = abs(float(fp["params_fitted"]["baseline"].value)) if "baseline" in fp["params_fitted"] else 0.0
    # ... and just beyond the contact point the depth (k*cp - k*x) is a difference of nearly equal numbers: the
    # contact point reported as cp'/k and multiplied by k again may differ from cp' by an ulp
    mag = np.abs(m) + 2 * b0 + float(np.nanmax(np.abs(m[seg]))) * 1e-3
    if np.any(np.isnan(fit[seg])) or np.any(np.abs(fit[seg] - m[seg]) > 1e-12 * np.abs(m[seg]) + 64 * EPS * mag[seg]):
        ctx.violation("fit-column-not-model:" + tag, "the 'fit' column is not the model evaluated with the "
                      "reported parameters on the fitted segment", rep)
    k = obs["k"]
    wd = obs["wd"]
    cpk = obs["pk"]["contact_point"].value
    w = np.minimum(np.abs(obs["x"] * k - cpk) / wd, 1.0) if wd else np.ones_like(obs["x"])
    exp_res = (obs["y"] - m) * w
    scale = np.abs(obs["y"]) + mag + 1e-300
    if np.any(np.abs(res[seg] - exp_res[seg]) > 64 * EPS * scale[seg]):
        ctx.violation("residual-column:" + tag, "the 'fit residuals' column is not (data - fit) x "
                      "contact-point weights", rep)
    chi = float(fp["chi_sqr"])
    exp_chi = float(np.sum(res[obs["used"]] ** 2))
    bud = 64 * EPS * scale[obs["used"]]       # rounding budget of one residual
    budget = float(np.sum(2 * np.abs(res[obs["used"]]) * bud + bud ** 2))
    # (lmfit floors chisqr at 1e-250 * ndata)
    if abs(chi - exp_chi) > 1e-9 * abs(exp_chi) + budget + 1e-200:
        ctx.violation("chi-square:" + tag, f"chi_sqr={chi!r} is not the sum of the squared residuals over "
                      f"the points used ({exp_chi!r})", {**rep, "observed": chi, "expected": exp_chi})
    p0, pf = kw["params_initial"], fp["params_fitted"]
    for n in pf:
        if pf[n].expr:
            continue
        if not p0[n].vary:
            if abs(pf[n].value - p0[n].value) > 4 * EPS * abs(p0[n].value):
                ctx.violation(f"fixed-parameter-changed:{n}", f"fixed parameter {n} changed from "
                              f"{p0[n].value!r} to {pf[n].value!r}", rep)
        lo, hi = pf[n].min, pf[n].max
        if n == "contact_point" and (lo, hi) != (p0[n].min, p0[n].max):
            ctx.violation("contact-point-limits-changed", f"reported contact point carries the limits [{lo}, {hi}], "
                          f"the caller gave [{p0[n].min}, {p0[n].max}]", rep)
        if not (lo <= pf[n].value <= hi):
            ctx.violation(f"out-of-bounds:{n}", f"{n}={pf[n].value!r} outside [{lo}, {hi}]", rep)
    if "baseline" in pf and pf["baseline"].expr == "E*1e-15":
        if abs(pf["baseline"].value - pf["E"].value * 1e-15) > 1e-12 * abs(pf["E"].value * 1e-15):
            ctx.violation("expr-violated", "expression-constrained parameter does not satisfy its expression",
                          rep)


def weight_laws(ctx, obs, meta):
    """laws of Props/C04 (c04_weights_range / _monotone / _symmetric, c04_chisq_weighted_le) on the real
    `compute_contact_point_weights` / `residual` at the fitted curve's abscissa and reported parameters.
    Multiplication by a weight in [0, 1] and monotone rounding make every comparison exact in doubles."""
    from nanite.model import residuals as _res, models_available
    if not obs["success"] or "pk" not in obs:
        return
    rep = {"input": meta}
    xk = obs["x"] * obs["k"]
    cpk = float(obs["pk"]["contact_point"].value)
    wd = float(obs["wd"]) if obs["wd"] else 5e-7
    w = np.asarray(_res.compute_contact_point_weights(cp=cpk, delta=xk.copy(), weight_dist=wd), dtype=float)
    if w.shape != xk.shape or np.any(~(w >= 0)) or np.any(~(w <= 1)):
        ctx.violation("weights-out-of-range", "contact-point weights leave [0, 1]", rep)
        return
    order = np.argsort(np.abs(xk - cpk), kind="stable")
    if np.any(np.diff(w[order]) < 0):
        ctx.violation("weights-not-monotone", "a point farther from the contact point weighs less than a nearer "
                      "one", rep)
    d = np.abs(xk - cpk)
    wm = np.asarray(_res.compute_contact_point_weights(cp=cpk, delta=cpk - (xk - cpk), weight_dist=wd), dtype=float)
    # (cp - (x - cp)) - cp rounds; compare only where the mirrored distance is reproduced exactly
    same = np.abs((cpk - (xk - cpk)) - cpk) == d
    if np.any(wm[same] != w[same]):
        ctx.violation("weights-not-symmetric", "the weights differ on the two sides of the contact point at equal "
                      "distance", rep)
    md = models_available[obs["fp"]["model_key"]]
    used = obs["used"]
    r_w = np.asarray(_res.residual(obs["pk"], xk.copy(), obs["y"].copy(), md.model, weight_cp=wd), dtype=float)
    r_0 = np.asarray(_res.residual(obs["pk"], xk.copy(), obs["y"].copy(), md.model, weight_cp=0), dtype=float)
    if np.any(np.abs(r_w) > np.abs(r_0)):
        ctx.violation("weighted-residual-larger", "a weighted residual exceeds the unweighted one in magnitude", rep)
    if float(np.sum(r_w[used] ** 2)) > float(np.sum(r_0[used] ** 2)) * (1 + 8 * EPS):
        ctx.violation("weighted-chi-square-larger", "at the same parameters the weighted sum of squares exceeds the "
                      "unweighted one", rep)


def model_line(obs, kw):
    nv = sum(1 for n in kw["params_initial"] if kw["params_initial"][n].vary)
    mv = obs.get("mvals")
    if mv is None:
        mv = np.zeros_like(obs["x"])
    return {"op": "fitout", "seg": [bool(b) for b in obs["seg"]], "used": [bool(b) for b in obs["used"]],
            "xs": [q(v) for v in obs["x"]], "ys": [q(v) for v in obs["y"]], "k": q(obs["k"]),
            "wd": q(obs["wd"]) if obs["wd"] else None,
            "cpk": q(obs["pk"]["contact_point"].value) if "pk" in obs else "0", "nv": nv,
            "mvals": [q(v) for v in mv]}


def parse_out(line):
    d = {}
    for part in line.split(" "):
        k, v = part.split("=", 1)
        d[k] = v
    return d


def compare(ctx, obs, out, meta):
    d = parse_out(out)
    if (d["success"] == "true") != obs["success"]:
        ctx.disagree(meta, f"success={obs['success']}", f"success={d['success']}", "success flag")
        return
    mfit = np.array(fitlib.parse_list(d["fit"]))
    mres = np.array(fitlib.parse_list(d["res"]))
    if not np.array_equal(np.isnan(mfit), np.isnan(obs["fit"])) or \
            not np.array_equal(np.isnan(mres), np.isnan(obs["res"])):
        ctx.disagree(meta, "nan pattern", "nan pattern", "NaN pattern of the columns")
        return
    if not obs["success"]:
        return
    ok = ~np.isnan(mfit)
    pf = obs["fp"]["params_fitted"]
    b0 = abs(float(pf["baseline"].value)) if "baseline" in pf else 0.0
    # baseline and contact force may cancel in the model value; depth just beyond the contact point is a
    # difference of nearly equal numbers
    mag = np.abs(obs["mvals"]) + 2 * b0 + float(np.nanmax(np.abs(obs["mvals"][ok]))) * 1e-3 if np.any(ok) else \
        np.abs(obs["mvals"]) + 2 * b0
    if np.any(np.abs(mfit[ok] - obs["fit"][ok]) > 1e-12 * np.abs(mfit[ok]) + 64 * EPS * mag[ok]):
        ctx.disagree(meta, "fit", "fit", "fit column values")
    scale = np.abs(obs["y"]) + mag + 1e-300
    if np.any(np.abs(mres[ok] - obs["res"][ok]) > 64 * EPS * scale[ok]):
        ctx.disagree(meta, float(np.max(np.abs(mres[ok] - obs["res"][ok]))), "res",
                     "residual column beyond the rounding budget 64 eps (|y|+|model|)")
    chi_m = fitlib.qf(d["chi"])
    chi = float(obs["fp"]["chi_sqr"])
    bud = 64 * EPS * scale[obs["used"]]
    budget = float(np.sum(2 * np.abs(obs["res"][obs["used"]]) * bud + bud ** 2))
    if abs(chi_m - chi) > 1e-9 * abs(chi_m) + budget + 1e-200:
        ctx.disagree(meta, chi, chi_m, "chi-square")


def batches(ctx, lines, keep):
    """force-map style batches: several curves with the SAME number of points, the same model and settings and
    the contact point fixed at the same value (as after tip-offset correction), but different abscissae, fitted
    one after the other in one process - each curve's outputs must be consistent with its own data"""
    rng = ctx.rng
    for b in range(3 if ctx.tier == "quick" else 40):
        mk = rng.choice(fitlib.MODELS[:4])
        n_app, n_ret = rng.choice([(120, 60), (300, 100)])
        wcp = rng.choice([2e-7, 5e-7, 1e-6])
        k = rng.choice([1.0, 1.0, 0.7])
        seg = rng.choice(["approach", "approach", "retract"])
        for j in range(3):
            truth = fitlib.truth_params(mk, rng, cp=0.0)
            idnt = fitlib.synth_curve(mk, truth, rng, n_app=n_app, n_ret=n_ret, noise=rng.choice([1e-11, 5e-11]),
                                      uniform=(j != 1), zmax=rng.choice([1.5e-6, 2e-6, 3e-6]),
                                      depth=rng.choice([6e-7, 9e-7, 1.2e-6]), seed=7000 + 10 * b + j)
            p0 = copy.deepcopy(truth)
            p0["E"].set(value=truth["E"].value * rng.uniform(0.7, 1.4))
            p0["contact_point"].set(value=0.0, vary=False)
            kw = dict(model_key=mk, params_initial=p0, range_type="absolute", range_x=(0, 0), segment=seg,
                      weight_cp=wcp, gcf_k=k, preprocessing=[])
            meta = {"stream": "batch", "batch": b, "curve": j, "fit_model": mk, "range_type": "absolute",
                    "gcf_k": k, "weight_cp": wcp, "segment": seg, "n": [n_app, n_ret],
                    "contact_point": "fixed at 0"}
            res, rec = fitlib.fit(idnt, **copy.deepcopy(kw))
            if res != "ok":
                ctx.case({**meta, "result": res}, bucket=["stream=batch", "result=" + res])
                continue
            obs = observe(idnt, kw, meta)
            ctx.case({**meta, "success": obs["success"]}, nontrivial=json.dumps(meta, sort_keys=True),
                     bucket=["stream=batch", f"success={obs['success']}"])
            oracle(ctx, obs, kw, meta)
            if obs["used"] is not None and len(obs["x"]) <= 700:
                lines.append(model_line(obs, kw))
                keep.append((obs, meta))


def special_cases(ctx, lines, keep):
    """(a) curves recorded with a dwell: three segments, the retract has index 2; (b) minimisations that the
    optimiser gives up on (a budget of function evaluations that is too small): whatever `success` says, the
    columns must be consistent with it"""
    rng = ctx.rng
    for i in range(8 if ctx.tier == "quick" else 80):
        mk = rng.choice(fitlib.MODELS[:4])
        truth = fitlib.truth_params(mk, rng, cp=0.0)
        kind = ["dwell-seg2", "dwell-seg0", "budget", "dwell-seg2-range", "budget-nelder", "dwell-seg1",
                "scan-after-fit", "scan-after-fit"][i % 8]
        p0 = copy.deepcopy(truth)
        p0["E"].set(value=truth["E"].value * rng.uniform(0.6, 1.6))
        if kind.startswith("dwell"):
            idnt = fitlib.synth_curve_dwell(mk, truth, rng, noise=rng.choice([0.0, 2e-11]), seed=9000 + i)
            seg = {"dwell-seg2": 2, "dwell-seg0": 0, "dwell-seg2-range": 2, "dwell-seg1": 1}[kind]
            kw = dict(model_key=mk, params_initial=p0, range_type="absolute",
                      range_x=(-6e-7, 4e-7) if kind == "dwell-seg2-range" else (0, 0), segment=seg,
                      weight_cp=rng.choice([0, 5e-7]), gcf_k=1.0, preprocessing=[])
        elif kind == "scan-after-fit":
            # an ordinary fit, then the E(delta) scan is requested: the reported results must still be those of the fit
            idnt = fitlib.synth_curve(mk, truth, rng, n_app=200, n_ret=100, noise=2e-11, seed=9000 + i)
            kw = dict(model_key=mk, params_initial=p0, range_type="absolute", range_x=(0, 0), segment=0,
                      weight_cp=rng.choice([0, 5e-7]), gcf_k=1.0, preprocessing=[], optimal_fit_num_samples=6)
        else:
            idnt = fitlib.synth_curve(mk, truth, rng, n_app=200, n_ret=100, noise=2e-11, seed=9000 + i)
            p0["contact_point"].set(value=3e-7)
            kw = dict(model_key=mk, params_initial=p0, range_type="absolute", range_x=(0, 0), segment=0,
                      weight_cp=0, gcf_k=1.0, preprocessing=[],
                      method="nelder" if kind == "budget-nelder" else "leastsq",
                      method_kws={"max_nfev": rng.choice([2, 4, 6])})
        meta = {"stream": "special", "kind": kind, "fit_model": mk, "range_type": "absolute", "gcf_k": 1.0,
                "weight_cp": kw["weight_cp"], "segment": str(kw["segment"]), "range_x": list(kw["range_x"]),
                "method_kws": kw.get("method_kws", {})}
        res, rec = fitlib.fit(idnt, **copy.deepcopy(kw))
        if res == "ok" and kind == "scan-after-fit":
            with warnings.catch_warnings():
                warnings.simplefilter("ignore")
                try:
                    idnt.compute_emodulus_mindelta()
                    meta["then"] = "compute_emodulus_mindelta()"
                except BaseException as e:  # noqa
                    meta["then"] = "compute_emodulus_mindelta() raised " + type(e).__name__
        if res != "ok":
            ctx.case({**meta, "result": res}, bucket=["stream=special", "kind=" + kind, "result=" + res])
            if kind.startswith("dwell") and kind != "dwell-seg1":
                ctx.violation(f"fit-raises:{kind}", f"fitting segment {kw['segment']} of a three-segment curve raises "
                              f"({res})", {"input": meta})
            continue
        obs = observe(idnt, kw, meta)
        ctx.case({**meta, "success": obs["success"]}, nontrivial=json.dumps(meta, sort_keys=True),
                 bucket=["stream=special", "kind=" + kind, f"success={obs['success']}"])
        oracle(ctx, obs, kw, meta)
        if obs["used"] is not None:
            # the points used lie in the requested segment
            if np.any(obs["used"] & ~obs["seg"]):
                ctx.violation(f"points-outside-segment:{kind}", f"{int(np.sum(obs['used'] & ~obs['seg']))} fitted points are "
                              f"not in the requested segment {kw['segment']}", {"input": meta})
            if len(obs["x"]) <= 700:
                lines.append(model_line(obs, kw))
                keep.append((obs, meta))


def run(ctx):
    ctx.trusted = TRUST_COMMON + [
        "hand-written models lean/Nanite/Model/Residual.lean and Fitter.lean of compute_contact_point_weights/"
        "residual/_fit (tied by correspondence at exact rationals; model values are recorded through the "
        "public model API)",
        "lmfit: fixed parameters, bounds, expressions and fit.chisqr are guarantees of lmfit - explored by "
        "the oracle, not proved; IEEE-754 rounding: comparisons within 64 eps (|y|+|model|) resp. 1e-9 "
        "relative for chi-square"]
    ctx.assumptions = ["lmfit.minimize honours vary/min/max/expr", "theorems over an ordered field do not "
                       "transfer to doubles; the rounding budget is explicit"]
    ctx.rule = ("synthetic curves from the shipped models (noise, tilt, non-uniform sampling, model mismatch) "
                "fitted with random segment / range type / boundary-coincident, inverted, one-sided, narrow and "
                "zero-width intervals / weighting width / gcf_k / fixed-varied-bounded-expression parameters / "
                "minimiser; every fit is compared with the Lean `fitOut` at exact rationals and with the "
                "property oracle; non-trivial = distinct case whose fit ran (success or too-few-points)")
    ctx.build(MODS, clean=(ctx.tier == "thorough"))
    ctx.grep_audit()
    if ctx.tier == "thorough":
        ctx.leanchecker(["Nanite.Props.C04"])
    n = 120 if ctx.tier == "quick" else 1500
    lines, keep = [], []
    for i in range(n):
        idnt, kw, truth, meta = fitlib.gen_fit_case(ctx.rng, ctx.seed * 100000 + i)
        res, rec = fitlib.fit(idnt, **copy.deepcopy(kw))
        if res != "ok":
            ctx.case({**meta, "result": res}, bucket=["result=" + res])
            if res not in ("err FitDataError", "err FitKeyError", "err KeyError"):
                # an interval that holds too few points is an unsuccessful fit (success False, NaN columns), not an
                # exception of the numerical library
                ctx.violation("fit-raises:" + res.split()[-1], f"fit_model raises ({res}) instead of reporting an "
                              f"unsuccessful fit", {"input": meta, "observed": res})
            continue
        obs = observe(idnt, kw, meta)
        ctx.case({**meta, "success": obs["success"], "passes": len(rec.calls)},
                 nontrivial=json.dumps(meta, sort_keys=True, default=str),
                 bucket=[f"success={obs['success']}", "range=" + meta["range_type"], f"k={meta['gcf_k']}",
                         f"weight={'on' if meta['weight_cp'] else 'off'}", "fit=" + meta["fit_model"],
                         f"passes={len(rec.calls)}", "segment=" + meta["segment"]])
        oracle(ctx, obs, kw, meta)
        if obs["used"] is not None:
            weight_laws(ctx, obs, meta)
        if obs["used"] is not None and len(obs["x"]) <= 700:
            lines.append(model_line(obs, kw))
            keep.append((obs, meta))
    batches(ctx, lines, keep)
    special_cases(ctx, lines, keep)
    out = ctx.driver("Fit", lines) if lines else None
    if out is not None:
        for (obs, meta), o in zip(keep, out):
            compare(ctx, obs, o, meta)
    ctx.extra["tolerances"] = {"fit": "rtol 1e-12", "residuals": "64 eps (|y|+|model|+2|baseline|)", "chi_sqr": "rtol 1e-9 + sum(2|r| b + b^2), b = 64 eps (|y|+|model|)"}


def replay(ctx, path):
    run(ctx)
    return ctx.finish()
