"""C16 – rating containers: save sequences with a failure injected at every primitive write, against
the Lean container model (`Nanite.Model.Container`), plus the property oracle on the real files."""
import hashlib
import json
import pathlib
import shutil
import tempfile
import warnings

import numpy as np

from core import TRUST_COMMON

MODS = ["Nanite.Props.C16", "Nanite.Witness.C16", "Nanite.Audit.C16"]
EXTRA = ["user time", "user time str", "nanite version", "h5py version"]
DSETS = ["fit", "fit range", "force", "fit residuals", "tip position", "segment"]


class Injected(OSError):
    pass


class WriteCounter:
    """counts the primitive HDF5 writes of a save and lets the j-th (0-based) one fail"""

    def __init__(self, fail_at=None):
        self.fail_at = fail_at
        self.n = 0
        self.log = []

    def tick(self, what):
        self.log.append(what)
        if self.fail_at is not None and self.n == self.fail_at:
            self.n += 1
            raise Injected("injected failure at write #%d (%s)" % (self.fail_at, what))
        self.n += 1

    def __enter__(self):
        import h5py
        me = self
        self.orig = (h5py.Group.create_dataset, h5py.Group.create_group,
                     h5py.AttributeManager.__setitem__, h5py.Group.__delitem__)
        o_cd, o_cg, o_as, o_del = self.orig

        def cd(g, name, *a, **k):
            me.tick(f"create_dataset {g.name}/{name}")
            return o_cd(g, name, *a, **k)

        def cg(g, name, *a, **k):
            me.tick(f"create_group {g.name}/{name}")
            return o_cg(g, name, *a, **k)

        def aset(am, name, value):
            me.tick(f"attr {name}")
            return o_as(am, name, value)

        def dl(g, name):
            me.tick(f"del {g.name}/{name}")
            return o_del(g, name)
        h5py.Group.create_dataset, h5py.Group.create_group = cd, cg
        h5py.AttributeManager.__setitem__, h5py.Group.__delitem__ = aset, dl
        return self

    def __exit__(self, *a):
        import h5py
        (h5py.Group.create_dataset, h5py.Group.create_group,
         h5py.AttributeManager.__setitem__, h5py.Group.__delitem__) = self.orig
        return False


def tok_arr(a):
    a = np.asarray(a)
    return hashlib.sha1(str(a.dtype).encode() + a.tobytes()).hexdigest()[:12]


def tok_val(v):
    if isinstance(v, bytes):
        v = v.decode()
    if isinstance(v, str):
        return "s" + hashlib.sha1(v.encode()).hexdigest()[:10] if len(v) > 24 else "s:" + v
    if isinstance(v, (bool, np.bool_)):
        return "b:" + str(bool(v))
    if isinstance(v, (int, float, np.integer, np.floating)):
        return "n:" + repr(float(v))
    if isinstance(v, np.ndarray):
        return "a:" + tok_arr(v)
    return "?:" + repr(v)[:30]


def convert(key, val):
    """the value conversions save_hdf5 applies before writing an attribute (mirrors the code)"""
    if key.startswith("params_"):
        return val.dumps()
    if key == "preprocessing":
        return ",".join(val)
    if key in ["preprocessing_options", "method_kws"]:
        return json.dumps(val)
    if key == "range_x":
        return str([float(v) for v in val])
    return val


def curve_desc(idnt):
    from nanite.rate import io as rio
    dhash = rio.hash_file(idnt.path)
    fit_attrs = [["fit " + k, tok_val(convert(k, v))] for k, v in idnt.fit_properties.items()]
    return {"dhash": dhash, "idd": f"{dhash}_{idnt.enum}", "enum": tok_val(idnt.enum),
            "path": tok_val(str(idnt.path)), "raw": tok_arr(np.fromfile(str(idnt.path), dtype=bool)),
            "fitAttrs": fit_attrs, "dsets": [[n, tok_arr(idnt[n])] for n in DSETS]}


def user_desc(rate, name, comment):
    return {"comment": tok_val(comment), "name": tok_val(name), "rate": tok_val(rate),
            "extra": [[k, "X"] for k in EXTRA]}


def dump_real(path):
    import h5py

    def kv(items):
        return "{" + ", ".join(sorted(f"{k}={v}" for k, v in items)) + "}"
    with h5py.File(path, "r") as h5:
        data = []
        for k in sorted(h5["data"]):
            d = h5["data"][k]
            data.append(f"{k}:{tok_arr(d[...])}:" + (tok_val(d.attrs['path']) if "path" in d.attrs
                                                      else "<nopath>"))
        ana = []
        for k in sorted(h5["analysis"]):
            g = h5["analysis"][k]
            attrs = [(a, "X" if a in EXTRA else (g.attrs[a] if a == "data hash" else tok_val(g.attrs[a])))
                     for a in g.attrs]
            dsets = [(n, tok_arr(g[n][...])) for n in g]
            ana.append(f"{k} attrs{kv(attrs)} dsets{kv(dsets)}")
    return "data[" + ", ".join(data) + "] ana[" + ", ".join(ana) + "]"


def nonuser_view(path):
    """everything stored per analysis entry except the user fields (and time/version stamps)"""
    import h5py
    out = {}
    with h5py.File(path, "r") as h5:
        for k in h5["analysis"]:
            g = h5["analysis"][k]
            out[k] = (sorted((a, tok_val(g.attrs[a]) if a != "data hash" else str(g.attrs[a])) for a in g.attrs
                             if not a.startswith("user ") and a not in EXTRA),
                      sorted((n, tok_arr(g[n][...])) for n in g))
    return out


def new_container(path):
    import h5py
    with h5py.File(path, "w") as h5:
        h5.create_group("data")
        h5.create_group("analysis")


def rid(r):
    """idd of a loaded rating: load_hdf5 names the extracted raw file '<data hash>_<name>'"""
    return pathlib.Path(r["data_set"].path).name.split("_")[0] + "_" + str(r["enum"])


def load_real(path):
    from nanite.rate import io as rio
    with warnings.catch_warnings():
        warnings.simplefilter("ignore")
        try:
            rs = rio.load_hdf5(path)
            return "ok [" + ", ".join(sorted(rid(r) for r in rs)) + "]", rs
        except KeyError:
            return "err KeyError", None
        except BaseException as e:  # noqa
            return "err other:" + type(e).__name__, None


class Pool:
    """fitted curves on real files: (file, enum) x fit variant"""

    def __init__(self, tdir, seed):
        import nanite
        from curves import synth
        self.files = []
        for i in range(2):
            idnt = synth(n_app=220, n_ret=90, noise=2e-11, seed=seed * 10 + i, E=400 * (i + 1),
                         path=f"c16_{i}.tab")
            f = tdir / f"c16_{i}.tab"
            idnt.export_data(f, fmt="tab")
            self.files.append((f, [0]))
        repo_data = pathlib.Path(nanite.__file__).resolve().parents[2] / "tests" / "data"
        m = repo_data / "fmt-jpk-fd_map2x2_extracted.jpk-force-map"
        if m.exists():
            shutil.copy(m, tdir / m.name)
            self.files.append((tdir / m.name, [0, 1, 2]))
        # a curve recorded with a pause: three segments (approach 0, dwell 1, retract 2), as an afmformats HDF5 file
        import random as _r
        import h5py
        import fitlib
        tr_ = fitlib.truth_params("hertz_para", _r.Random(seed), cp=0.0)
        dw = fitlib.synth_curve_dwell("hertz_para", tr_, _r.Random(seed), noise=2e-11, seed=seed)
        with h5py.File(tdir / "c16_dwell.h5", "w") as h5:
            dw.export_data(h5, fmt="hdf5")
        self.files.append((tdir / "c16_dwell.h5", [0]))
        self.dwell_index = len(self.files) - 1
        # a recorded curve whose approach/retract switch is moved by the segment-discovery step
        m = repo_data / "fmt-jpk-fd_spot3-0192.jpk-force"
        if m.exists():
            shutil.copy(m, tdir / m.name)
            self.files.append((tdir / m.name, [0]))
        self.cache = {}

    def keys(self):
        return [(fi, e) for fi, (f, enums) in enumerate(self.files) for e in enums]

    def get(self, fi, enum, variant):
        import nanite
        k = (fi, enum, variant)
        if k not in self.cache:
            f = self.files[fi][0]
            with warnings.catch_warnings():
                warnings.simplefilter("ignore")
                idnt = nanite.IndentationGroup(f)[enum]
                steps_ = ["compute_tip_position", "correct_force_offset", "correct_tip_offset"]
                if variant == "S":
                    # the stored 'segment' column is the one the preprocessing produced, not the instrument's
                    steps_ = steps_ + ["correct_split_approach_retract"]
                idnt.apply_preprocessing(steps_ if variant != "nopre" else [])
                kw = {"A": dict(model_key="hertz_para"),
                      # the same fit as "A" reached with different stored settings (the interval covers everything)
                      "A2": dict(model_key="hertz_para", range_x=(-1, 1), range_type="absolute"),
                      # interval bounds given as numpy scalars (e.g. taken from an array)
                      "N": dict(model_key="hertz_para", range_x=(np.float64(-3e-7), np.float64(1e-7)),
                                range_type="absolute"),
                      "S": dict(model_key="hertz_para"),
                      "D": dict(model_key="hertz_para", segment=2),          # third segment of a dwell curve
                      "B": dict(model_key="hertz_cone"),
                      "C": dict(model_key="hertz_para", range_x=(-3e-7, 1e-7), range_type="absolute",
                                weight_cp=0, method_kws={"ftol": 1e-9}),
                      "R": dict(model_key="hertz_para", segment=1),           # retract-segment fit
                      "F": dict(model_key="hertz_para", range_x=(5e-3, 6e-3)),  # no points: failed fit
                      # interval bounds computed from the data (all seventeen significant digits matter)
                      "P": dict(model_key="hertz_para", range_type="absolute"),
                      # the settings of "A" on a curve whose approach / retract switch was moved by hand
                      "M": dict(model_key="hertz_para"),
                      "nopre": dict(model_key="hertz_para", x_axis="tip position")}[variant]
                if variant == "P":
                    tp_ = np.asarray(idnt["tip position"], dtype=float)
                    kw["range_x"] = (float(tp_.min()) * 0.6180339887498949, float(tp_.max()) * 0.7071067811865476)
                if variant == "nopre":
                    idnt.apply_preprocessing(["compute_tip_position"])
                if variant == "M":
                    seg_ = np.array(idnt["segment"], copy=True)
                    sw_ = int(np.argmax(seg_ > 0))
                    seg_[max(sw_ - 40, 5):sw_] = 1
                    idnt["segment"] = seg_
                idnt.fit_model(**kw)
            self.cache[k] = idnt
        return self.cache[k]


def do_save(path, idnt, rate, name, comment, fault):
    from nanite.rate import io as rio
    with WriteCounter(fail_at=fault) as wc, warnings.catch_warnings():
        warnings.simplefilter("ignore")
        try:
            rio.save_hdf5(path, idnt, rate, name, comment)
            res = "ok"
        except Injected:
            res = "err Injected"
        except ValueError:
            res = "err ValueError"
        except BaseException as e:  # noqa
            res = "err other:" + type(e).__name__
    return res, wc


def check_roundtrip(ctx, rs, originals, hist):
    """every loaded rating has identical columns, equal settings/parameters and the same features"""
    from nanite.rate import io as rio
    from nanite.rate.features import IndentationFeatures
    for r in rs:
        ds = r["data_set"]
        idd = rid(r)
        if idd not in originals:
            continue
        orig, user = originals[idd]
        bad = [n for n in DSETS if not np.array_equal(np.asarray(ds[n]), np.asarray(orig[n]), equal_nan=True)]
        fp0, fp1 = orig.fit_properties, r["fit properties"]
        for k in fp0:
            a, b_ = fp0[k], fp1.get(k)
            if k.startswith("params_"):
                same = b_ is not None and {p: (a[p].value, a[p].vary, a[p].min, a[p].max) for p in a} == \
                    {p: (b_[p].value, b_[p].vary, b_[p].min, b_[p].max) for p in b_}
            elif isinstance(a, np.ndarray):
                same = b_ is not None and np.array_equal(a, b_)
            elif isinstance(a, (list, tuple)):
                same = b_ is not None and list(a) == list(b_)
            else:
                same = (a == b_)
            if not same:
                bad.append("fit " + k)
        if (r["name"], r["rating"], r["comment"]) != user:
            bad.append("user fields")
        with warnings.catch_warnings():
            warnings.simplefilter("ignore")
            f0 = IndentationFeatures.compute_features(orig)
            f1 = IndentationFeatures.compute_features(ds)
        if not np.array_equal(f0, f1, equal_nan=True):
            bad.append("features")
        if bad:
            ctx.violation("roundtrip:" + ",".join(sorted(set(b_.split()[0] for b_ in bad))),
                          f"rating {idd} loaded back differs from what was stored: {bad}",
                          {"history": hist, "observed": bad})


def run(ctx):
    ctx.trusted = TRUST_COMMON + [
        "hand-written model lean/Nanite/Model/Container.lean of save_hdf5/load_hdf5 as sequences of "
        "primitive writes (tied by comparing HDF5 dumps after every operation, with a failure injected "
        "at write indices)",
        "'same fit' (np.allclose, atol=0) is modelled as equality of fit digests; attribute conversions "
        "(dumps/join/json.dumps/str) are mirrored by the harness; HDF5 bytes, gzip, fletcher32 and "
        "durability under process kill are trusted / not modelled"]
    ctx.rule = ("sequences of saves (new curve, same curve again with other user fields, same curve with a "
                "different fit, several files and enumerations) on real containers; for saves under test a "
                "failure is injected at a write index j (quick: sampled, thorough: every index of every save); "
                "after every operation the HDF5 dump and the load result are compared with the Lean model and "
                "the property oracle is evaluated; non-trivial = distinct (history, fault index)")
    ctx.build(MODS, clean=(ctx.tier == "thorough"))
    ctx.grep_audit()
    if ctx.tier == "thorough":
        ctx.leanchecker(["Nanite.Props.C16", "Nanite.Witness.C16"])
    from nanite.rate import io as rio
    tdir = pathlib.Path(tempfile.mkdtemp(prefix="verif_c16_"))
    rng = ctx.rng
    try:
        pool = Pool(tdir, ctx.seed)
        keys = pool.keys()
        nseq = 14 if ctx.tier == "quick" else 60
        lines, expect, labels = [], [], []
        for s in range(nseq):
            h5 = tdir / f"seq{s}.h5"
            new_container(h5)
            lines.append({"op": "reset"})
            expect.append("ok")
            labels.append("reset")
            stored = {}        # idd -> (idnt, (name, rate, comment), variant)
            hist = []
            # the first sequence is directed: the same curve stored three times - integer rating, then the same
            # fit reached with other settings and a fractional rating, then the first object again
            plan = [(keys[s % len(keys)], "A", 5), (keys[s % len(keys)], "A2", 7.5), (keys[s % len(keys)], "A", 3)] \
                if s in (0, 1) else None
            if s == 2:
                plan = [(keys[-1], "S", 4), (keys[0], "S", 6)]
            if s == 3:
                plan = [((pool.dwell_index, 0), "D", 8), ((pool.dwell_index, 0), "D", 2.5)]
            # "storing a different fit for an already stored curve is refused", directed: a fit that found no points
            # (all-NaN columns) after a successful one and the other way round; a fit with identical settings - and
            # therefore an identical hash - of a curve whose approach / retract switch was moved by hand
            if s == 4:
                plan = [(keys[1 % len(keys)], "A", 5), (keys[1 % len(keys)], "F", 2)]
            if s == 5:
                plan = [(keys[2 % len(keys)], "F", 2), (keys[2 % len(keys)], "A", 5)]
            if s == 6:
                plan = [(keys[0], "A", 5), (keys[0], "M", 6), (keys[0], "A", 7)]
            for step in range(len(plan) if plan else rng.randint(2, 5)):
                fi, enum = rng.choice(keys)
                idd_known = [k for k in stored if stored[k][3] == (fi, enum)]
                if idd_known and rng.random() < 0.6:
                    variant = rng.choice([stored[idd_known[0]][2], stored[idd_known[0]][2], "B", "A", "R", "F", "A2"])
                else:
                    variant = rng.choice(["A", "A", "B", "C", "R", "N", "S", "P", "P"])
                rate, name, comment = rng.choice([0, 3, 7, 10, -1, 7.5, 2.25]), rng.choice(["ann", "bob"]), \
                    rng.choice(["", "ok", "noisy baseline"])
                if plan:
                    (fi, enum), variant, rate = plan[step]
                idnt = pool.get(fi, enum, variant)
                cd = curve_desc(idnt)
                idd = cd["idd"]
                # how many writes would this save do?  (dry run on a copy)
                shutil.copy(h5, tdir / "dry.h5")
                res0, wc0 = do_save(tdir / "dry.h5", idnt, rate, name, comment, None)
                nwrites = wc0.n
                if ctx.tier == "thorough":
                    faults = list(range(nwrites)) + [None]
                else:
                    faults = sorted(set(rng.sample(range(nwrites), min(nwrites, 4)))) + [None] \
                        if nwrites else [None]
                base = tdir / "base.h5"
                shutil.copy(h5, base)
                before_dump = dump_real(h5)
                before_nonuser = nonuser_view(h5)
                before_load, before_rs = load_real(h5)
                for fault in faults:
                    shutil.copy(base, h5)
                    hist_f = hist + [f"save file{fi} enum{enum} fit{variant} fault={fault}"]
                    res, wc = do_save(h5, idnt, rate, name, comment, fault)
                    after_dump = dump_real(h5)
                    after_load, after_rs = load_real(h5)
                    # ---- model lines (replay the history up to here, then this save) ----
                    lines.append({"op": "save", "curve": cd, "user": user_desc(rate, name, comment),
                                  "fault": fault, "_restore": True})
                    expect.append(res + " " + after_dump)
                    labels.append(hist_f)
                    lines.append({"op": "load"})
                    expect.append(after_load.split(" [")[0] + " [" + after_load.split(" [")[1]
                                  if " [" in after_load else after_load)
                    labels.append(hist_f + ["load"])
                    ctx.case({"history": hist_f, "writes": nwrites, "result": res},
                             nontrivial=json.dumps(hist_f), bucket=["result=" + res,
                                                                    "fault=" + ("none" if fault is None else "yes"),
                                                                    "kind=" + ("new" if idd not in stored else
                                                                               ("same" if stored[idd][2] == variant
                                                                                else ("same-fit-other-settings" if
                                                                                      {stored[idd][2], variant} <= {"A", "A2"}
                                                                                      else "different-fit")))])
                    # ---- oracle ----
                    if after_rs is not None:
                        # the other readers of the same container (metadata-only loads, the manager)
                        for reader in ("load(meta_only)", "load_hdf5(meta_only)", "RateManager.get_rates",
                                       "hdf5_rated"):
                            with warnings.catch_warnings():
                                warnings.simplefilter("ignore")
                                try:
                                    if reader == "load(meta_only)":
                                        cnt = len(rio.load(h5, meta_only=True))
                                    elif reader == "load_hdf5(meta_only)":
                                        cnt = len(rio.load_hdf5(h5, meta_only=True))
                                    elif reader == "RateManager.get_rates":
                                        cnt = len(rio.RateManager(h5).get_rates(which="user"))
                                    else:
                                        rio.hdf5_rated(h5, idnt)
                                        cnt = len(after_rs)
                                    bad_reader = None if cnt == len(after_rs) else f"returns {cnt} ratings, " \
                                        f"load_hdf5 {len(after_rs)}"
                                except BaseException as e:  # noqa
                                    bad_reader = f"raises {type(e).__name__}: {str(e)[:80]}"
                            if bad_reader:
                                ctx.violation(f"reader-disagrees:{reader}:{'failed' if fault is not None else 'complete'}"
                                              "-save", f"{reader} {bad_reader} after {hist_f[-1]} (failure injected at "
                                              f"write #{fault}: "
                                              f"{wc.log[fault] if fault is not None and fault < len(wc.log) else '-'})",
                                              {"history": hist_f, "observed": bad_reader})
                    if after_rs is None:
                        ctx.violation(f"unreadable-after:{'failed' if fault is not None else 'complete'}-save",
                                      f"container unreadable ({after_load}) after {hist_f[-1]} "
                                      f"(failure injected at write #{fault}: "
                                      f"{wc.log[fault] if fault is not None and fault < len(wc.log) else '-'})",
                                      {"history": hist_f, "observed": after_load,
                                       "write": wc.log[fault] if fault is not None and fault < len(wc.log) else None})
                        continue
                    loaded = {rid(r): r for r in after_rs}
                    for k, (o_idnt, o_user, o_var, _) in stored.items():
                        if k == idd:
                            continue
                        if k not in loaded:
                            ctx.violation("rating-lost", f"rating {k} is no longer loaded after {hist_f[-1]}",
                                          {"history": hist_f})
                    originals = {k: (v[0], v[1]) for k, v in stored.items() if k != idd}
                    check_roundtrip(ctx, after_rs, originals, hist_f)
                    same_fit = idd in stored and {stored[idd][2], variant} <= {"A", "A2"}
                    if idd in stored and fault is None and res == "ok":
                        # storing the same curve again updates only the user fields
                        nv0, nv1 = before_nonuser.get(idd), nonuser_view(h5).get(idd)
                        if nv0 is not None and nv0 != nv1:
                            ch = [a for (a, v) in nv1[0] if (a, v) not in nv0[0]] + \
                                 [n for (n, v) in nv1[1] if (n, v) not in nv0[1]]
                            ctx.violation("resave-changed-stored-entry", f"storing the already stored curve {idd} again "
                                          f"(accepted) changed {ch[:6]} - only the user fields may change",
                                          {"history": hist_f, "observed": ch})
                    if idd in stored and stored[idd][2] != variant and not same_fit:
                        # different fit for an already stored curve: refused, file unchanged
                        if res != "err ValueError" and fault is None:
                            ctx.violation("different-fit-accepted",
                                          f"a different fit for the stored curve {idd} was not refused ({res})",
                                          {"history": hist_f, "observed": res})
                        if fault is None and after_dump != before_dump:
                            ctx.violation("refused-save-changed-file",
                                          "refused save changed the container", {"history": hist_f})
                    if fault is None and res == "ok":
                        # (an accepted re-save keeps the entry of the first save, with the new user fields)
                        kept = stored[idd][0] if idd in stored else idnt
                        check_roundtrip(ctx, after_rs, {idd: (kept, (name, rate, comment))}, hist_f)
                # keep the state of the un-faulted save
                if res == "ok":
                    if idd in stored:
                        stored[idd] = (stored[idd][0], (name, rate, comment), stored[idd][2], (fi, enum))
                    else:
                        stored[idd] = (idnt, (name, rate, comment), variant, (fi, enum))
                hist.append(f"save file{fi} enum{enum} fit{variant}")
        # several containers in one process: the same raw curve stored with different fits in two containers,
        # both loaded (results of the first kept while the second is loaded; a folder holding both)
        two = tdir / "two"
        two.mkdir()
        for (fi, enum) in keys[: (2 if ctx.tier == "quick" else len(keys))]:
            for va, vb in (("A", "B"), ("C", "A")):
                ha, hb = two / "a.h5", two / "b.h5"
                for h in (ha, hb):
                    if h.exists():
                        h.unlink()
                new_container(ha)
                new_container(hb)
                ia, ib = pool.get(fi, enum, va), pool.get(fi, enum, vb)
                do_save(ha, ia, 3, "ann", "first", None)
                do_save(hb, ib, 7, "bob", "second", None)
                hist2 = [f"container a: file{fi} enum{enum} fit{va}", f"container b: same curve fit{vb}",
                         "ra = load_hdf5(a); rb = load_hdf5(b); inspect ra"]
                with warnings.catch_warnings():
                    warnings.simplefilter("ignore")
                    try:
                        ra = rio.load_hdf5(ha)
                        rb = rio.load_hdf5(hb)
                        rall = rio.load(two)
                    except BaseException as e:  # noqa
                        ctx.violation("two-containers-raise", f"{hist2}: {e!r}", {"history": hist2})
                        continue
                ctx.case({"two-containers": [fi, enum, va, vb]}, nontrivial=f"two:{fi}:{enum}:{va}:{vb}",
                         bucket="stream=two-containers")
                idd = curve_desc(ia)["idd"]
                check_roundtrip(ctx, ra, {idd: (ia, ("ann", 3, "first"))}, hist2)
                check_roundtrip(ctx, rb, {idd: (ib, ("bob", 7, "second"))}, hist2 + ["inspect rb"])
                if len(rall) != 2:
                    ctx.violation("folder-load-count", f"load(folder with two containers) returned {len(rall)} "
                                  "ratings", {"history": hist2})
                else:
                    for r in rall:
                        o_ = (ia, ("ann", 3, "first")) if r["name"] == "ann" else (ib, ("bob", 7, "second"))
                        check_roundtrip(ctx, [r], {idd: o_}, hist2 + ["load(folder)"])
        # the model replays each history: expand "_restore" (the model state must be the state before
        # the faulted save, i.e. we re-run the history prefix) -> simplest: one driver session per line group
        out = run_model(ctx, lines)
        if out is not None:
            for lab, a, b_ in zip(labels, expect, out):
                if a != b_:
                    ctx.disagree({"history": lab}, a[:1500], b_[:1500])
    finally:
        shutil.rmtree(tdir, ignore_errors=True)


def run_model(ctx, lines):
    """The driver is stateful; a faulted save must start from the state before it.  We therefore
    expand the stream: before each save flagged `_restore`, replay the un-faulted saves since reset."""
    expanded, index = [], []
    hist = []
    pending = None
    for ln in lines:
        if ln.get("op") == "reset":
            hist = []
            pending = None
            expanded.append(ln)
            index.append(len(expanded) - 1)
        elif ln.get("op") == "save":
            if pending is not None and pending["fault"] is None:
                pass
            # restore: reset + replay committed history
            expanded.append({"op": "reset"})
            for h in hist:
                expanded.append(h)
            clean = {k: v for k, v in ln.items() if k != "_restore"}
            expanded.append(clean)
            index.append(len(expanded) - 1)
            pending = clean
        else:   # load
            expanded.append(ln)
            index.append(len(expanded) - 1)
            if pending is not None and pending["fault"] is None:
                # the un-faulted save is the last of its fault group: commit it if it succeeded
                hist_candidate = pending
                hist.append(hist_candidate)
                pending = None
    out = ctx.driver("C16", expanded)
    if out is None:
        return None
    # a refused un-faulted save must not be replayed as if committed: the model refuses it again and
    # leaves the state unchanged, so replaying it is harmless
    return [out[i] for i in index]


def replay(ctx, path):
    run(ctx)
    return ctx.finish()
