"""C20 – loading and quantitative maps: theorems about lean/Nanite/Model/Loading.lean (progress, one object
per curve, append precondition, pixel placement), tied to nanite.read / nanite.group / nanite.qmap by
recording the progress values of the real file readers and the maps of real groups and running the model on
the same data, plus the property oracle on the recorded files of tests/data, synthetic HDF5 files, folders
and in-memory maps of many shapes / scan orders / fit states."""
import json
import os
import math
import pathlib
import shutil
import tempfile
import warnings
import zipfile

import numpy as np

from core import TRUST_COMMON
from fitlib import q, qf
from curves import make_indentation, hertz_force

MODS = ["Nanite.Props.C20", "Nanite.Audit.C20"]
FEATS = ["fit: contact point", "fit: Young's modulus", "fit: rating"]


def data_dir():
    from nanite import poc
    return pathlib.Path(poc.__file__).resolve().parents[2] / "tests" / "data"


def curve_count(path):
    """number of recorded curves in a measurement file, determined without afmformats"""
    path = pathlib.Path(path)
    if path.suffix == ".h5":
        import h5py
        with h5py.File(path, "r") as h5:
            return len(list(h5.keys()))
    if zipfile.is_zipfile(path):
        with zipfile.ZipFile(path) as z:
            idx = {n.split("/")[1] for n in z.namelist() if n.startswith("index/") and len(n.split("/")) > 2}
            return len(idx) if idx else 1
    return 1


class RawProgress:
    """records, per file, the progress values the afmformats reader reports (before nanite rescales them)"""

    def __enter__(self):
        from nanite import read
        self.read = read
        self.orig = read.afmformats
        self.files = []
        rec = self
        orig_load = read.afmformats.load_data

        class Proxy:
            def __getattr__(self, name):
                return getattr(rec.orig, name)

            def load_data(self, path, *a, callback=None, **k):
                vals = []
                rec.files.append((str(path), vals))

                def cb(x):
                    vals.append(float(x))
                    if callback is not None:
                        callback(x)
                return orig_load(path, *a, callback=cb if callback is not None else None, **k)
        read.afmformats = Proxy()
        return self

    def __exit__(self, *a):
        self.read.afmformats = self.orig
        return False


def synth_curve(seed, n=90, spring=0.05, with_tip=False, extra_meta=None, path="synthetic.tab", enum=0, E=800.0,
                cp=0.0):
    g = np.random.default_rng(seed)
    tip_a = np.linspace(2e-6, -1e-6, n)
    tip_r = np.linspace(-1e-6, 2e-6, n // 2 + 1)[1:]
    tip = np.concatenate([tip_a, tip_r])
    force = hertz_force(tip, E=E, cp=cp) + g.normal(0, 2e-11, tip.size)
    k = spring if spring is not None else 0.05
    height = tip - force / k
    seg = np.concatenate([np.zeros(n), np.ones(tip_r.size)])
    return make_indentation(force, height, seg, spring=spring, tip=tip if with_tip else None, path=path, enum=enum,
                            extra_meta=extra_meta)


def write_h5(path, k, seed):
    """synthetic afmformats-HDF5 file with k curves"""
    import h5py
    with h5py.File(path, "w") as h5:
        for i in range(k):
            idnt = synth_curve(seed + i, enum=i, path=str(path))
            idnt.export_data(h5, fmt="hdf5")


# ----------------------------------------------------------------------------- loading
def check_progress(ctx, what, vals, rep):
    if not vals:
        ctx.violation(f"no-progress:{what}", f"{what}: the callback was never called", rep)
        return
    if any(not (0.0 <= v <= 1.0) for v in vals):
        ctx.violation(f"progress-out-of-range:{what}", f"{what}: progress values outside [0, 1]: {vals[:12]}", rep)
    if any(b_ < a for a, b_ in zip(vals, vals[1:])):
        ctx.violation(f"progress-decreases:{what}", f"{what}: progress values decrease: {vals[:16]}", rep)
    if vals[-1] != 1.0:
        ctx.violation(f"progress-does-not-end-at-1:{what}", f"{what}: last progress value is {vals[-1]!r}", rep)


def ident(dd):
    return (pathlib.Path(dd.metadata["path"]).name, int(dd.enum))


_ORDER = {}


def reader_order(root, fname):
    """enumerations of one file in the order its afmformats reader yields them (= "file order")"""
    import afmformats
    root = pathlib.Path(root)
    cands = [root] if root.is_file() else [p for p in root.rglob(fname)]
    cands = [p for p in cands if p.name == fname]
    if not cands:
        return None
    key = (str(cands[0]), cands[0].stat().st_size)
    if key not in _ORDER:
        with warnings.catch_warnings():
            warnings.simplefilter("ignore")
            try:
                _ORDER[key] = [int(d.enum) for d in afmformats.load_data(
                    cands[0], modality="force-distance", meta_override={"spring constant": 0.1, "sensitivity": 5e-8}
                    if "calibration" in fname else None)]
            except BaseException:  # noqa
                _ORDER[key] = None
    return _ORDER[key]


def load_all_ways(ctx, path, expected, meta_override=None, label=""):
    """load a file / folder through every wrapper; returns the (file, enum) sequence of load_data"""
    import nanite
    from nanite import read, group, Indentation
    rep = {"input": {"path": label or str(path), "meta_override": meta_override}}
    seqs = {}
    lacking = False
    for way in ("load_data", "load_group", "IndentationGroup", "QMap"):
        cb = []
        try:
            with warnings.catch_warnings():
                warnings.simplefilter("ignore")
                if way == "load_data":
                    data = read.load_data(path, callback=cb.append, meta_override=meta_override)
                elif way == "load_group":
                    data = list(group.load_group(path, callback=cb.append, meta_override=meta_override))
                elif way == "IndentationGroup":
                    if pathlib.Path(path).is_dir():
                        continue
                    data = list(group.IndentationGroup(path, callback=cb.append, meta_override=meta_override))
                else:
                    if pathlib.Path(path).is_dir() or expected is None or expected[1] is not True:
                        continue
                    data = list(nanite.QMap(path, callback=cb.append, meta_override=meta_override).group)
        except BaseException as e:  # noqa
            if way != "load_data" and type(e).__name__ == "MissingMetaDataError" and lacking:
                # the specified refusal: a curve with neither a spring constant nor a tip position
                ctx.case({"way": way, "path": label or pathlib.Path(path).name, "refused": True},
                         nontrivial=f"refused:{way}:{label or path}", bucket=["load=refused-as-specified"])
                continue
            ctx.violation(f"load-raises:{way}", f"{way}({label or path}) raises {type(e).__name__}: {str(e)[:120]}", rep)
            continue
        if way != "load_data" and lacking:
            ctx.violation(f"group-accepts-curve-without-spring-constant:{way}", f"{way}({label or path}) accepted a "
                          "curve that has neither a spring constant nor a tip position", rep)
        ctx.case({"way": way, "path": label or pathlib.Path(path).name, "n": len(data)},
                 nontrivial=f"{way}:{label or path}:{meta_override}", bucket=["load=" + way])
        seqs[way] = [ident(d) for d in data]
        if way == "load_data":
            lacking = any("spring constant" not in d.metadata and "tip position" not in d for d in data)
        if expected is not None and len(data) != expected[0]:
            ctx.violation(f"curve-count:{way}", f"{way}({label or path}) returned {len(data)} objects for "
                          f"{expected[0]} recorded curves", rep)
        if any(type(d) is not Indentation for d in data):
            ctx.violation(f"not-indentation:{way}", f"{way} returned objects that are not nanite.Indentation", rep)
        per_file = {}
        for f, e in seqs[way]:
            per_file.setdefault(f, []).append(e)
        for f, es in per_file.items():
            if len(set(es)) != len(es):
                ctx.violation(f"enum-not-unique:{way}", f"{way}: enumerations of {f} are not unique: {es}", rep)
            ref_order = reader_order(path, f)
            if ref_order is not None and es != ref_order:
                ctx.violation(f"not-file-order:{way}", f"{way}: curves of {f} come as {es}, the file reader yields "
                              f"{ref_order}", rep)
        check_progress(ctx, way, cb, rep)
        if meta_override:
            for d in data:
                for k, v in meta_override.items():
                    if d.metadata.get(k) != v:
                        ctx.violation(f"meta-override-ignored:{way}", f"{way}: metadata '{k}' is "
                                      f"{d.metadata.get(k)!r}, not the override {v!r}", rep)
    ref = seqs.get("load_data")
    for way, s in seqs.items():
        if ref is not None and s != ref:
            ctx.violation(f"wrappers-disagree:{way}", f"{way} and load_data return different curves / order", rep)
    return ref


def loading(ctx):
    from nanite import read
    import afmformats
    rng = ctx.rng
    d = data_dir()
    files = sorted(p for p in d.glob("fmt-*") if "calibration" not in p.name)
    maps = {p.name for p in files if p.suffix == ".jpk-force-map" and "map0d" not in p.name
            and "bad" not in p.name and "reference" not in p.name}
    single = {}
    for p in files:
        single[p.name] = load_all_ways(ctx, p, (curve_count(p), p.name in maps))
    cal = d / "fmt-jpk-cl_calibration_force-save-2015-02-04.jpk-force"
    if cal.exists():
        load_all_ways(ctx, cal, (1, False), meta_override={"spring constant": 0.123, "sensitivity": 5e-8})
    for p in rng.sample(files, 3):
        if p.suffix.startswith(".jpk"):
            load_all_ways(ctx, p, (curve_count(p), False), meta_override={"spring constant": 0.077})
    # folders (files, sub-folders, synthetic HDF5 files), with the raw reader progress recorded for the model
    lines, expect = [], []
    tdir = pathlib.Path(tempfile.mkdtemp(prefix="verif_c20_"))
    try:
        nfold = 5 if ctx.tier == "quick" else 40
        for i in range(nfold):
            # (every other folder lies below a directory whose name starts with a dot, e.g. a share mounted there)
            root = (tdir / ".afm-share" / f"folder{i}") if i % 2 else (tdir / f"folder{i}")
            (root / "sub").mkdir(parents=True)
            chosen = rng.sample(files, rng.randint(2, 5))
            if not any(c.name in maps or "reference" in c.name for c in chosen):
                chosen.append(rng.choice([p for p in files if p.name in maps]))
            rng.shuffle(chosen)
            counts = {}
            for j, src in enumerate(chosen):
                # prefixes decide the sorted position of each file (maps first, last, in between)
                name = f"{rng.choice('abcxyz')}{j}_{src.name}"
                dst = (root / "sub" / name) if rng.random() < 0.3 else (root / name)
                shutil.copy(src, dst)
                counts[name] = curve_count(src)
            for j in range(rng.randint(0, 2)):
                k = rng.choice([1, 2, 3, 11])
                name = f"{rng.choice('abmz')}h{j}.h5"
                write_h5(root / name, k, seed=rng.randrange(1 << 20))
                counts[name] = k
            total = sum(counts.values())
            with RawProgress() as rp:
                cb = []
                with warnings.catch_warnings():
                    warnings.simplefilter("ignore")
                    try:
                        data = read.load_data(root, callback=cb.append)
                    except BaseException as e:  # noqa
                        ctx.violation("folder-load-raises", f"load_data(folder) raises {e!r}",
                                      {"input": {"files": sorted(counts)}})
                        continue
            rep = {"input": {"folder": sorted(counts), "counts": counts}}
            ctx.case({"folder": sorted(counts), "curves": total}, nontrivial="folder:" + json.dumps(sorted(counts)),
                     bucket=["load=folder", f"files={len(counts)}"])
            if len(data) != total:
                ctx.violation("curve-count:folder", f"load_data(folder) returned {len(data)} objects for {total} "
                              "recorded curves", rep)
            check_progress(ctx, "load_data(folder)", cb, rep)
            order = [pathlib.Path(p).name for p, _ in rp.files]
            if order != [pathlib.Path(p).name for p in afmformats.find_data(root, modality="force-distance")]:
                ctx.violation("folder-file-order", "files are not loaded in the order afmformats.find_data lists them",
                              rep)
            seq = [ident(x) for x in data]
            want = []
            for name in order:
                want += [(name, e) for e in (reader_order(root, name) or [])]
            if seq != want:
                ctx.violation("folder-curve-order", "curves of a folder are not grouped per file in file order", rep)
            for name in order:
                if sum(1 for f, _ in seq if f == name) != counts.get(name):
                    ctx.violation("curve-count:folder-file", f"{name}: {sum(1 for f, _ in seq if f == name)} objects "
                                  f"for {counts.get(name)} recorded curves", rep)
            for p, vals in rp.files:
                if any(not (0 <= v <= 1) for v in vals) or any(b_ < a for a, b_ in zip(vals, vals[1:])):
                    ctx.notes.append(f"afmformats reader of {pathlib.Path(p).name} reports non-monotone progress "
                                     f"{vals[:8]} (assumption of c20_progress_monotone not met)")
            lines.append({"op": "progress", "files": [[q(v) for v in vals] for _, vals in rp.files]})
            expect.append(("progress", rep["input"], cb))
            lines.append({"op": "load", "files": [[f"{pathlib.Path(p).name}#{e}" for (f, e) in seq
                                                   if f == pathlib.Path(p).name] for p, _ in rp.files]})
            expect.append(("load", rep["input"], [f"{f}#{e}" for f, e in seq]))
            load_all_ways(ctx, root, (total, False), label=f"folder{i}:" + ",".join(sorted(counts)))
            # the same folder named by a relative path through its sub-folder ("..", as str and as Path)
            cwd = os.getcwd()
            try:
                os.chdir(root / "sub")
                for spelled in ("..", pathlib.Path(".."), "../sub/.."):
                    with warnings.catch_warnings():
                        warnings.simplefilter("ignore")
                        try:
                            rel = [ident(x) for x in read.load_data(spelled)]
                        except BaseException as e:  # noqa
                            rel = "raises " + repr(e)
                    ctx.case({"folder": sorted(counts), "path": str(spelled)}, nontrivial=f"rel:{i}:{spelled}",
                             bucket=["load=folder-relative-path"])
                    if rel != seq:
                        ctx.violation("relative-path-differs", f"load_data({spelled!r}) (relative to a sub-folder) returns "
                                      f"{len(rel) if isinstance(rel, list) else rel} curves, the absolute path {len(seq)}",
                                      {"input": {**rep["input"], "path": str(spelled)}})
                        break
            finally:
                os.chdir(cwd)
            shutil.rmtree(root)
    finally:
        shutil.rmtree(tdir, ignore_errors=True)
    return lines, expect


def append_precondition(ctx, lines, expect):
    from nanite import group
    from afmformats.errors import MissingMetaDataError
    for has_k in (False, True):
        for has_tip in (False, True):
            idnt = synth_curve(5, spring=0.05 if has_k else None, with_tip=has_tip)
            for how in ("append", "iadd"):
                grp = group.IndentationGroup()
                try:
                    if how == "append":
                        grp.append(idnt)
                    else:
                        grp += [idnt]
                    got = "true"
                except MissingMetaDataError:
                    got = "false"
                except BaseException as e:  # noqa
                    got = "other:" + type(e).__name__
                ctx.case({"append": how, "spring constant": has_k, "tip position": has_tip, "accepted": got},
                         nontrivial=f"append:{how}:{has_k}:{has_tip}", bucket="oracle=append")
                want = "true" if (has_k or has_tip) else "false"
                rep = {"input": {"how": how, "spring constant": has_k, "tip position": has_tip}}
                if got != want:
                    ctx.violation(f"append-precondition:{how}", f"IndentationGroup.{how}: a curve with spring constant="
                                  f"{has_k}, tip position={has_tip} gives accepted={got}", rep)
                if got == "true" and len(grp) != 1:
                    ctx.violation("append-length", "accepted curve is not in the group", rep)
                if got == "false" and (len(grp) != 0 or list(grp)):
                    ctx.violation(f"refused-curve-kept:{how}", f"IndentationGroup.{how} raised MissingMetaDataError but "
                                  f"the group now holds {len(grp)} curve(s)", rep)
                # a group that already holds a good curve: a refused one must leave it as it was
                grp2 = group.IndentationGroup()
                good = synth_curve(6, spring=0.05)
                grp2.append(good)
                try:
                    grp2.append(idnt) if how == "append" else grp2.__iadd__([idnt])
                except MissingMetaDataError:
                    pass
                except BaseException:  # noqa
                    pass
                if len(grp2) != (2 if (has_k or has_tip) else 1):
                    ctx.violation(f"group-size-after-{'accepted' if (has_k or has_tip) else 'refused'}:{how}",
                                  f"group of one curve holds {len(grp2)} curves after {how} of a curve with spring "
                                  f"constant={has_k}, tip position={has_tip}", rep)
                lines.append({"op": "append", "k": has_k, "tip": has_tip})
                expect.append(("append", rep["input"], got))


# ----------------------------------------------------------------------------- maps
def grid_meta(xn, yn, xi, yi):
    size, cx, cy = 10e-6, 3e-6, -2e-6
    px, py = size / xn, size / yn
    return {"grid center x": cx, "grid center y": cy, "grid index x": xi, "grid index y": yi,
            "grid shape x": xn, "grid shape y": yn, "grid size x": size, "grid size y": size,
            "position x": cx - size / 2 + (xi + 0.5) * px, "position y": cy - size / 2 + (yi + 0.5) * py}


def scan_order(kind, xn, yn, rng):
    pix = [(x, y) for y in range(yn) for x in range(xn)]
    if kind == "serpentine":
        pix = [(x if y % 2 == 0 else xn - 1 - x, y) for y in range(yn) for x in range(xn)]
    elif kind == "column-major":
        pix = [(x, y) for x in range(xn) for y in range(yn)]
    elif kind == "reverse":
        pix = pix[::-1]
    elif kind == "random":
        rng.shuffle(pix)
    return pix


def expected_map(curves, feat, xn, yn):
    m = np.full((yn, xn), np.nan)
    missing = 0
    for c in curves:
        idnt = c["idnt"]
        if feat == "fit: rating":
            v = np.nan if idnt._rating is None else idnt._rating[-1]
        elif not idnt.fit_properties.get("success", False):
            v = np.nan
        elif feat == "fit: contact point":
            v = idnt.fit_properties["params_fitted"]["contact_point"].value * 1e9
        else:
            v = idnt.fit_properties["params_fitted"]["E"].value
        if isinstance(v, float) and np.isnan(v):
            missing += 1
        m[c["yi"], c["xi"]] = v
    return m, missing


def observe_map(ctx, qm, curves, xn, yn, state, lines, expect, meta):
    from nanite.qmap import DataMissingWarning
    for feat in FEATS:
        want, missing = expected_map(curves, feat, xn, yn)
        with warnings.catch_warnings(record=True) as w:
            warnings.simplefilter("always")
            try:
                x, y, got = qm.get_qmap(feat)
                got2 = qm.get_qmap(feat, qmap_only=True)
            except BaseException as e:  # noqa
                ctx.violation(f"qmap-raises:{feat}", f"get_qmap({feat}) raises {e!r} ({state})", {"input": meta})
                continue
        nwarn = sum(1 for x_ in w if issubclass(x_.category, DataMissingWarning))
        rep = {"input": {**meta, "feature": feat, "state": state}, "expected": want.tolist(), "observed": got.tolist()}
        ctx.case({"shape": [xn, yn], "feature": feat, "state": state, "missing": missing},
                 nontrivial=json.dumps([meta, feat, state], default=str), bucket=["map=" + feat, "state=" + state])
        if got.shape != (yn, xn) or len(x) != xn or len(y) != yn:
            ctx.violation("qmap-shape", f"map shape {got.shape} / axes {len(x)}, {len(y)} for a {xn} x {yn} grid", rep)
            continue
        same = (np.isnan(want) & np.isnan(got)) | (want == got)
        if not np.all(same):
            yi, xi = [int(v) for v in np.argwhere(~same)[0]]
            ctx.violation(f"qmap-wrong-value:{feat}", f"{feat}: pixel (x={xi}, y={yi}) holds {got[yi, xi]!r}, the curve "
                          f"recorded there currently has {want[yi, xi]!r} ({state})", rep)
        if not np.array_equal(got, got2, equal_nan=True):
            ctx.violation("qmap-only-differs", "get_qmap(qmap_only=True) differs from the full call", rep)
        if missing and not nwarn:
            ctx.violation(f"qmap-no-warning:{feat}", f"{feat}: {missing} curves without value but no "
                          "DataMissingWarning", rep)
        if not missing and nwarn:
            ctx.violation(f"qmap-spurious-warning:{feat}", f"{feat}: DataMissingWarning although every curve has a "
                          "value", rep)
        # the same curves to the Lean model
        cs = []
        for c in curves:
            idnt = c["idnt"]
            ent = {"xi": c["xi"], "yi": c["yi"]}
            if idnt.fit_properties.get("success", False):
                ent["cp"] = q(idnt.fit_properties["params_fitted"]["contact_point"].value)
                ent["E"] = q(idnt.fit_properties["params_fitted"]["E"].value)
            if idnt._rating is not None:
                ent["rating"] = q(idnt._rating[-1])
            cs.append(ent)
        lines.append({"op": "qmap", "feature": feat, "xn": xn, "yn": yn, "curves": cs})
        expect.append(("qmap", rep["input"], got))


def maps(ctx, lines, expect):
    import nanite
    from nanite import group
    import histlib
    rng = ctx.rng
    names = ["feat_con_apr_sum", "feat_con_idt_sum", "feat_bin_size"]
    ts = histlib.tiny_training_set(3, names)
    shapes = [(1, 1), (1, 4), (3, 1), (2, 3), (4, 4), (5, 3)]
    nmaps = 4 if ctx.tier == "quick" else 30
    acts = ["fit-gcf", "rate", "refit-other", "failed-fit", "failed-refit-stale-params", "fit"]
    rng.shuffle(acts)
    next_act = [0]
    for i in range(nmaps):
        xn, yn = shapes[i % len(shapes)] if i < len(shapes) else (rng.randint(1, 6), rng.randint(1, 6))
        kind = rng.choice(["row-major", "serpentine", "column-major", "reverse", "random"])
        pix = scan_order(kind, xn, yn, rng)
        drop = rng.choice([0, 0, 1, 2]) if len(pix) > 2 else 0
        pix = [p for j, p in enumerate(pix) if j >= drop or j % 2]          # missing curves
        dup = rng.random() < 0.2 and len(pix) > 1
        if dup:
            pix.append(pix[0])                                              # two curves at one pixel
        grp = group.IndentationGroup()
        curves = []
        # (every second map has curves long enough for the rater's size criterion: non-trivial ratings)
        # (... and every third of them is short: the rater's size criterion fails, its rating is exactly 0)
        for j, (xi, yi) in enumerate(pix):
            npts = 650 if (i % 2 == 1 and j % 3 != 2) else 90
            idnt = synth_curve(rng.randrange(1 << 20), n=npts, extra_meta=grid_meta(xn, yn, xi, yi), enum=j,
                               E=rng.choice([300.0, 800.0, 2500.0]), cp=rng.choice([0.0, 1e-7, -2e-7]))
            grp.append(idnt)
            curves.append({"xi": xi, "yi": yi, "idnt": idnt})
        meta = {"shape": [xn, yn], "scan": kind, "pixels": pix, "duplicate": dup}
        try:
            qm = nanite.QMap(grp)
        except BaseException as e:  # noqa
            ctx.violation("qmap-init-raises", f"QMap(group) raises {e!r}", {"input": meta})
            continue
        if tuple(int(v) for v in qm.shape) != (xn, yn):
            ctx.violation("qmap-shape-metadata", f"QMap.shape = {qm.shape} for a {xn} x {yn} grid", {"input": meta})
        observe_map(ctx, qm, curves, xn, yn, "nothing-fitted", lines, expect, meta)
        # fit / rate / refit random subsets; the map must always show the current values
        for rnd in range(4 if ctx.tier == "quick" else 7):
            sub = [c for c in curves if rng.random() < 0.6] or curves[:1]
            # the first round fits; afterwards every kind of action comes up in turn (shuffled per run)
            act = "fit" if rnd == 0 else acts[next_act[0] % len(acts)]
            next_act[0] += rnd > 0
            # (a rating round rates every fitted curve of the map: short ones get exactly 0, long ones a value)
            for c in (curves if act == "rate" else sub):
                idnt = c["idnt"]
                with warnings.catch_warnings():
                    warnings.simplefilter("ignore")
                    try:
                        if act == "fit":
                            idnt.fit_model(model_key="hertz_para", preprocessing=["compute_tip_position",
                                                                                   "correct_tip_offset"])
                        elif act == "fit-gcf":
                            idnt.fit_model(model_key="hertz_para", gcf_k=rng.choice([0.5, 0.3183098861837907, 0.8]),
                                           preprocessing=["compute_tip_position", "correct_tip_offset"])
                        elif act == "refit-other":
                            idnt.fit_model(model_key="hertz_cone", gcf_k=1.0,
                                           preprocessing=["compute_tip_position", "correct_tip_offset"])
                        elif act == "failed-refit-stale-params":
                            # unsuccessful refit that keeps the parameters of its first internal pass
                            try:
                                idnt.fit_model(model_key="hertz_para", range_x=(-1e-12, 1e-12),
                                               range_type="relative cp",
                                               preprocessing=["compute_tip_position", "correct_tip_offset"])
                            except BaseException:  # noqa
                                pass
                        elif act == "failed-fit":
                            try:
                                idnt.fit_model(model_key="hertz_para", range_x=(1e-3, 2e-3), range_type="absolute",
                                               preprocessing=["compute_tip_position", "correct_tip_offset"])
                            except BaseException:  # noqa
                                pass
                        else:
                            if idnt.fit_properties.get("success", False):
                                # (non-default rating settings: the map shows THIS rating)
                                rv = idnt.rate_quality(regressor=rng.choice(["Extra Trees", "Decision Tree"]),
                                                       training_set=ts, names=names)
                                kk = "rating=" + ("exactly 0" if rv == 0 else ("-1" if rv == -1 else "non-trivial"))
                                ctx.dist[kk] = ctx.dist.get(kk, 0) + 1
                    except BaseException as e:  # noqa
                        ctx.notes.append(f"map action {act} raised {e!r}")
            observe_map(ctx, qm, curves, xn, yn, f"round{rnd}:{act}", lines, expect, meta)
        # every map ends with all its curves fitted and rated with non-default rating settings (another regressor,
        # an in-memory training set, a feature selection): the rating map shows exactly these ratings
        with warnings.catch_warnings():
            warnings.simplefilter("ignore")
            for c in curves:
                try:
                    c["idnt"].fit_model(model_key="hertz_para", gcf_k=1.0, range_type="absolute", range_x=(0, 0),
                                        preprocessing=["compute_tip_position", "correct_tip_offset"])
                    if c["idnt"].fit_properties.get("success", False):
                        rv = c["idnt"].rate_quality(regressor="Decision Tree", training_set=ts, names=names)
                        kk = "rating=" + ("exactly 0" if rv == 0 else ("-1" if rv == -1 else "non-trivial"))
                        ctx.dist[kk] = ctx.dist.get(kk, 0) + 1
                except BaseException as e:  # noqa
                    ctx.notes.append(f"final rating of a map curve raised {e!r}")
        observe_map(ctx, qm, curves, xn, yn, "final:all-fitted-and-rated", lines, expect, meta)
    # recorded maps: pixel placement through the scan-order core feature
    d = data_dir()
    for name in ("fmt-jpk-fd_map2x2_extracted.jpk-force-map", "fmt-jpk-fd_map1d_2016-11-07.jpk-force-map",
                 "fmt-jpk-fd_map-data-reference-points.jpk-force-map"):
        p = d / name
        if not p.exists():
            continue
        with warnings.catch_warnings():
            warnings.simplefilter("ignore")
            try:
                qm = nanite.QMap(p)
            except BaseException as e:  # noqa
                ctx.violation("qmap-file-raises", f"QMap({name}) raises {e!r}", {"input": {"file": name}})
                continue
            xn, yn = int(qm.shape[0]), int(qm.shape[1])
            curves = [{"xi": int(c.metadata["grid index x"]), "yi": int(c.metadata["grid index y"]), "idnt": c}
                      for c in qm.group]
            for c in curves[::2]:
                c["idnt"].fit_model(model_key="hertz_para", preprocessing=["compute_tip_position",
                                                                            "correct_tip_offset"])
        observe_map(ctx, qm, curves, xn, yn, "recorded:half-fitted", lines, expect, {"file": name})
        order = qm.get_qmap("data: scan order", qmap_only=True)
        for c in curves:
            if order[c["yi"], c["xi"]] != c["idnt"].enum:
                ctx.violation("qmap-recorded-placement", f"{name}: curve {c['idnt'].enum} is not at its grid pixel",
                              {"input": {"file": name}})


def run(ctx):
    ctx.trusted = TRUST_COMMON + [
        "hand-written model lean/Nanite/Model/Loading.lean of load_data (concatenation, progress rescaling), "
        "IndentationGroup.append and the three uncached QMap features + afmformats' _map_grid; tied on every run by "
        "recording the raw progress values of the real readers and the maps of real groups and executing the model on "
        "the same data",
        "the afmformats file readers (jpk, csv, HDF5), find_data ordering and the zip / HDF5 libraries are parameters "
        "of the model (a file = the list of its curves and of its progress values); that each reader reports "
        "non-decreasing progress in [0, 1] is the hypothesis of c20_progress_monotone and is measured on every run",
        "warnings and object identity (Indentation class) are observed, not modelled"]
    ctx.rule = ("every recorded file of tests/data through load_data / load_group / IndentationGroup / QMap (with and "
                "without metadata overrides); random folders (2-6 files incl. at least one multi-curve map, sub-folder, "
                "synthetic HDF5 files of 1-11 curves, random sort positions); the four spring-constant / tip-position "
                "combinations x append / +=; in-memory maps (6 fixed + random shapes x 5 scan orders x missing and "
                "duplicate pixels) x fit / geometric-correction fit / refit with another model / failed fit / unsuccessful refit with stale parameters / rating "
                "of random subsets, three features each; recorded maps; non-trivial = distinct (files, wrapper) or "
                "(map, feature, state)")
    ctx.build(MODS, clean=(ctx.tier == "thorough"))
    ctx.grep_audit()
    if ctx.tier == "thorough":
        ctx.leanchecker(["Nanite.Props.C20"])
    lines, expect = loading(ctx)
    append_precondition(ctx, lines, expect)
    maps(ctx, lines, expect)
    out = ctx.driver("C20", lines)
    if out is None:
        return
    for (op, case, impl), o in zip(expect, out):
        ctx.case({"tie": op}, bucket="tie=" + op)
        if op == "progress":
            model = [qf(t) for t in o.split(",")] if o else []
            if len(model) != len(impl) or any(not math.isclose(a, b_, rel_tol=1e-14, abs_tol=1e-15)
                                              for a, b_ in zip(model, impl)):
                ctx.disagree(case, impl[:20], model[:20], "progress values differ from (file index + x) / number of "
                             "files")
        elif op == "load":
            if o.split(",") != impl and not (o == "" and not impl):
                ctx.disagree(case, impl[:20], o[:300], "loaded sequence is not the concatenation of the files")
        elif op == "append":
            if o != impl:
                ctx.disagree(case, impl, o, "append precondition differs from the model")
        elif op == "qmap":
            rows = [r.split(",") for r in o.split(";")] if o else []
            ok = len(rows) == impl.shape[0]
            for yi, r in enumerate(rows):
                for xi, t in enumerate(r):
                    v = impl[yi, xi] if ok and xi < impl.shape[1] else None
                    if v is None or (t == "nan") != bool(np.isnan(v)) or \
                            (t != "nan" and not math.isclose(qf(t), v, rel_tol=1e-12, abs_tol=0)):
                        ok = False
            if not ok:
                ctx.disagree(case, impl.tolist(), o[:400], "quantitative map differs from the model")


def replay(ctx, path):
    run(ctx)
    return ctx.finish()
