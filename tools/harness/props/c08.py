"""C08 – contact-point estimators: theorems over an ordered field (affine invariance, valid index,
fallback) about lean/Nanite/Model/Poc.lean, tied to nanite.poc by running the model at exact rationals
on the same (integer-valued) force arrays, by recording what the three fit-based estimators hand to the
optimiser, and the property oracle on synthetic, recorded and degenerate arrays."""
import hashlib
import json
import math
import multiprocessing
import pathlib
import random
import warnings

import numpy as np

from core import TRUST_COMMON
import fitlib
from fitlib import q, qf

MODS = ["Nanite.Props.C08", "Nanite.Audit.C08"]
DIRECT = ["deviation_from_baseline", "frechet_direct_path", "gradient_zero_crossing"]
FITTED = {"fit_constant_line": 4, "fit_constant_polynomial": 6, "fit_line_polynomial": 7}
#: stated fractions of the curve length (noise-free model curves of the deterministic grid below:
#: 200-1500 samples, baseline 25-75 % of the approach part, no tilt)
STATED = {"deviation_from_baseline": 0.02, "gradient_zero_crossing": 0.08, "fit_constant_polynomial": 0.10,
          "fit_line_polynomial": 0.35, "fit_constant_line": 0.40, "frechet_direct_path": 0.45}


#: the piecewise polynomial fits represent the quadratic models (cone, pyramid: F ~ delta^2) almost exactly
#: (delta^3 / (a delta^2 + b delta + c) -> delta^2 / b for the small a, c the parameter limits allow): the stated
#: fraction for those is one percent of the curve length plus one sample (0.005 = one sample of the shortest grid
#: curve is the worst case observed over the whole grid, long recordings included)
STATED_EXACT = {(m, mk): 0.01 for m in ("fit_constant_polynomial", "fit_line_polynomial")
                for mk in ("hertz_cone", "hertz_pyr3s")}


#: kinds of arrays "with a baseline followed by an indentation" (invariance is asserted for these; the
#: degenerate kinds only have to give a valid index / the fallback without an exception)
WITH_BASELINE = ("model-grid", "random-curve", "recorded", "dwell-approach-only", "dwell-with-retract")


# ----------------------------------------------------------------------------- curves
def model_curve(mk, n, bf, depth, pidx, retract, noise=0.0, tilt=0.0, seed=0):
    """approach: baseline fraction bf of n samples, then indentation to `depth` with a shipped model"""
    rng = random.Random(1000 * pidx + 7)
    p = fitlib.truth_params(mk, rng, cp=0.0)
    p["baseline"].set(value=0.0)
    nb = int(n * bf)
    tip = np.concatenate([np.linspace(depth * bf / (1 - bf), 0, nb, endpoint=False), np.linspace(0, -depth, n - nb)])
    f = fitlib.model_force(mk, tip, p)
    fmax = f.max()
    if noise:
        f = f + np.random.default_rng(seed).normal(0, noise * fmax, n)
    if tilt:
        f = f + tilt * fmax * np.linspace(0, 1, n)
    if retract:
        f = np.concatenate([f, f[::-1][1:max(2, n // 2)] * 0.9])
    return f, nb


def grid(tier):
    out = []
    ns = [200, 400, 800, 1500]
    bfs = [0.25, 0.4, 0.5, 0.6, 0.75]
    depths = [0.4e-6, 1.2e-6]
    k = 0
    for mk in fitlib.MODELS:
        for pidx in range(3):
            for n in ns:
                for bf in bfs:
                    for depth in depths:
                        k += 1
                        if tier == "quick" and k % 6 != 0:
                            continue
                        out.append({"kind": "model-grid", "model": mk, "n": n, "bf": bf, "depth": depth, "pidx": pidx,
                                    "retract": (k % 3 != 0)})
    # long recordings (many thousand samples, early contact): the piecewise fits need their full number of
    # function evaluations there
    k = 0
    for mk in ("hertz_cone", "hertz_pyr3s", "hertz_para"):
        for n, bf in ((8000, 0.2), (12000, 0.25), (8000, 0.3), (6500, 0.25)):
            k += 1
            if tier == "quick" and k % 3 != 1:
                continue
            out.append({"kind": "model-grid", "model": mk, "n": n, "bf": bf, "depth": 1.2e-6, "pidx": 0,
                        "retract": False, "long": True})
    return out


def degenerate_arrays():
    out = []
    for n in range(1, 13):
        for p in range(n):
            a = [float(i) if i <= p else float(2 * p - i) - 0.5 for i in range(n)]
            out.append(("short-peak", {"n": n, "peak": p}, a))
    for n in (1, 2, 5, 11, 50, 500):
        for v in (0.0, 1.5, -2e-9):
            out.append(("constant", {"n": n, "v": v}, [v] * n))
    for n in (2, 3, 7, 10, 11, 60, 1000):
        out.append(("decreasing-linear", {"n": n}, list(np.linspace(1e-9, -3e-9, n))))
        out.append(("decreasing-exp", {"n": n}, list(np.exp(-np.arange(n) / max(n / 5, 1)))))
    for n in (5, 8, 9, 10, 20, 60, 61, 62, 63, 64, 70, 300):
        for ret in (False, True):
            a = list((np.arange(n) / n) ** 1.5)
            out.append(("no-baseline", {"n": n, "retract": ret}, a + (a[::-1][1:] if ret else [])))
    for k in (1, 2, 3, 9, 10, 11, 49, 100, 1100):
        out.append(("flat-then-max", {"k": k}, [0.0] * k + [1.0]))
        out.append(("step", {"k": k}, [0.0] * k + [1.0] * k + [1.5]))
        out.append(("flat-then-max-then-flat", {"k": k}, [0.25] * k + [1.0] + [0.25] * k))
    for n0, n1, n2, slope in ((500, 200, 3000, 1e-7), (50, 20, 1200, 1e-9), (100, 60, 2500, 1e-6), (500, 200, 3000, 0.0),
                              (20, 100, 5000, 1e-8), (300, 300, 900, 1e-7)):
        a = np.concatenate([np.zeros(n0), np.linspace(0, 1, n1) ** 1.5, 1 + slope * np.arange(1, n2 + 1)])
        out.append(("dwell-approach-only", {"n0": n0, "n1": n1, "n2": n2, "slope": slope}, list(a)))
        out.append(("dwell-with-retract", {"n0": n0, "n1": n1, "n2": n2, "slope": slope},
                    list(np.concatenate([a, a[::-1][:n0 + n1]]))))
    return out


# ----------------------------------------------------------------------------- evaluation (workers)
class _Rec:
    """records the data handed to lmfit.minimize by nanite.poc"""

    def __enter__(self):
        from nanite import poc
        self.poc = poc
        self.orig = poc.lmfit
        self.calls = []
        rec = self
        orig_min = poc.lmfit.minimize

        class Proxy:
            def __getattr__(self, name):
                return getattr(rec.orig, name)

            def minimize(self, fcn, params, *a, **k):
                args = k.get("args", ())
                rec.calls.append({"y": np.array(args[1], copy=True), "x0": float(params["x0"].value),
                                  "method": k.get("method")})
                return orig_min(fcn, params, *a, **k)
        poc.lmfit = Proxy()
        return self

    def __exit__(self, *a):
        self.poc.lmfit = self.orig
        return False


def one(force, method, raw=False):
    """compute_poc -> (result, clipped size, raw estimate, optimiser input)"""
    from nanite import poc
    force = np.asarray(force, dtype=float)
    f0 = force.copy()
    with _Rec() as rec, warnings.catch_warnings():
        warnings.simplefilter("ignore")
        try:
            cp = poc.compute_poc(force, method)
            if not (isinstance(cp, (int, np.integer)) or (isinstance(cp, (float, np.floating)) and float(cp).is_integer())):
                res = "not-an-integer:" + repr(cp)
            else:
                res = int(cp)
        except BaseException as e:  # noqa
            res = "exc:" + type(e).__name__ + ":" + str(e)[:80]
        est = None
        if raw:
            try:
                clipped = poc.compute_preproc_clip_approach(force)
                mf = [m for m in poc.POC_METHODS if m.identifier == method][0]
                n0 = len(rec.calls)
                r = mf(clipped)
                del rec.calls[n0:]
                est = ("nan" if np.isnan(r) else int(r), int(clipped.size))
            except BaseException as e:  # noqa
                est = ("exc:" + type(e).__name__, -1)
        # the same request with ret_details=True (the other public form of the call)
        det = None
        if raw:
            try:
                n0 = len(rec.calls)
                out = poc.compute_poc(force, method, ret_details=True)
                del rec.calls[n0:]
                cpd, details = out
                if not isinstance(details, dict) or details.get("method") != method:
                    det = "bad-details:" + repr(type(details).__name__)
                elif isinstance(res, int) and int(cpd) != res:
                    det = f"index-differs:{int(cpd)}"
            except BaseException as e:  # noqa
                det = "exc:" + type(e).__name__ + ":" + str(e)[:80]
    mod = not np.array_equal(force, f0)
    y = rec.calls[0]["y"] if rec.calls else None
    x0 = rec.calls[0]["x0"] if rec.calls else None
    return res, est, y, x0, mod, det


def transforms(rng, fscale):
    t = [("pow2", 2.0 ** rng.randint(-40, 40), 0.0), ("pow2", 2.0 ** rng.choice([-30, -3, 1, 10, 30]), 0.0),
         ("factor", rng.choice([3.0, 0.1, 1e9, 1e-3, 3.7, rng.uniform(0.05, 50)]), 0.0),
         ("offset", 1.0, fscale * rng.choice([1.0, -1.0, 0.37, -2.5, 100.0, rng.uniform(-3, 3)])),
         ("factor+offset", rng.uniform(0.1, 1e3), fscale * rng.uniform(-2, 2)),
         # a constant far above the signal (set-point / deflection offset of raw data): binary64 still resolves the
         # curve to ~1e-11 of its amplitude; judged for the three direct estimators only
         ("offset-large", 1.0, fscale * rng.choice([1.0, -1.0]) * 2.0 ** rng.choice([17, 18, 20]))]
    return t


def transformed(force, m, kind, a, b_, y, x0):
    r2, _, y2, x02, _, _ = one(a * force + b_, m)
    ydiff = None
    if y is not None and y2 is not None and y.shape == y2.shape:
        ydiff = float(np.max(np.abs(y - y2))) if y.size else 0.0
    elif (y is None) != (y2 is None):
        ydiff = "one-side-only"
    return {"kind": kind, "a": a, "b": b_, "res": r2, "ydiff": ydiff,
            "x0same": (x0 == x02) if (x0 is not None and x02 is not None) else None}


def work(job):
    """one force array x all estimators x transforms"""
    force = np.asarray(job["force"], dtype=float)
    rng = random.Random(job["seed"])
    fscale = float(np.max(np.abs(force))) if force.size and np.max(np.abs(force)) > 0 else 1.0
    out = []
    for m in job["methods"]:
        res, est, y, x0, mod, det = one(force, m, raw=True)
        tr = []
        for kind, a, b_ in (transforms(rng, fscale) if job.get("transforms", True) else []) + job.get("extra_tr", []):
            tr.append(transformed(force, m, kind, a, b_, y, x0))
        out.append({"method": m, "res": res, "est": est, "mod": mod, "tr": tr, "det": det,
                    "y": None if y is None or not job.get("keep_y") else [float(v) for v in y], "x0": x0})
    return out


# ----------------------------------------------------------------------------- the oracle
def judge(ctx, meta, force, results, truth=None):
    n = len(force)
    for r in results:
        m = r["method"]
        rep = {"input": {**meta, "method": m, "force": [float(v) for v in force] if n <= 20000 else "see meta"}}
        res = r["res"]
        shape = meta.get("kind", "?")
        if isinstance(res, str):
            ctx.violation(f"raises:{m}:{shape}", f"compute_poc(method={m}) on a '{shape}' array of {n} samples: {res} "
                          "(the documented fallback to the middle of the data should apply)", rep)
            continue
        if not (0 <= res < max(n, 1)):
            ctx.violation(f"index-out-of-range:{m}", f"{m} returned index {res} for an array of {n} samples "
                          f"({shape})", rep)
        if r.get("det"):
            ctx.violation(f"ret_details:{m}:{r['det'].split(':')[0]}", f"compute_poc(method={m}, ret_details=True) on a "
                          f"'{shape}' array of {n} samples: {r['det']} (plain call: {res})", rep)
        if r["mod"]:
            ctx.violation(f"input-modified:{m}", f"{m} modified the force array it was given", rep)
        est = r["est"]
        if est and est[0] == "nan" and res != est[1] // 2:
            ctx.violation(f"fallback-not-centre:{m}", f"{m} gave NaN but compute_poc returned {res}, not the centre "
                          f"{est[1] // 2} of the {est[1]} samples it was given", rep)
        if est and isinstance(est[0], int) and res != est[0]:
            ctx.violation(f"estimate-not-returned:{m}", f"{m} estimated {est[0]} but compute_poc returned {res}", rep)
        for t in (r["tr"] if shape in WITH_BASELINE else []):
            if t["kind"] == "offset-large" and m in FITTED:
                continue
            r2 = t["res"]
            rep2 = {"input": {**rep["input"], "transform": {k: t[k] for k in ("kind", "a", "b")}},
                    "expected": res, "observed": r2}
            if isinstance(r2, str):
                ctx.violation(f"raises-after-{t['kind']}:{m}", f"{m}: {r2} after force -> {t['a']!r}*force + {t['b']!r}",
                              rep2)
                continue
            lim = 0 if t["kind"] == "pow2" else 1
            if abs(r2 - res) > lim and t["kind"] != "pow2" and m in FITTED and isinstance(t["ydiff"], float) \
                    and t["ydiff"] <= 1e-12 and t["x0same"]:
                # the optimiser was handed the same start index and the same normalised force up to binary64
                # rounding (the theorem's hypothesis holds up to rounding) and still ends elsewhere
                ctx.violation(f"optimiser-amplifies-rounding:{m}",
                              f"{m}: index {res} becomes {r2} when the force is mapped to {t['a']!r}*force + "
                              f"{t['b']!r}; the normalised force handed to Nelder-Mead differs by {t['ydiff']:.1e} "
                              f"only ({shape}, {n} samples)", rep2)
            elif abs(r2 - res) > lim:
                ctx.violation(f"not-invariant:{t['kind']}:{m}",
                              f"{m}: index {res} becomes {r2} when the force is mapped to {t['a']!r}*force + "
                              f"{t['b']!r} ({shape}, {n} samples)", rep2)
            if t["kind"] == "pow2" and t["ydiff"] not in (None, 0.0):
                ctx.violation(f"optimiser-input-differs:{m}", f"{m}: the normalised force handed to the optimiser "
                              f"changes ({t['ydiff']}) under a power-of-two factor", rep2)
        if truth is not None and not isinstance(res, str):
            frac = abs(res - truth) / meta["n"]
            stated = STATED[m]
            if (m, meta.get("model")) in STATED_EXACT:
                stated = STATED_EXACT[(m, meta.get("model"))] + 1.0 / meta["n"]
            if frac > stated:
                ctx.violation(f"inaccurate:{m}", f"{m}: estimate {res} is {frac:.3f} of the curve length away from the "
                              f"true contact {truth} on a noise-free {meta.get('model')} curve (stated: "
                              f"{stated:.4f})", {**rep, "expected": truth, "observed": res})


def quantise(force, bits=20):
    """integer-valued copy (exact in binary64 and as a rational)"""
    f = np.asarray(force, dtype=float)
    s = np.max(np.abs(f)) if f.size and np.max(np.abs(f)) > 0 else 1.0
    return np.round(f / s * (1 << bits))


def stable(force, method, base):
    """is numpy's own answer insensitive to rounding-level changes of the input?"""
    f = np.asarray(force, dtype=float)
    ptp = float(np.ptp(f)) if f.size else 1.0
    g = np.random.default_rng(0)
    for v in (f * 3.0, f * 0.7, f + 0.37 * (ptp or 1.0), f * (1 + 1e-13 * g.standard_normal(f.size))):
        if one(v, method)[0] != base:
            return False
    return True


# ----------------------------------------------------------------------------- run
def run(ctx):
    ctx.trusted = TRUST_COMMON + [
        "hand-written model lean/Nanite/Model/Poc.lean of compute_preproc_clip_approach, compute_poc, "
        "poc_deviation_from_baseline, poc_frechet_direct_path, poc_gradient_zero_crossing (incl. "
        "scipy.ndimage.uniform_filter1d mode=reflect and np.gradient) and of the guard / normalisation / "
        "acceptance logic around the optimiser of the three fit-based estimators; tied on every run by executing "
        "the model at exact rationals on integer-valued force arrays and by recording the arrays handed to "
        "lmfit.minimize",
        "the optimiser (lmfit, Nelder-Mead) is a parameter of the model: the theorems hold for every optimiser "
        "that sees only the normalised force and the start index; its determinism is runtime behaviour",
        "floating point: the theorems are over ordered fields; power-of-two factors are exact in binary64, other "
        "factors and offsets round - the 'within one sample' part and the accuracy fractions are explored by the "
        "oracle, not proved"]
    ctx.rule = ("deterministic grid of noise-free curves (5 shipped models x 3 parameter sets x 4 lengths x 5 baseline "
                "fractions x 2 depths, with / without retract part) for the accuracy fractions; random curves with "
                "noise, tilt, offsets; degenerate arrays (every short array shape n<=12 x peak position, constant, "
                "decreasing, no baseline, flat-then-maximum, dwell plateaus); recorded curves of tests/data; each x "
                "six estimators x power-of-two factors, other factors, offsets; non-trivial = distinct (array, "
                "estimator)")
    ctx.build(MODS, clean=(ctx.tier == "thorough"))
    ctx.grep_audit()
    if ctx.tier == "thorough":
        ctx.leanchecker(["Nanite.Props.C08"])
    from nanite import poc
    methods = [m.identifier for m in poc.POC_METHODS]
    for m in set(DIRECT) | set(FITTED):
        if m not in methods:
            ctx.violation(f"estimator-missing:{m}", f"estimator {m} is no longer registered", {"input": {"method": m}})
    for m in methods:
        if "clip_approach" not in [f for f in poc.POC_METHODS if f.identifier == m][0].preprocessing:
            ctx.notes.append(f"{m} does not clip the approach part (model assumes it does)")
    rng = ctx.rng
    jobs, metas = [], []

    def add(meta, force, truth=None, tr=True, keep_y=False, extra_tr=None):
        jobs.append({"force": list(map(float, force)), "methods": methods, "seed": rng.randrange(1 << 30),
                     "transforms": tr, "keep_y": keep_y, "extra_tr": extra_tr or []})
        metas.append((meta, truth))

    # 0. the recorded inputs of the known findings run first (they must still fail the same way)
    known = json.loads((pathlib.Path(__file__).resolve().parents[3] / "known_findings.json").read_text())
    for k in known.get("findings", []):
        g = k.get("input")
        if k["property"] == "C08" and g and g.get("kind") == "random-curve":
            f, nb = model_curve(g["model"], g["n"], g["bf"], g["depth"], g["pidx"], g["retract"], g["noise"], g["tilt"],
                                g["seed"])
            add({k_: v for k_, v in g.items() if k_ not in ("method", "factors", "offsets")}, f + g["offset"], tr=False,
                extra_tr=[("factor", a, 0.0) for a in g.get("factors", [])] +
                         [("offset", 1.0, b__) for b__ in g.get("offsets", [])])

    # 1. accuracy grid (deterministic)
    for g in grid(ctx.tier):
        f, nb = model_curve(g["model"], g["n"], g["bf"], g["depth"], g["pidx"], g["retract"])
        add(g, f, truth=nb, tr=(ctx.tier == "thorough" or len(jobs) % 4 == 0))
    # 2. random curves with noise / tilt / offset
    for i in range(40 if ctx.tier == "quick" else 1500):
        mk = rng.choice(fitlib.MODELS)
        meta = {"kind": "random-curve", "model": mk, "n": rng.choice([30, 60, 120, 250, 500, 1000, 3000]),
                "bf": rng.uniform(0.1, 0.9), "depth": rng.uniform(0.1e-6, 2e-6), "pidx": rng.randint(0, 50),
                "retract": rng.random() < 0.7, "noise": rng.choice([0, 1e-4, 1e-3, 1e-2, 5e-2]),
                "tilt": rng.choice([0, 0, 0.02, -0.05, 0.3]), "seed": rng.randrange(1 << 30)}
        f, nb = model_curve(mk, meta["n"], meta["bf"], meta["depth"], meta["pidx"], meta["retract"], meta["noise"],
                            meta["tilt"], meta["seed"])
        off = rng.choice([0.0, 0.0, f.max() * rng.uniform(-5, 5)])
        meta["offset"] = off
        add(meta, f + off)
    # 3. degenerate arrays
    for kind, par, a in degenerate_arrays():
        add({"kind": kind, **par, "n": len(a)}, a, tr=len(a) < 3000)
    # 4. recorded curves
    data = pathlib.Path(poc.__file__).resolve().parents[2] / "tests" / "data"
    files = sorted(data.glob("fmt-jpk-fd_s*.jpk-force"))
    if files:
        import nanite
        with warnings.catch_warnings():
            warnings.simplefilter("ignore")
            for fpath in (files if ctx.tier == "thorough" else files[:3]):
                try:
                    grp = nanite.IndentationGroup(fpath)
                    idnt = grp[0]
                    force = np.array(idnt["force"], copy=True)
                except BaseException as e:  # noqa
                    ctx.notes.append(f"recorded curve {fpath.name} not loadable: {e!r}")
                    continue
                add({"kind": "recorded", "file": fpath.name, "n": int(force.size)}, force)
                # observation point Indentation.estimate_contact_point_index
                for m in methods:
                    try:
                        a = idnt.estimate_contact_point_index(m)
                        b_ = poc.compute_poc(force, m)
                    except BaseException as e:  # noqa
                        ctx.violation(f"raises:{m}:recorded", f"estimate_contact_point_index({m}) raises "
                                      f"{type(e).__name__}: {e} on the recorded curve {fpath.name}",
                                      {"input": {"file": fpath.name, "method": m}})
                        continue
                    ctx.case({"oracle": "estimate_contact_point_index", "file": fpath.name, "method": m},
                             nontrivial=f"ecpi:{fpath.name}:{m}", bucket="oracle=estimate_contact_point_index")
                    if a != b_:
                        ctx.violation(f"indentation-wrapper-differs:{m}", f"estimate_contact_point_index({m}) = {a} "
                                      f"but compute_poc on the force column = {b_}", {"input": {"file": fpath.name}})
    else:
        ctx.notes.append("tests/data recorded curves not found")
    with multiprocessing.Pool(14) as pool:
        results = pool.map(work, jobs, chunksize=2)
    for (meta, truth), job, res in zip(metas, jobs, results):
        for r in res:
            ctx.case({**{k: v for k, v in meta.items()}, "method": r["method"], "result": r["res"]},
                     nontrivial=hashlib.sha1(json.dumps([job["force"][:50], len(job["force"]), r["method"]]).encode()
                                             ).hexdigest(),
                     bucket=["kind=" + meta["kind"], "method=" + r["method"],
                             "estimate=" + ("nan" if r["est"] and r["est"][0] == "nan" else "index")])
        judge(ctx, meta, job["force"], res, truth=truth if meta["kind"] == "model-grid" else None)

    # 4b. other element types: the same values as int64 / int32 / uint16 (ADC counts) / float32 arrays
    from nanite import poc as _poc
    cand = [i for i, j in enumerate(jobs) if metas[i][0]["kind"] in ("model-grid", "random-curve") and
            len(j["force"]) <= 1000][: (6 if ctx.tier == "quick" else 60)]
    for i in cand:
        F = quantise(jobs[i]["force"], bits=14)
        F = F - F.min()
        for m in methods:
            ref = one(F.astype(np.float64), m)[0]
            for dt in (np.int64, np.int32, np.uint16, np.float32):
                arr = F.astype(dt)
                a0 = arr.copy()
                with warnings.catch_warnings():
                    warnings.simplefilter("ignore")
                    try:
                        got = int(_poc.compute_poc(arr, m))
                    except BaseException as e:  # noqa
                        got = "exc:" + type(e).__name__ + ":" + str(e)[:80]
                ctx.case({"dtype": np.dtype(dt).name, "method": m, "kind": metas[i][0]["kind"]},
                         nontrivial=f"dtype:{np.dtype(dt).name}:{m}:{i}", bucket=["dtype=" + np.dtype(dt).name])
                rep = {"input": {**metas[i][0], "method": m, "dtype": np.dtype(dt).name,
                                 "force": [int(v) for v in F]}, "expected": ref, "observed": got}
                if isinstance(got, str):
                    ctx.violation(f"raises:{m}:dtype", f"compute_poc({m}) on a {np.dtype(dt).name} array raises {got} "
                                  f"(the same values as float64 give {ref})", rep)
                elif dt is np.float32:
                    # (single precision changes the arithmetic itself: only "an index, no exception" is asserted)
                    if not (0 <= got < len(F)):
                        ctx.violation(f"index-out-of-range:{m}:float32", f"{m} returned {got} for {len(F)} samples", rep)
                elif isinstance(ref, int) and got != ref:
                    ctx.violation(f"dtype-dependent:{m}", f"compute_poc({m}) gives {got} on a {np.dtype(dt).name} array "
                                  f"and {ref} on the same values as float64", rep)
                if not np.array_equal(arr, a0):
                    ctx.violation(f"input-modified:{m}:dtype", f"{m} modified the {np.dtype(dt).name} array", rep)
    # 5. correspondence with the Lean model on integer-valued arrays
    s, c = math.sin(-math.pi / 4), math.cos(-math.pi / 4)
    consts = {"s": q(s), "c": q(c), "c01": q(0.01)}
    lines, expect = [], []
    pool_idx = [i for i, j in enumerate(jobs) if 1 <= len(j["force"]) <= (400 if ctx.tier == "quick" else 1300)]
    rng.shuffle(pool_idx)
    degenerate_first = [i for i in pool_idx if metas[i][0]["kind"] not in ("model-grid", "random-curve", "recorded")]
    others = [i for i in pool_idx if i not in set(degenerate_first)]
    chosen = degenerate_first[: (60 if ctx.tier == "quick" else 200)] + others[: (40 if ctx.tier == "quick" else 250)]
    for i in chosen:
        F = quantise(jobs[i]["force"])
        # an exactly flat baseline stays exactly flat; add variants with an integer offset
        if rng.random() < 0.3:
            F = F + float(rng.randint(-5000, 5000))
        fq = [str(int(v)) for v in F]
        for m in DIRECT:
            res, est, _, _, _, _ = one(F, m, raw=True)
            lines.append({"op": "poc", "method": m, "force": fq, **consts})
            expect.append(("poc", i, m, F, res, est))
        lines.append({"op": "margin", "force": fq, **consts})
        expect.append(("margin", i, None, F, None, None))
        for m, minsize in FITTED.items():
            res, est, y, x0, _, _ = one(F, m, raw=True)
            lines.append({"op": "norm", "force": fq, **consts})
            expect.append(("norm", i, m, F, (res, minsize), (y, x0)))
    out = ctx.driver("C08", lines)
    if out is not None:
        margin = {}
        for (op, i, m, F, res, est), o in zip(expect, out):
            if op == "margin":
                margin[i] = o
        for (op, i, m, F, res, est), o in zip(expect, out):
            meta = metas[i][0]
            case = {"kind": meta["kind"], "n": len(F), "method": m, "meta": {k: v for k, v in meta.items() if k != "force"}}
            if op == "poc":
                ctx.case({"correspondence": m, "kind": meta["kind"], "n": len(F)},
                         nontrivial=hashlib.sha1((m + json.dumps(list(F[:60])) + str(len(F))).encode()).hexdigest(),
                         bucket=["tie=" + m])
                parts = dict(p.split("=") for p in o.split())
                impl = f"clip={est[1]} est={est[0]} poc={res}"
                if impl != o:
                    if m == "gradient_zero_crossing":
                        mg = margin.get(i, "none")
                        if mg not in ("none", "zero") and qf(mg) < 1e-9:
                            ctx.dist["tie=ill-conditioned"] = ctx.dist.get("tie=ill-conditioned", 0) + 1
                            continue
                    if isinstance(res, int) and not stable(F, m, res):
                        ctx.dist["tie=ill-conditioned"] = ctx.dist.get("tie=ill-conditioned", 0) + 1
                        continue
                    ctx.disagree({**case, "force": [int(v) for v in F]}, impl, o,
                                 f"{m}: nanite.poc and the Lean model differ on the same integer-valued array")
            elif op == "norm":
                (r, minsize), (y, x0) = res, est
                ctx.case({"correspondence": "optimiser-input:" + m, "kind": meta["kind"], "n": len(F)},
                         bucket=["tie=optimiser-input"])
                clip = int(np.argmax(F)) if len(F) else 0
                should_call = clip > minsize and o != "none"
                if (y is not None) != should_call:
                    ctx.disagree({**case, "force": [int(v) for v in F]},
                                 "optimiser called" if y is not None else "optimiser not called",
                                 "guard passes" if should_call else "guard rejects",
                                 f"{m}: size / degeneracy guard differs from the model (fitBased)")
                    continue
                if y is None:
                    continue
                x0m, ym = o.split(" y=")
                ym = [qf(t) for t in ym.split(",")] if ym else []
                x0m = x0m.split("=")[1]
                if len(ym) != len(y) or (len(y) and float(np.max(np.abs(np.array(ym) - y))) > 1e-14):
                    ctx.disagree({**case, "force": [int(v) for v in F]}, "recorded y", "normalise (clip force)",
                                 f"{m}: the array handed to the optimiser is not the normalised clipped force")
                x0_expect = len(y) // 2 if x0m == "nan" else int(x0m)
                if int(x0) != x0_expect and stable(F, "frechet_direct_path", one(F, "frechet_direct_path")[0]):
                    ctx.disagree({**case, "force": [int(v) for v in F]}, x0, x0m,
                                 f"{m}: the start index handed to the optimiser is not the Fréchet estimate")
    ctx.extra["stated_fractions"] = STATED


def replay(ctx, path):
    rec = json.loads(pathlib.Path(path).read_text())
    inp = rec.get("input", {})
    if "force" not in inp or not isinstance(inp["force"], list):
        run(ctx)
        return ctx.finish()
    ctx.build(MODS)
    m = inp["method"]
    t = inp.get("transform")
    job = {"force": inp["force"], "methods": [m], "seed": 1, "transforms": True,
           "extra_tr": [(t["kind"], t["a"], t["b"])] if t else []}
    res = work(job)
    truth = rec.get("expected") if rec.get("signature", "").startswith("inaccurate") else None
    judge(ctx, {k: v for k, v in inp.items() if k not in ("force", "method", "transform")}, inp["force"], res,
          truth=truth)
    ctx.case({"replay": str(path)}, nontrivial="replay")
    return ctx.finish()
