"""C14 – preprocessing order rules / autosort (exhaustive in both tiers)."""
import itertools
import json

from core import TRUST_COMMON

MODS = ["Nanite.Props.C14", "Nanite.Witness.C14", "Nanite.Audit.C14"]


def impl(op, names):
    from nanite import preproc
    try:
        if op == "autosort":
            return "ok " + json.dumps(preproc.autosort(list(names)))
        if op == "check":
            preproc.check_order(list(names))
            return "ok"
        if op == "available":
            return "ok " + json.dumps(preproc.available())
    except KeyError:
        return "err KeyError"
    except ValueError:
        return "err ValueError"
    except BaseException as e:  # noqa
        return "err other:" + type(e).__name__


def impl_apply(names, via="identifiers"):
    """acceptance part of preproc.apply, run on a tiny synthetic curve so that accepted lists
    really execute (options are left at their defaults); `via`: positional / keyword `identifiers`, the
    deprecated keyword `preproc_names`, or the public Indentation.apply_preprocessing"""
    from curves import tiny_curve
    import warnings
    idnt = tiny_curve()
    if via == "recorded-tip-position":
        # a recording that already holds a "tip position" column (e.g. exported after tip-sample separation
        # and loaded again): the order rules are about the list, not about the columns of the data
        from curves import make_indentation
        import numpy as np
        f_, h_, s_ = (np.asarray(idnt[c]) for c in ("force", "height (measured)", "segment"))
        idnt = make_indentation(f_, h_, s_, tip=h_ - f_ / 0.05)
        assert "tip position" in idnt.columns_innate
    from nanite import preproc
    try:
        with warnings.catch_warnings():
            warnings.simplefilter("ignore")
            if via == "identifiers":
                preproc.apply(idnt, list(names), options={})
            elif via == "preproc_names":
                preproc.apply(idnt, preproc_names=list(names), options={})
            elif via == "keyword":
                preproc.apply(apret=idnt, identifiers=list(names), options={})
            elif via == "recorded-tip-position":
                preproc.apply(idnt, list(names), options={})
            elif via == "indentation-tuple":
                idnt.apply_preprocessing(tuple(names), options={})
            elif via == "identifiers-tuple":
                preproc.apply(idnt, tuple(names), options={})
            elif via == "indentation-twice":
                # the same request repeated on the same curve: the verdict of the second call counts
                try:
                    idnt.apply_preprocessing(list(names), options={})
                except BaseException:  # noqa
                    pass
                idnt.apply_preprocessing(list(names), options={})
            elif via == "fit_model-twice":
                import nanite.fit as nfit
                for last in (False, True):
                    try:
                        idnt.fit_model(preprocessing=list(names), model_key="hertz_para")
                    except (KeyError, ValueError):
                        if last:
                            raise
                    except (nfit.FitKeyError, nfit.FitDataError, IndexError):
                        pass          # the list was accepted, the (tiny) curve cannot be fitted
            else:
                idnt.apply_preprocessing(list(names), options={})
        return "ok"
    except KeyError:
        return "err KeyError"
    except ValueError:
        return "err ValueError"
    except BaseException as e:  # noqa
        return "err other:" + type(e).__name__


def oracle(ctx, steps, req, opt, sel):
    """the property statement evaluated directly on the implementation for one selection"""
    from nanite import preproc
    sel = list(sel)
    closed = all(r in sel for p in sel for r in req[p])
    if not closed:
        return
    try:
        out = preproc.autosort(list(sel))
    except BaseException as e:  # noqa
        ctx.violation(f"autosort-raises:{','.join(sel)}",
                      f"autosort raises {type(e).__name__} on the requirement-closed selection {sel}",
                      {"input": sel, "expected": "a valid permutation", "observed": repr(e)})
        return
    if sorted(out) != sorted(sel):
        ctx.violation(f"autosort-not-perm:{','.join(sel)}", f"autosort({sel}) is not a permutation",
                      {"input": sel, "observed": out})
        return
    try:
        preproc.check_order(out)
    except BaseException as e:  # noqa
        ctx.violation(f"autosort-invalid:{','.join(sel)}", f"autosort({sel}) fails check_order",
                      {"input": sel, "observed": out})
        return
    for i, p in enumerate(out):
        for r in req[p]:
            if out.index(r) > i:
                ctx.violation(f"order:{','.join(sel)}", "required step after its user",
                              {"input": sel, "observed": out})
        for o in opt[p]:
            if o in out and out.index(o) > i:
                ctx.violation(f"order:{','.join(sel)}", "optional predecessor after its user",
                              {"input": sel, "observed": out})
    try:
        if preproc.autosort(list(out)) != out:
            ctx.violation(f"idempotent:{','.join(sel)}", "autosort not idempotent",
                          {"input": sel, "observed": out})
    except BaseException as e:  # noqa
        ctx.violation(f"idempotent:{','.join(sel)}", "autosort of its own output raises",
                      {"input": sel, "observed": repr(e)})


def run(ctx):
    ctx.trusted = TRUST_COMMON + [
        "hand-written model lean/Nanite/Model/Order.lean of autosort/check_order/apply "
        "(tied by exhaustive correspondence over all selections of the shipped steps)",
        "tools/py2lean table dump of nanite.preproc.PREPROCESSORS (identifier, steps_required, "
        "steps_optional)"]
    ctx.rule = ("all ordered duplicate-free selections of the shipped steps (exhaustive) through "
                "autosort/check_order/apply of implementation and Lean model, plus lists with unknown "
                "or repeated identifiers; non-trivial = distinct selection with >= 2 steps")
    ok_gen = ctx.gen(["preproc"])
    ctx.build(MODS, clean=(ctx.tier == "thorough"))
    ctx.grep_audit()
    if ctx.tier == "thorough":
        ctx.leanchecker(["Nanite.Props.C14", "Nanite.Witness.C14"])
    from nanite import preproc
    for fn in (preproc.available, getattr(preproc, "_available", None)):
        if hasattr(fn, "cache_clear"):
            fn.cache_clear()
    steps = [f.identifier for f in preproc.PREPROCESSORS]
    req = {f.identifier: list(f.steps_required or []) for f in preproc.PREPROCESSORS}
    opt = {f.identifier: list(f.steps_optional or []) for f in preproc.PREPROCESSORS}
    idx = {n: i for i, n in enumerate(steps)}
    sels = [list(p) for k in range(len(steps) + 1) for p in itertools.permutations(steps, k)]
    extra = []
    rng = ctx.rng
    n_extra = 300 if ctx.tier == "quick" else 3000
    pool = steps + ["bogus_step", "compute_tip", ""]
    for _ in range(n_extra):
        k = rng.randint(1, 7)
        extra.append([rng.choice(pool) for _ in range(k)])
    # lists that name a step twice: the first occurrence in front of its required step, the second behind it
    for p_ in steps:
        for r_ in req[p_]:
            pre_ = [q_ for q_ in req[r_]]
            extra.append(pre_ + [p_, r_, p_])
            extra.append(pre_ + [p_, r_, p_, r_])
    cases = []
    for s in sels + extra:
        for op in ("autosort", "check", "apply"):
            cases.append((op, s))
    cases.append(("available", []))

    def enc(names):
        return [idx.get(n, 100 + (hash(n) % 50 if False else pool.index(n) if n in pool else 99))
                for n in names]
    lines = [{"op": op, "ids": enc(s)} for op, s in cases]
    out = ctx.driver("C14", lines) if ok_gen else None

    def dec(line):
        # model output uses indices; translate back to names for comparison
        if line.startswith("ok ["):
            ids = json.loads(line[3:])
            return "ok " + json.dumps([steps[i] if i < len(steps) else pool[i - 100] for i in ids])
        return line
    for n, (op, s) in enumerate(cases):
        got = impl_apply(s) if op == "apply" else impl(op, s)
        nt = None
        if len(s) >= 2:
            nt = op + ":" + ",".join(s)
        ctx.case({"op": op, "ids": s, "impl": got}, nontrivial=nt,
                 bucket=[f"op={op}", f"len={len(s)}", "impl=" + got.split(" [")[0]])
        if out is not None:
            m = dec(out[n])
            if m != got:
                ctx.disagree({"op": op, "ids": s}, got, m)
    # search / oracle: the property statement on the implementation, exhaustive
    for s in sels:
        oracle(ctx, steps, req, opt, s)
    # the lists handed out belong to the caller: editing them must not change what a later call returns
    sample = [s for s in sels if len(s) >= 2]
    for s in rng.sample(sample, 60 if ctx.tier == "quick" else 600) + [list(steps)]:
        try:
            r1 = preproc.autosort(list(s))
        except BaseException:  # noqa
            continue
        keep = list(r1)
        r1.reverse()
        r1.append("bogus_step")
        r2 = preproc.autosort(list(s))
        ctx.case({"op": "autosort-after-edit", "ids": s}, nontrivial="edit:" + ",".join(s), bucket="op=result-edited")
        if r2 != keep:
            ctx.violation("autosort-result-shared", f"autosort({s}) returned {keep}; after the caller edited that "
                          f"list in place the same call returns {r2}", {"input": s, "observed": r2, "expected": keep})
            break
    a1 = preproc.available()
    keep = list(a1)
    a1.reverse()
    a1.pop()
    a2 = preproc.available()
    ctx.case({"op": "available-after-edit"}, nontrivial="edit:available", bucket="op=result-edited")
    if a2 != keep:
        ctx.violation("available-result-shared", f"available() returned {keep}; after the caller edited that list in "
                      f"place available() returns {a2}", {"history": ["a = available()", "a.reverse(); a.pop()",
                                                                     "available()"], "observed": a2, "expected": keep})
        del a1[:]
        a1.extend(keep)           # (restore the shared object for the rest of the run)
    # available() itself valid
    try:
        preproc.check_order(preproc.available())
    except BaseException as e:  # noqa
        ctx.violation("available-invalid", "available() fails check_order", {"observed": repr(e)})
    # apply acceptance iff required steps earlier (oracle on implementation)
    for s in sels + extra:
        exp_ok = all(p in steps for p in s) and all(r in s[:i] for i, p in enumerate(s) if p in req
                                                    for r in req[p])
        # every way of handing the list in gives the same verdict
        for via in ("preproc_names", "keyword", "indentation", "indentation-twice", "fit_model-twice",
                    "indentation-tuple", "identifiers-tuple", "recorded-tip-position"):
            if via == "fit_model-twice" and (exp_ok or len(s) > 2):
                continue          # (only rejected requests: an accepted one would start a fit)
            if len(s) <= 3 or sum(map(len, s)) % 7 == 0:
                g2 = impl_apply(s, via=via)
                if (g2 == "ok") != exp_ok:
                    ctx.violation(f"apply-accept-via-{via}:{','.join(s)}",
                                  f"the list {s} handed in through '{via}' is {'accepted' if g2 == 'ok' else 'rejected'} "
                                  f"but the required-earlier rule says {'accept' if exp_ok else 'reject'}",
                                  {"input": {"steps": s, "via": via}, "observed": g2})
        got = impl_apply(s)
        if (got == "ok") != exp_ok:
            ctx.violation(f"apply-accept:{','.join(s)}",
                          f"apply({s}) {'accepted' if got == 'ok' else 'rejected'} but required-earlier "
                          f"rule says {'accept' if exp_ok else 'reject'}",
                          {"input": s, "observed": got})
    # check_order accepts iff every required step is present at an earlier-or-equal index and
    # every present optional step is at an earlier-or-equal index (oracle on the implementation)
    for s_ in sels + extra:
        if any(p not in steps for p in s_):
            continue
        exp_ok = all((r in s_ and s_.index(r) <= i) for i, p in enumerate(s_) for r in req[p]) and \
            all(s_.index(o) <= i for i, p in enumerate(s_) for o in opt[p] if o in s_)
        got = impl("check", s_)
        if (got == "ok") != exp_ok:
            ctx.violation(f"check-order:{','.join(s_)}",
                          f"check_order({s_}) {'accepts' if got == 'ok' else 'rejects'} but the order rules "
                          f"say {'accept' if exp_ok else 'reject'}", {"input": s_, "observed": got})
    ctx.exhaustive = True
    ctx.extra["selections"] = len(sels)
    ctx.extra["closed_selections"] = sum(
        1 for s in sels if all(r in s for p in s for r in req[p]))


def replay(ctx, path):
    d = json.loads(open(path).read())
    from nanite import preproc
    steps = [f.identifier for f in preproc.PREPROCESSORS]
    req = {f.identifier: list(f.steps_required or []) for f in preproc.PREPROCESSORS}
    opt = {f.identifier: list(f.steps_optional or []) for f in preproc.PREPROCESSORS}
    if "input" in d:
        oracle(ctx, steps, req, opt, d["input"])
    return ctx.finish()
