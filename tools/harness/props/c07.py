"""C07 – preprocessing steps: theorems about lean/Nanite/Model/Preproc.lean, tied to nanite.preproc /
nanite.smooth by running the model at exact rationals on integer-valued curves (step by step, before ->
after columns), and the property oracle (the step descriptions) on synthetic curves with noise, tilt,
drift, lagged turning point and height noise, and on the recorded curves of tests/data."""
import hashlib
import json
import pathlib
import random
import warnings

import numpy as np

from core import TRUST_COMMON
import fitlib
from fitlib import q, qf
from curves import make_indentation

MODS = ["Nanite.Props.C07", "Nanite.Audit.C07"]
REGIONS = ["baseline", "approach", "all"]
STRATEGIES = ["shift", "drift"]
OWNED = {"compute_tip_position": {"tip position"}, "correct_force_offset": {"force"},
         "correct_tip_offset": {"tip position"}, "correct_force_slope": {"force"},
         "correct_split_approach_retract": {"segment"},
         "smooth_height": {"height (measured)", "height (piezo)", "tip position"}}
HEIGHTS = ["height (measured)", "height (piezo)", "tip position"]


# ----------------------------------------------------------------------------- curves
def make_curve(rng, integer=False, small=False):
    """approach + retract with noise, tilt (in tip position), drift (in time), lagged turning point and
    height noise; returns (Indentation, meta)"""
    mk = rng.choice(fitlib.MODELS)
    n_app = rng.choice([60, 90, 130] if small else [200, 400, 900, 2000])
    n_ret = rng.choice([40, 70] if small else [150, 400, 1200])
    meta = {"model": mk, "n_app": n_app, "n_ret": n_ret, "noise": rng.choice([0, 1e-3, 1e-2]),
            "tilt": rng.choice([0, 0, 0.05, -0.1, 0.3]), "drift": rng.choice([0, 0, 0.05, -0.08]),
            "lag": int(n_app * rng.choice([0, 0, 0.01, 0.03, 0.05])), "hnoise": rng.choice([0, 0.5, 1.0, 2.0, 3.0]),
            "pidx": rng.randint(0, 40), "bf": rng.uniform(0.35, 0.8), "seed": rng.randrange(1 << 30),
            "integer": integer, "piezo": rng.random() < 0.4,
            # quantised (staircase) height set-point: runs of equal neighbouring values; instrument segment flag
            # switching a few samples before / after the deepest point
            "hquant": 0, "segshift": 0,
            # indentation depth below the contact point: micrometres, or a few nanometres (stiff samples)
            "depth": rng.choice([1.0e-6, 1.0e-6, 1.0e-6, 8e-9, 3e-9]),
            # time stamps: one uniform grid, a retract sampled at another rate, or a dwell between the segments
            "tgrid": rng.choice(["uniform", "uniform", "retract-rate", "dwell"]),
            # deflection offset of raw data (in units of the maximal indentation force): the whole force column
            # may be negative or far above zero before the offset correction
            "foffset": rng.choice([0.0, 0.0, 0.0, -3.0, 2.5])}
    special = rng.choice(["none", "none", "hquant", "segshift"])
    if special == "hquant":
        meta.update(hquant=rng.choice([3, 8]), hnoise=0)
    elif special == "segshift":
        meta.update(segshift=rng.choice([6, -6, 15]))
    return build_curve(meta), meta


def build_curve(meta):
    g = np.random.default_rng(meta["seed"])
    prng = random.Random(1000 * meta["pidx"] + 7)
    p = fitlib.truth_params(meta["model"], prng, cp=0.0)
    p["baseline"].set(value=0.0)
    n_app, n_ret, lag = meta["n_app"], meta["n_ret"], meta["lag"]
    depth = meta.get("depth", 1.0e-6)
    zmax = depth * meta["bf"] / (1 - meta["bf"])
    n = n_app + n_ret
    tip_a = np.linspace(zmax, -depth, n_app)
    tip_r = np.linspace(-depth, zmax, n_ret + 1)[1:]
    tip = np.concatenate([tip_a, tip_r])
    time = np.arange(n) * 1e-3
    if meta.get("tgrid") == "retract-rate":
        time = np.concatenate([np.arange(n_app) * 1e-3, (n_app - 1) * 1e-3 + 2.5e-3 * np.arange(1, n_ret + 1)])
    elif meta.get("tgrid") == "dwell":
        time = np.concatenate([np.arange(n_app) * 1e-3, (n_app - 1) * 1e-3 + 0.4 * n_app * 1e-3 +
                               1e-3 * np.arange(1, n_ret + 1)])
    f_ideal = fitlib.model_force(meta["model"], tip, p)
    if lag:
        f_ideal = np.concatenate([np.full(lag, f_ideal[0]), f_ideal[:-lag]])
    fmax = float(f_ideal.max())
    force = f_ideal + meta["tilt"] * fmax * (tip - zmax) / (zmax + depth) + meta["drift"] * fmax * time / time[-1]
    if meta["noise"]:
        force = force + g.normal(0, meta["noise"] * fmax, n)
    if meta.get("foffset"):
        force = force + meta["foffset"] * fmax
    k = 0.05
    height = tip - force / k
    step = (zmax + depth) / n_app
    if meta["hnoise"]:
        height = height + g.normal(0, meta["hnoise"] * step, n)
    nsw = int(np.clip(n_app + meta.get("segshift", 0), 10, n - 10))
    seg = np.concatenate([np.zeros(nsw), np.ones(n - nsw)])
    if meta.get("hquant"):
        # a noise-free staircase: monotonic within each segment but with equal neighbours
        qstep = step * meta["hquant"]
        height = np.round((tip - force / k) / qstep) * qstep
    extra = {}
    if meta["integer"]:
        # integer-valued columns (exact in binary64 and as rationals); k = 1/8
        force = np.round(force / fmax * (1 << 16))
        height = np.round(height / (zmax + depth) * (1 << 16))
        time = np.arange(n, dtype=float)
        k = 0.125
    idnt = make_indentation(force, height, seg, time=time, spring=k)
    if meta["piezo"]:
        idnt["height (piezo)"] = np.array(height, copy=True) * (1.0 if meta["integer"] else 1.0000001)
        # keep it across reset_data(): make it part of the raw data
        idnt._raw_data["height (piezo)"] = np.array(idnt["height (piezo)"], copy=True)
    return idnt


def columns(idnt):
    return {c: np.array(idnt[c], copy=True) for c in idnt.columns}


def digest(a):
    a = np.asarray(a)
    return hashlib.sha1(str(a.dtype).encode() + a.tobytes()).hexdigest()[:12]


def apply(idnt, steps, options=None, details=False):
    with warnings.catch_warnings():
        warnings.simplefilter("ignore")
        return idnt.apply_preprocessing(list(steps), options=dict(options or {}), ret_details=details)


def before_after(idnt, prefix, step, options):
    """columns after `prefix` and after `prefix + [step]` (each applied to the raw data)"""
    apply(idnt, prefix, options)
    b = columns(idnt)
    det = apply(idnt, prefix + [step], options, details=True)
    a = columns(idnt)
    return b, a, det


def ols(x, y):
    x = np.asarray(x, dtype=float)
    y = np.asarray(y, dtype=float)
    xm, ym = x.mean(), y.mean()
    sxx = float(np.sum((x - xm) ** 2))
    if sxx == 0:
        return None, None
    m = float(np.sum((x - xm) * (y - ym)) / sxx)
    return m, float(ym - m * xm)


def farthest_point(tip, force, idp):
    """the documented turning point: farthest from the contact point in normalised coordinates"""
    x = np.array(tip, dtype=float) - tip[idp]
    if x.min() != 0:
        x = x / x.min()
    x[x < 0] = 0
    y = np.array(force, dtype=float) - np.mean(force[:idp])
    y = y / y.max()
    y[y < np.std(y[:idp])] = 0
    return int(np.argmax(x ** 2 + y ** 2))


# ----------------------------------------------------------------------------- oracle per step
def check_unowned(ctx, step, b, a, rep):
    if set(a) - set(b) - OWNED[step]:
        ctx.violation(f"adds-column:{step}", f"{step} added columns {sorted(set(a) - set(b))}", rep)
    for c in b:
        if c not in a:
            ctx.violation(f"drops-column:{step}", f"{step} dropped column {c}", rep)
        elif len(a[c]) != len(b[c]):
            ctx.violation(f"changes-length:{step}", f"{step} changed the number of points of '{c}' "
                          f"({len(b[c])} -> {len(a[c])})", rep)
        elif c not in OWNED[step] and digest(a[c]) != digest(b[c]):
            ctx.violation(f"touches-foreign-column:{step}", f"{step} changed column '{c}' which it does not own", rep)


def oracle(ctx, idnt, meta, step, opts, b, a, det):
    from nanite import poc, preproc
    rep = {"input": {"curve": meta, "step": step, "options": opts}}
    check_unowned(ctx, step, b, a, rep)
    k = idnt.metadata["spring constant"]
    if step == "compute_tip_position":
        ref = b["height (measured)"] + b["force"] / k
        if not np.allclose(a["tip position"], ref, rtol=1e-14, atol=0):
            ctx.violation("tip-separation-formula", "tip position is not measured height + force / spring constant",
                          rep)
    elif step == "correct_force_offset":
        d = b["force"] - a["force"]
        scale = float(np.max(np.abs(b["force"]))) or 1.0
        if np.ptp(d) > 1e-12 * scale:
            ctx.violation("force-offset-not-constant", "force offset correction changed the force by a non-constant "
                          f"amount (spread {np.ptp(d):.3e})", rep)
        idp = poc.compute_poc(b["force"], "deviation_from_baseline")
        if idp:
            mu = float(np.mean(a["force"][:idp]))
            if abs(mu) > 1e-11 * scale:
                ctx.violation("force-offset-mean-not-zero", f"mean pre-contact force after the correction is {mu:.3e} "
                              f"(contact index {idp})", rep)
        elif a["force"][0] != 0:
            ctx.violation("force-offset-first-not-zero", "no pre-contact part and first force value not zero", rep)
    elif step == "correct_tip_offset":
        method = opts.get("correct_tip_offset", {}).get("method", "deviation_from_baseline")
        cpid = poc.compute_poc(b["force"], method)
        d = b["tip position"] - a["tip position"]
        scale = float(np.max(np.abs(b["tip position"]))) or 1.0
        if np.ptp(d) > 1e-12 * scale:
            ctx.violation(f"tip-offset-not-constant:{method}", "tip offset correction changed the tip position by a "
                          "non-constant amount", rep)
        if abs(a["tip position"][cpid]) > 1e-12 * scale:
            ctx.violation(f"tip-not-zero-at-contact:{method}", f"tip position at the estimated contact index {cpid} "
                          f"({method}) is {a['tip position'][cpid]!r}, not zero", rep)
        # "the estimated contact index" is also what the curve itself reports for this method
        try:
            with warnings.catch_warnings():
                warnings.simplefilter("ignore")
                own = int(idnt.estimate_contact_point_index(method=method))
        except BaseException as e:  # noqa
            own = None
            ctx.violation(f"estimate-raises:{method}", f"estimate_contact_point_index({method}) raises {e!r} on a "
                          "preprocessed well-formed curve", rep)
        if own is not None and abs(a["tip position"][own]) > 1e-12 * scale:
            ctx.violation(f"tip-not-zero-at-own-estimate:{method}", f"after correct_tip_offset({method}) the curve's own "
                          f"estimate_contact_point_index({method}) is {own} (compute_poc on the force column: {cpid}); "
                          f"the tip position there is {a['tip position'][own]!r}, not zero", rep)
    elif step == "correct_force_slope":
        o = opts.get("correct_force_slope", {})
        region, strategy = o.get("region", "baseline"), o.get("strategy", "shift")
        tag = f"{region}+{strategy}"
        tip, force = b["tip position"], b["force"]
        xs = tip if strategy == "shift" else b["time"]
        n = len(force)
        idp = max(2, int(np.argmin(np.abs(tip))))
        if region == "baseline":
            stop = idp
        elif region == "approach":
            stop = max(2, int(preproc.find_turning_point(tip_position=tip, force=np.copy(force),
                                                         contact_point_index=idp)))
        else:
            stop = n
        corr = b["force"] - a["force"]
        scale = float(np.ptp(force)) or 1.0
        if stop < n and np.any(corr[stop:] != 0):
            ctx.violation(f"slope-touches-outside:{tag}", f"slope correction ({tag}) changed data outside the selected "
                          f"region (from index {stop})", rep)
        if 0 < stop < n:
            jump = (a["force"][stop] - a["force"][stop - 1]) - (b["force"][stop] - b["force"][stop - 1])
            if abs(jump) > 1e-9 * scale:
                ctx.violation(f"slope-jump:{tag}", f"slope correction ({tag}) introduces a jump of {jump:.3e} at the "
                              f"region boundary {stop}", rep)
        m0, c0 = ols(xs[:idp], force[:idp])
        if m0 is not None:
            xr = float(np.ptp(xs[:idp])) or 1.0
            # the correction is the least-squares line of the baseline (up to a constant) inside the region
            mc, cc = ols(xs[:stop], corr[:stop])
            resid = corr[:stop] - (mc * xs[:stop] + cc) if mc is not None else np.zeros(1)
            if mc is None or abs(mc - m0) * xr > 1e-5 * (abs(m0) * xr + 1e-6 * scale) \
                    or np.max(np.abs(resid)) > 1e-8 * scale:
                ctx.violation(f"slope-correction-not-the-baseline-line:{tag}",
                              f"slope correction ({tag}): the subtracted curve is not the fitted linear baseline trend "
                              f"(its slope {mc!r} vs baseline least-squares slope {m0!r}, deviation from a line "
                              f"{np.max(np.abs(resid)):.3e})", rep)
            # (implied by the previous check whenever the whole baseline lies inside the corrected region)
            m1, _ = ols(xs[:idp], a["force"][:idp])
            if stop >= idp and abs(m1) * xr > 1e-5 * (abs(m0) * xr + 1e-6 * scale):
                ctx.violation(f"slope-trend-remains:{tag}", f"slope correction ({tag}) leaves a baseline trend of "
                              f"{m1!r} (before: {m0!r})", rep)
    elif step == "correct_split_approach_retract":
        seg = a["segment"]
        sw = int(np.sum(np.diff(seg.astype(int)) != 0))
        if sw != 1 or seg[0] != 0 or seg[-1] != 1:
            ctx.violation("segment-not-single-switch", f"segment column has {sw} switches (first {seg[0]}, last "
                          f"{seg[-1]})", rep)
            return
        idturn = int(np.argmax(seg))
        idp = poc.poc_deviation_from_baseline(b["force"])
        if idp and not np.isnan(idp):
            ref = farthest_point(b["tip position"], b["force"], int(idp))
            if idturn != ref:
                ctx.violation("split-not-at-farthest-point", f"segments split at {idturn}, the farthest point is {ref}",
                              rep)
            # sanity only (noise moves the farthest point by a few samples): near the piezo turning point
            slack = 10 + int(0.02 * len(seg))
            if "n_app" in meta and not (meta["n_app"] - slack <= idturn <= meta["n_app"] + meta["lag"] + slack):
                ctx.violation("split-far-from-turning-point", f"segments split at {idturn} but the piezo turns at "
                              f"{meta['n_app']} and the force peaks {meta['lag']} samples later", rep)
    elif step == "smooth_height":
        seg = a["segment"]
        for col in HEIGHTS:
            if col not in a:
                continue
            for s in (0, 1):
                v = a[col][seg == s]
                d = np.diff(v)
                if v.size > 1 and not (np.all(d > 0) or np.all(d < 0)):
                    bad = int(np.sum(d <= 0)) if d.sum() > 0 else int(np.sum(d >= 0))
                    ctx.violation(f"not-strictly-monotonic:{col}", f"after smooth_height '{col}' is not strictly "
                                  f"monotonic in segment {s} ({bad} of {d.size} steps in the wrong direction or "
                                  "zero)", rep)


PLAN = [
    ("compute_tip_position", [], [{}]),
    ("correct_force_offset", [], [{}]),
    ("correct_tip_offset", ["compute_tip_position"], "methods"),
    ("correct_force_slope", ["compute_tip_position", "correct_tip_offset"], "slopes"),
    ("correct_split_approach_retract", ["compute_tip_position"], [{}]),
    ("smooth_height", [], [{}]),
    ("smooth_height", ["compute_tip_position"], [{}]),
    # tip-sample separation after another step has already written the height column
    ("compute_tip_position", ["smooth_height"], [{}]),
    ("correct_force_offset", ["compute_tip_position", "correct_tip_offset", "correct_force_slope"], [{}]),
    # a step listed a second time, after another step has invalidated its first result
    ("correct_force_offset", ["compute_tip_position", "correct_force_offset", "correct_tip_offset",
                              "correct_force_slope"], "slopes-all"),
    # the tip-sample separation asked for again after the force (and the separation itself) were corrected
    ("compute_tip_position", ["compute_tip_position", "correct_tip_offset", "correct_force_offset"], "methods"),
    # ... and the step functions called directly on a curve that went through a pipeline already
    ("compute_tip_position", ["compute_tip_position", "correct_tip_offset", "correct_force_offset"], "methods",
     "direct"),
    ("correct_force_offset", ["compute_tip_position", "correct_force_offset", "correct_tip_offset",
                              "correct_force_slope"], "slopes-all", "direct"),
]


def option_sets(kind, methods, rng, full):
    if kind == "methods":
        ms = methods if full else rng.sample(methods, 2)
        return [{"correct_tip_offset": {"method": m}} for m in ms]
    if kind == "slopes-all":
        return [{"correct_tip_offset": {"method": rng.choice(["deviation_from_baseline", "fit_line_polynomial"])},
                 "correct_force_slope": {"region": "all", "strategy": st}} for st in STRATEGIES]
    if kind == "slopes":
        combos = [(r, s) for r in REGIONS for s in STRATEGIES]
        if not full:
            combos = rng.sample(combos, 3)
        return [{"correct_tip_offset": {"method": rng.choice(["deviation_from_baseline", "fit_line_polynomial",
                                                               "frechet_direct_path"])},
                 "correct_force_slope": {"region": r, "strategy": s}} for r, s in combos]
    return kind


def explore(ctx, idnt, meta, methods, full):
    rng = ctx.rng
    for step, prefix, optkind, *how in PLAN:
        for opts in option_sets(optkind, methods, rng, full):
            if step == "smooth_height" and prefix and "height (measured)" not in idnt:
                continue
            if step == "smooth_height" and meta.get("segshift"):
                # the flagged segments are not monotonic themselves (the flag lags the turning point): the
                # smoothing step presupposes segment discovery here - not part of what is asserted
                continue
            try:
                if how:
                    from nanite import preproc
                    apply(idnt, prefix, opts)
                    b = columns(idnt)
                    with warnings.catch_warnings():
                        warnings.simplefilter("ignore")
                        preproc.get_func(step)(idnt, **opts.get(step, {}))
                    a, det = columns(idnt), None
                else:
                    b, a, det = before_after(idnt, prefix, step, opts)
            except BaseException as e:  # noqa
                ctx.violation(f"step-raises:{step}:{type(e).__name__}", f"{step} with options {opts} raises "
                              f"{type(e).__name__}: {str(e)[:150]} on a well-formed curve",
                              {"input": {"curve": meta, "step": step, "options": opts}})
                continue
            ctx.case({"curve": {k: meta[k] for k in list(meta)[:8]}, "step": step, "options": opts,
                      "after": prefix, "call": "function" if how else "pipeline"},
                     nontrivial=json.dumps([meta, step, opts, prefix, how], sort_keys=True, default=str),
                     bucket=["step=" + step, "curve=" + meta.get("kind", "synthetic"),
                             "call=" + ("function" if how else "pipeline")] +
                            [f"opt:{k}={v}" for o in opts.values() for k, v in o.items()])
            oracle(ctx, idnt, dict(meta, applied_after=prefix, call="function" if how else "pipeline"), step, opts,
                   b, a, det)


# ----------------------------------------------------------------------------- model tie
def ql(a):
    return [q(v) for v in a]


def pl(s):
    return np.array([qf(t) for t in s.split(",")]) if s else np.zeros(0)


def close(a, b_, tol=1e-9):
    a, b_ = np.asarray(a, dtype=float), np.asarray(b_, dtype=float)
    if a.shape != b_.shape:
        return False
    scale = max(float(np.max(np.abs(a))) if a.size else 0.0, 1e-300)
    return bool(np.all(np.abs(a - b_) <= tol * scale))


def tie(ctx, n_curves):
    """integer-valued small curves: every step on the real code, the same columns to the Lean model"""
    from nanite import poc
    rng = ctx.rng
    lines, expect = [], []
    for i in range(n_curves):
        idnt, meta = make_curve(rng, integer=True, small=True)
        if i % 4 == 1:
            # an exactly flat baseline (noise-free simulated data): every baseline sample ties with the threshold
            meta.update(noise=0, tilt=0, drift=0)
            idnt = build_curve(meta)
        k = idnt.metadata["spring constant"]
        case = {"curve": meta}
        # tip separation
        b, a, _ = before_after(idnt, [], "compute_tip_position", {})
        lines.append({"op": "tip", "k": q(k), "h": ql(b["height (measured)"]), "f": ql(b["force"])})
        expect.append(("tip", case, a["tip position"], None))
        # force offset
        b, a, _ = before_after(idnt, [], "correct_force_offset", {})
        lines.append({"op": "force_offset", "f": ql(b["force"])})
        expect.append(("force_offset", case, a["force"],
                       (poc.compute_poc(b["force"], "deviation_from_baseline"), np.array(b["force"], copy=True))))
        # tip offset
        method = rng.choice(["deviation_from_baseline", "frechet_direct_path", "gradient_zero_crossing"])
        o = {"correct_tip_offset": {"method": method}}
        b, a, _ = before_after(idnt, ["compute_tip_position"], "correct_tip_offset", o)
        cpid = int(poc.compute_poc(b["force"], method))
        lines.append({"op": "tip_offset", "cpid": cpid, "tip": ql(b["tip position"])})
        expect.append(("tip_offset", case, a["tip position"], None))
        # slope correction
        region, strategy = rng.choice(REGIONS), rng.choice(STRATEGIES)
        o2 = {**o, "correct_force_slope": {"region": region, "strategy": strategy}}
        try:
            b, a, det = before_after(idnt, ["compute_tip_position", "correct_tip_offset"], "correct_force_slope", o2)
        except BaseException:  # noqa
            det = None
        if det and det.get("correct_force_slope"):
            xs = b["tip position"] if strategy == "shift" else b["time"]
            bf = np.asarray(det["correct_force_slope"]["plot slope fit"][1], dtype=float)
            idp = len(bf)
            m, c = ols(xs[:idp], bf)
            if m is not None:
                lines.append({"op": "slope", "region": region, "m": q(m), "c": q(c), "xs": ql(xs),
                              "tip": ql(b["tip position"]), "f": ql(b["force"])})
                expect.append(("slope", {**case, "region": region, "strategy": strategy}, a["force"],
                               (idp, m, c, np.asarray(xs[:idp], dtype=float), float(np.max(np.abs(b["force"]))))))
        # segment discovery
        b, a, _ = before_after(idnt, ["compute_tip_position"], "correct_split_approach_retract", {})
        lines.append({"op": "split", "tip": ql(b["tip position"]), "f": ql(b["force"])})
        changed = digest(a["segment"]) != digest(b["segment"]) or True
        expect.append(("split", case, a["segment"], b["segment"]))
        # smoothing of the approach / retract parts of the measured height
        try:
            b, a, _ = before_after(idnt, [], "smooth_height", {})
        except ValueError:
            # max_iter on a flagged segment that is not monotonic (segshift curves): covered by the directed cases
            continue
        for s in (0, 1):
            d = b["height (measured)"][b["segment"] == s]
            lines.append({"op": "smooth", "w": 15, "maxiter": 1000, "d": ql(d)})
            expect.append(("smooth", {**case, "segment": s}, a["height (measured)"][a["segment"] == s], None))
    # directed smoothing inputs: plateaus in the middle and at the end, rising and falling, window doubling
    from nanite.smooth import smooth_axis_monotone
    for j in range(max(10, n_curves)):
        n = rng.choice([4, 9, 20, 33, 60])
        base = np.cumsum([rng.choice([0, 0, 1, 1, 2, 5]) for _ in range(n)]).astype(float)
        if rng.random() < 0.5:
            base = -base
        if rng.random() < 0.5:
            base = base + np.array([rng.choice([0, 0, 0, 3, -3]) for _ in range(n)], dtype=float)
        w = rng.choice([1, 3, 5, 15])
        with warnings.catch_warnings():
            warnings.simplefilter("ignore")
            try:
                out = smooth_axis_monotone(base.copy(), window=w, max_iter=40)
            except ValueError:
                out = None
        lines.append({"op": "smooth", "w": w, "maxiter": 40, "d": ql(base)})
        expect.append(("smooth", {"directed": [float(v) for v in base], "w": w}, out, None))
    out = ctx.driver("C07", lines)
    if out is None:
        return
    for (op, case, impl, aux), o in zip(expect, out):
        ctx.case({"tie": op}, nontrivial=hashlib.sha1((op + json.dumps(case, default=str)).encode()).hexdigest(),
                 bucket="tie=" + op)
        if op in ("tip", "tip_offset"):
            if not close(impl, pl(o), 1e-12):
                ctx.disagree(case, "column after the step", "model", f"{op}: implementation and Lean model differ")
        elif op == "force_offset":
            idp_m, vals = o.split(" out=")
            aux, f_in = aux
            if int(idp_m.split("=")[1]) != int(aux):
                # the estimated contact index differs from the documented rule evaluated exactly (first sample that
                # EXCEEDS the baseline mean by more than twice the largest baseline deviation).  Binary64 rounding can
                # decide a near-tie differently - but only if it occurs: when the baseline mean of these integer
                # forces is itself exact, every quantity of the rule is, and the two must agree
                from fractions import Fraction
                top = int(np.argmax(f_in)) if f_in.size else 0
                bl = f_in[:top][:top // 10]
                exact = bl.size > 0 and Fraction(float(np.mean(bl))) == sum(Fraction(float(v)) for v in bl) / int(bl.size)
                if exact:
                    ctx.violation("contact-index-not-the-documented-rule",
                                  f"correct_force_offset / correct_tip_offset use contact index {aux} where the first sample "
                                  "that exceeds the baseline mean by more than twice the largest baseline deviation is "
                                  f"{idp_m} (all quantities exact in binary64): the pre-contact mean / the zero of the tip "
                                  "position are taken at the wrong sample",
                                  {"input": {**case, "force": [float(v) for v in f_in]}, "expected": idp_m,
                                   "observed": int(aux)})
                else:
                    ctx.dist["tie=ill-conditioned"] = ctx.dist.get("tie=ill-conditioned", 0) + 1
                continue
            if not close(impl, pl(vals), 1e-12):
                ctx.disagree(case, f"idp={aux}", idp_m, "correct_force_offset: implementation and Lean model differ")
        elif op == "slope":
            idp, m, c, xb, fscale = aux
            head, vals = o.split(" out=")
            parts = dict(t.split("=") for t in head.split())
            if int(parts["idp"]) != idp:
                ctx.disagree(case, idp, parts["idp"], "correct_force_slope: baseline end index differs from "
                             "max(2, argmin |tip|)")
                continue
            mm, cm = qf(parts["m"]), qf(parts["c"])
            ref = max(abs(mm), 1e-300)
            # (lmfit minimises iteratively: its line agrees with the closed form to the optimiser's precision
            # RELATIVE TO THE DATA - with a force offset of many times the slope's contribution the slope itself
            # is only known to that absolute precision; seen for an integer curve with offset -2e5 and slope 0.19)
            gap = float(np.max(np.abs((mm - m) * xb + (cm - c)))) if len(xb) else 0.0
            if abs(mm - m) > 1e-6 * ref + 1e-9 and gap > 1e-7 * fscale:
                ctx.disagree(case, [m, c], [mm, cm], "correct_force_slope: lmfit's LinearModel fit is not the "
                             "closed-form least-squares line of the baseline")
            if not close(impl, pl(vals), 1e-9):
                ctx.disagree(case, "force after the step", "model", "correct_force_slope: implementation and Lean "
                             "model differ given the same fitted line")
        elif op == "split":
            seg_after, seg_before = impl, aux
            if o == "none":
                if digest(seg_after) != digest(seg_before):
                    ctx.disagree(case, "segment rewritten", "none", "split: model says the contact point cannot be "
                                 "estimated")
            else:
                parts = dict(t.split("=") for t in o.split())
                turn = int(parts["turn"])
                ref = np.zeros(len(seg_after), dtype=np.uint8)
                ref[turn:] = 1
                if not np.array_equal(ref, seg_after):
                    ctx.disagree(case, int(np.argmax(seg_after)), turn, "split: turning index differs")
        elif op == "smooth":
            if (impl is None) != (o == "none"):
                ctx.disagree(case, "ValueError" if impl is None else "returns", o[:60],
                             "smooth_axis_monotone: termination differs from the model")
            elif impl is not None and not close(impl, pl(o), 1e-11):
                ctx.disagree(case, [float(v) for v in impl][:40], o[:400],
                             "smooth_axis_monotone: values differ from the Lean model")


# ----------------------------------------------------------------------------- run
def run(ctx):
    ctx.trusted = TRUST_COMMON + [
        "hand-written model lean/Nanite/Model/Preproc.lean of the six steps, find_turning_point and "
        "smooth_axis_monotone (median filter mode=nearest, window doubling, tie breaking incl. the end-of-array "
        "branch); tied on every run by executing it at exact rationals on integer-valued curves, step by step",
        "lmfit's LinearModel fit is replaced by the closed-form least-squares line (agreement measured to 1e-6 on "
        "every tie case); the contact-point index comes from the C08 model",
        "binary64 rounding and the choice of window on real data are runtime behaviour (explored by the oracle)"]
    ctx.rule = ("synthetic curves (5 shipped models x noise x tilt x drift x lagged turning point x height noise up to "
                "2 sample steps x lengths, with / without a piezo height column) and the recorded single curves of "
                "tests/data x every step x its option values (6 contact-point methods, 3 regions x 2 strategies; "
                "thorough: all, quick: a random subset per curve) x the pipelines in PLAN; non-trivial = distinct "
                "(curve, step, options)")
    ctx.build(MODS, clean=(ctx.tier == "thorough"))
    ctx.grep_audit()
    if ctx.tier == "thorough":
        ctx.leanchecker(["Nanite.Props.C07"])
    from nanite import poc, preproc
    methods = [m.identifier for m in poc.POC_METHODS]
    for step in OWNED:
        if step not in [p.identifier for p in preproc.PREPROCESSORS]:
            ctx.violation(f"step-missing:{step}", f"preprocessing step {step} is no longer registered",
                          {"input": {"step": step}})
    full = ctx.tier == "thorough"
    for i in range(40 if ctx.tier == "quick" else 400):
        idnt, meta = make_curve(ctx.rng)
        meta["kind"] = "synthetic"
        explore(ctx, idnt, meta, methods, full)
    data = pathlib.Path(poc.__file__).resolve().parents[2] / "tests" / "data"
    files = sorted(data.glob("fmt-jpk-fd_s*.jpk-force"))
    import nanite
    for fpath in (files if full else files[:4] + files[-2:]):
        with warnings.catch_warnings():
            warnings.simplefilter("ignore")
            try:
                idnt = nanite.IndentationGroup(fpath)[0]
            except BaseException as e:  # noqa
                ctx.notes.append(f"recorded curve {fpath.name} not loadable: {e!r}")
                continue
        seg = np.array(idnt["segment"])
        if min(int(np.sum(seg == 0)), int(np.sum(seg == 1))) < 50:
            # not a well-formed curve (the 'bad' files with 2-4 samples): outside the quantifier of C07
            ctx.dist["skipped=too-short-recorded"] = ctx.dist.get("skipped=too-short-recorded", 0) + 1
            continue
        explore(ctx, idnt, {"kind": "recorded", "file": fpath.name}, methods, full)
    tie(ctx, 15 if ctx.tier == "quick" else 150)


def replay(ctx, path):
    rec = json.loads(pathlib.Path(path).read_text())
    inp = rec.get("input", {})
    cur = inp.get("curve")
    if not cur or "step" not in inp:
        run(ctx)
        return ctx.finish()
    ctx.build(MODS)
    from nanite import poc
    methods = [m.identifier for m in poc.POC_METHODS]
    if cur.get("kind") == "recorded":
        import nanite
        data = pathlib.Path(poc.__file__).resolve().parents[2] / "tests" / "data"
        with warnings.catch_warnings():
            warnings.simplefilter("ignore")
            idnt = nanite.IndentationGroup(data / cur["file"])[0]
    else:
        idnt = build_curve(cur)
    step, opts = inp["step"], inp.get("options", {})
    prefixes = [p for s, p, _ in PLAN if s == step]
    for prefix in prefixes:
        try:
            b, a, det = before_after(idnt, prefix, step, opts)
        except BaseException as e:  # noqa
            ctx.violation(f"step-raises:{step}:{type(e).__name__}", f"{step} raises {e!r}", {"input": inp})
            continue
        ctx.case({"replay": str(path), "prefix": prefix}, nontrivial="replay" + str(prefix))
        oracle(ctx, idnt, cur, step, opts, b, a, det)
    return ctx.finish()
