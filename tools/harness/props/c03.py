"""C03 – fit results depend only on data and current settings, not on history.
(`run_histories` is shared with C06, C09 and C10, which put the weight on other operations.)"""
import copy
import json
import warnings

import numpy as np

from core import TRUST_COMMON
import histlib
from histlib import canon_v, tok, deep_state

MODS = {"C03": ["Nanite.Props.C03", "Nanite.Witness.C03", "Nanite.Audit.C03", "Nanite.Props.C03Scan",
                "Nanite.Audit.C03Scan"],
        "C06": ["Nanite.Props.C03", "Nanite.Witness.C03", "Nanite.Audit.C06"],
        "C09": ["Nanite.Props.C09", "Nanite.Props.C03", "Nanite.Audit.C09", "Nanite.Props.C09Pipeline",
                "Nanite.Audit.C09Pipeline"],
        "C10": ["Nanite.Props.C03", "Nanite.Witness.C03", "Nanite.Audit.C10", "Nanite.Props.C10Order",
                "Nanite.Audit.C10Order"]}

VALID_PIPES = [
    (["compute_tip_position"], {}),
    (["compute_tip_position", "correct_tip_offset"], {}),
    (["compute_tip_position", "correct_tip_offset"], {"correct_tip_offset": {"method": "deviation_from_baseline"}}),
    (["compute_tip_position", "correct_tip_offset"], {"correct_tip_offset": {"method": "frechet_direct_path"}}),
    (["compute_tip_position", "correct_force_offset", "correct_tip_offset"], {}),
    (["compute_tip_position", "correct_tip_offset", "correct_force_slope"],
     {"correct_force_slope": {"region": "baseline", "strategy": "shift"}}),
    (["compute_tip_position", "correct_tip_offset", "correct_force_slope"],
     {"correct_force_slope": {"region": "all", "strategy": "drift"}}),
    (["compute_tip_position", "correct_tip_offset"], {"correct_force_slope": {"region": "all"}}),
    # steps that work through the segment views of the curve (height smoothing), after a fit they must still see
    # the current data
    (["compute_tip_position", "smooth_height"], {}),
    (["compute_tip_position", "correct_tip_offset", "correct_force_slope", "smooth_height"],
     {"correct_force_slope": {"region": "baseline", "strategy": "shift"}}),
]
INVALID_PIPES = [
    (["correct_tip_offset"], {}),                                         # missing prerequisite
    (["compute_tip_position", "bogus_step"], {}),                         # unknown step
    (["compute_tip_position", "correct_tip_offset"], {"correct_tip_offset": {"method": "nope"}}),
    (["compute_tip_position", "correct_tip_offset", "correct_force_slope"],
     {"correct_force_slope": {"region": "nowhere"}}),
    (["compute_tip_position", "correct_tip_offset"], {"correct_tip_offset": {"methd": "fit_constant_line"}}),
    (["correct_force_slope", "compute_tip_position", "correct_tip_offset"], {}),
]
DIRECT_EDIT_SIG = "direct-edit-of-preprocessing-setting"


def gen_op(w, rng, focus):
    """choose the next operation; arguments may be caller-held objects (by reference)"""
    last = getattr(w, "last_mut", None)
    w.last_mut = None
    if last is not None and rng.random() < 0.7:
        # an object was just edited in place: hand it in again
        if last in ("steps", "opts"):
            return {"op": "pp", "steps": w.obj["steps"], "opts": w.obj["opts"], "rd": False,
                    "via_fit": rng.random() < 0.4}
        if last == "params":
            return {"op": "fit", "kw": {"params_initial": w.obj["params"], "model_key": "hertz_para"}}
        if last == "method_kws":
            return {"op": "fit", "kw": {"method_kws": w.obj["method_kws"]}}
        if last == "range":
            return {"op": "fit", "kw": {"range_x": w.obj["range"]}}
        if last == "names":
            return {"op": "rate", "regressor": "Extra Trees", "ts": 0, "names": "OBJ", "lda": None}
    r = rng.random()
    wpp, wfit, wset, wrate, wmut = focus
    tot = wpp + wfit + wset + wrate + wmut
    r *= tot
    if r < wpp:
        c = rng.random()
        if c < 0.12 and "preprocessing" in w.idnt.fit_properties:
            # the pipeline that is already applied, again (with and without details)
            fp = w.idnt.fit_properties
            return {"op": "pp", "steps": copy.deepcopy(fp["preprocessing"]),
                    "opts": copy.deepcopy(fp.get("preprocessing_options", {})), "rd": rng.random() < 0.6,
                    "via_fit": False}
        if c < 0.22:
            # the public attributes idnt.preprocessing / preprocessing_options edited in place by the
            # caller, then apply_preprocessing() with its None defaults
            return {"op": "pp", "steps": "ATTR", "opts": "ATTR", "rd": False, "via_fit": False}
        if c < 0.55:
            steps, opts = copy.deepcopy(rng.choice(VALID_PIPES))
        elif c < 0.8:
            steps, opts = copy.deepcopy(rng.choice(INVALID_PIPES))
        else:
            steps, opts = w.obj["steps"], w.obj["opts"]          # the caller's own (possibly edited) objects
        return {"op": "pp", "steps": steps, "opts": opts, "rd": rng.random() < 0.2,
                "via_fit": rng.random() < 0.2}
    r -= wpp
    if r < wfit:
        if rng.random() < 0.06:
            return {"op": "emod"}
        kw = {}
        for key, dom in (("model_key", ["hertz_para", "hertz_para", "hertz_cone"]),
                         ("range_type", ["absolute", "relative cp", "absolute", "bogus"]),
                         ("range_x", [[0, 0], (0, 0), [-8e-7, 4e-7], (-8e-7, 4e-7), [-1.2e-6, 4e-7], "OBJ:range",
                                      [6e-7, 4e-7], (9e-7, 4e-7), [-8.08e-7, 4e-7], [-8e-7, 4.07e-7]]),
                         ("optimal_fit_edelta", [True, True, False]),
                         ("optimal_fit_num_samples", [7, 9]),
                         ("segment", [0, 1, "approach", "retract"]),
                         ("weight_cp", [0, 5e-7, 1e-6, False]),
                         ("gcf_k", [1.0, 1, 0.5]),
                         ("params_initial", [None, "OBJ:params", "OBJ:params", "OBJ:cone"]),
                         ("method_kws", ["OBJ:method_kws", {}]),
                         ("bogus_key", [1])):
            p = {"bogus_key": 0.03, "range_type": 0.25, "params_initial": 0.35, "optimal_fit_edelta": 0.1,
                 "optimal_fit_num_samples": 0.08}.get(key, 0.3)
            if rng.random() < p:
                v = rng.choice(dom)
                kw[key] = w.obj[v[4:]] if isinstance(v, str) and v.startswith("OBJ:") else copy.deepcopy(v)
        return {"op": "fit", "kw": kw}
    r -= wfit
    if r < wset:
        key = rng.choice(["weight_cp", "range_x", "segment", "model_key", "gcf_k", "params_initial",
                          "range_type", "unknown_key", "preprocessing"] if rng.random() < 0.25 else
                         ["weight_cp", "range_x", "segment", "model_key", "gcf_k", "params_initial", "range_type"])
        v = {"weight_cp": [0, 5e-7, 1e-6], "range_x": [[0, 0], [-8e-7, 4e-7], (-8e-7, 4e-7)],
             "segment": [0, 1, "approach"], "model_key": ["hertz_para", "hertz_cone"], "gcf_k": [1.0, 0.5],
             "params_initial": [None, "OBJ:params"], "range_type": ["absolute", "relative cp"],
             "unknown_key": [1], "preprocessing": [["compute_tip_position"],
                                                   ["compute_tip_position", "correct_tip_offset"]]}[key]
        v = rng.choice(v)
        v = w.obj[v[4:]] if isinstance(v, str) and v.startswith("OBJ:") else copy.deepcopy(v)
        return {"op": "set", "key": key, "value": v}
    r -= wset
    if r < wrate:
        return {"op": "rate", "regressor": rng.choice(["Extra Trees", "Extra Trees", "none", "Decision Tree",
                                                       "SVR (RBF kernel)"]),
                "ts": rng.choice([0, 0, 1]), "names": rng.choice([None, None, "OBJ", ["feat_con_apr_sum",
                                                                                      "feat_con_idt_sum"]]),
                "lda": rng.choice([None, None, False, True])}
    # in-place edit of a caller-held object
    which = rng.choice(["steps", "opts", "params", "method_kws", "names", "range"])
    return {"op": "mut", "which": which}


def do_mut(w, which, rng):
    o = w.obj[which]
    if which == "steps":
        if "correct_force_offset" in o:
            o.remove("correct_force_offset")
        else:
            o.insert(1, "correct_force_offset")
    elif which == "opts":
        o["correct_tip_offset"]["method"] = rng.choice(["fit_constant_line", "deviation_from_baseline",
                                                        "frechet_direct_path"])
    elif which == "params":
        c = rng.random()
        if c < 0.15:
            # only a limit changes (the value stays inside)
            if rng.random() < 0.5:
                o["E"].max = o["E"].value * rng.choice([1.05, 1.5, 1e3])
            else:
                o["E"].min = o["E"].value * rng.choice([0.95, 0.5, 0.0])
        elif c < 0.4:
            o["E"].value = o["E"].value * rng.choice([2, 0.5, 1.000001])
        elif c < 0.6:
            o["R"].value = o["R"].value * rng.choice([2, 0.5, 1.0008])
        elif c < 0.8:
            o["contact_point"].value = o["contact_point"].value + rng.choice([1e-7, 5e-9])
        else:
            o["baseline"].vary = not o["baseline"].vary
    elif which == "method_kws":
        if "ftol" in o:
            o.pop("ftol")
        else:
            o["ftol"] = 1e-9
    elif which == "names":
        if "feat_con_bln_slope" in o:
            o.remove("feat_con_bln_slope")
        else:
            o.append("feat_con_bln_slope")
    elif which == "range":
        o[0] = rng.choice([-8e-7, -1.2e-6, -6e-7])


def exec_op(ctx, w, op, rng, check_fresh):
    """run one operation on the real object; returns (model line or None, expected observation)"""
    import nanite.fit as nfit
    idnt = w.idnt
    ids = w.step_ids
    args = []
    line = None
    if op["op"] == "mut":
        do_mut(w, op["which"], rng)
        w.last_mut = op["which"]
        return None, None
    if op["op"] == "mutfn":
        op["fn"](w)
        w.last_mut = None
        w.history.append(op["desc"])
        return None, None
    if op["op"] == "emod":
        # compute_emodulus_mindelta(): the E(delta) scan is cached with the fit results (model: Op.emod); the
        # fresh-object oracle additionally compares the visible scan arrays
        with histlib.Counter() as cnt, warnings.catch_warnings():
            warnings.simplefilter("ignore")
            try:
                e_, d_ = idnt.compute_emodulus_mindelta()
                out_ = f"{len(e_)} samples"
                outcome = "ok"
            except KeyError:
                outcome = out_ = "err KeyError"
            except nfit.FitKeyError:
                outcome = out_ = "err FitKeyError"
            except nfit.FitDataError:
                outcome = out_ = "err FitDataError"
            except BaseException as e:  # noqa
                outcome = out_ = "err other:" + type(e).__name__
        w.last_mut = None
        w.history.append(f"compute_emodulus_mindelta() -> {out_}")
        if not w.raw_unchanged():
            ctx.violation("raw-data-modified", "compute_emodulus_mindelta() modified the recorded raw data",
                          {"history": list(w.history)})
        if check_fresh:
            for sig, what in w.fresh_oracle():
                direct = any(h.startswith("set preprocessing") for h in w.history)
                ctx.violation(DIRECT_EDIT_SIG if direct else sig, what + " (after compute_emodulus_mindelta())",
                              {"history": list(w.history), "curve": w.cid})
        obs = w.observe(outcome, cnt)
        obs["fit_ran"] = None            # (the fits inside a scan are not fits of the curve: not compared)
        return {"op": "emod"}, obs
    attr_call = False
    if op["op"] == "pp" and op["steps"] == "ATTR":
        # caller edits the public attribute objects in place, then calls with the None defaults
        attr_call = True
        pre = idnt.preprocessing
        if "correct_force_offset" in pre:
            pre.remove("correct_force_offset")
        elif "compute_tip_position" in pre:
            pre.insert(1, "correct_force_offset")
        else:
            pre.append("compute_tip_position")
        if rng.random() < 0.5 and "correct_tip_offset" in pre:
            idnt.preprocessing_options["correct_tip_offset"] = {"method": rng.choice(["fit_constant_line",
                                                                                      "deviation_from_baseline"])}
        op = dict(op, steps=pre, opts=idnt.preprocessing_options)
    if op["op"] == "pp" and not op.get("via_fit"):
        args = [op["steps"], op["opts"]]
        line = {"op": "pp", "steps": [ids.get(s, 100 + i) for i, s in enumerate(op["steps"])],
                "opts": tok(op["opts"]), "optErr": histlib.opt_errors(op["steps"], op["opts"]), "rd": op["rd"]}

        def call():
            if attr_call:
                idnt.apply_preprocessing()
            else:
                idnt.apply_preprocessing(op["steps"], op["opts"], ret_details=op["rd"])
    elif op["op"] in ("pp", "fit"):
        kw = dict(op.get("kw", {}))
        if op["op"] == "pp":
            kw = {"preprocessing": op["steps"], "preprocessing_options": op["opts"]}
        args = list(kw.values())
        steps_eff = kw.get("preprocessing", idnt.preprocessing)
        opts_eff = kw.get("preprocessing_options", idnt.preprocessing_options)
        line = {"op": "fit", "kw": [[k, canon_v(k, v, ids)] for k, v in kw.items()],
                "optErr": histlib.opt_errors(steps_eff, opts_eff)}

        def call():
            idnt.fit_model(**kw)
    elif op["op"] == "set":
        args = [op["value"]]
        line = {"op": "set", "key": op["key"], "value": canon_v(op["key"], op["value"], ids)}

        def call():
            idnt.fit_properties[op["key"]] = op["value"]
    elif op["op"] == "rate":
        names = w.obj["names"] if op["names"] == "OBJ" else op["names"]
        ts = histlib.tiny_training_set(op["ts"], names)
        args = [names, ts[0], ts[1]]
        line = {"op": "rate", "r": op["regressor"], "t": f"ts{op['ts']}", "n": tok(names), "l": tok(op["lda"])}
        rt = {}

        # (a fresh, equal-valued tuple each time: the cache must compare by value) - or, every other time, the
        # caller's own arrays, which the library must leave as they are
        own = rng.random() < 0.5
        pristine = (ts[0].copy(), ts[1].copy())

        def call():
            rt["v"] = idnt.rate_quality(regressor=op["regressor"],
                                        training_set=(ts[0], ts[1]) if own else (ts[0].copy(), ts[1].copy()),
                                        names=names, lda=op["lda"])
    before = [deep_state(a) for a in args]
    with histlib.Counter() as cnt, warnings.catch_warnings():
        warnings.simplefilter("ignore")
        try:
            call()
            outcome = "ok"
        except KeyError:
            outcome = "err KeyError"
        except ValueError:
            outcome = "err ValueError"
        except TypeError:
            outcome = "err TypeError"
        except nfit.FitKeyError:
            outcome = "err FitKeyError"
        except nfit.FitDataError:
            outcome = "err FitDataError"
        except BaseException as e:  # noqa
            outcome = "err other:" + type(e).__name__
    after = [deep_state(a) for a in args]
    if line is not None and line["op"] == "fit":
        # states of the parameters nanite guesses from the data as they are now (numerics, supplied)
        from nanite.fit import guess_initial_parameters
        with warnings.catch_warnings():
            warnings.simplefilter("ignore")
            line["guess"] = {mk: histlib.params_states(guess_initial_parameters(idnt, model_key=mk))
                             for mk in ("hertz_para", "hertz_cone")}
    desc = describe(op) + (" [idnt.preprocessing edited in place, called with defaults]" if attr_call else "")
    w.history.append(desc)
    if before != after:
        ctx.violation("argument-mutated:" + op["op"], f"{desc} modified an object handed to it",
                      {"history": list(w.history)})
        if op["op"] == "rate":
            ts[0][...] = pristine[0]          # (the arrays are shared by later operations of the run)
            ts[1][...] = pristine[1]
    if not w.raw_unchanged():
        ctx.violation("raw-data-modified", f"{desc} modified the recorded raw data", {"history": list(w.history)})
    obs = w.observe(outcome, cnt)
    if op["op"] == "rate":
        v = rt.get("v")
        obs["rating"] = None if v is None else float(v)
        if outcome != "ok":
            ctx.violation("rate-quality-raises:" + outcome, f"rate_quality raised ({outcome}) in state after "
                          f"{w.history[-4:]}", {"history": list(w.history)})
        elif op["regressor"].lower() != "none" and getattr(ctx, "check_rating_value", False):
            # the value (possibly served from the cache) equals what the standalone rater computes now
            from nanite.rate import rater as nrater
            with warnings.catch_warnings():
                warnings.simplefilter("ignore")
                ref = nrater.get_rater(regressor=op["regressor"], training_set=(ts[0].copy(), ts[1].copy()),
                                       names=copy.deepcopy(names), lda=op["lda"]).rate(datasets=idnt)[0]
            if not (ref == v or (np.isnan(ref) and np.isnan(v))):
                ctx.violation("stale-or-wrong-rating:" + op["regressor"],
                              f"rate_quality returned {v!r} but the standalone rater computes {ref!r} for the "
                              f"current state ({desc})", {"history": list(w.history)})
    if check_fresh:
        for sig, what in w.fresh_oracle():
            direct = any(h.startswith("set preprocessing") for h in w.history)
            ctx.violation(DIRECT_EDIT_SIG if direct and sig in ("columns-differ-from-fresh", "hash-differs-from-fresh",
                                                                 "results-differ-from-fresh",
                                                                 "fit-columns-differ-from-fresh",
                                                                 "scan-differs-from-fresh") else sig,
                          what + f" (after {desc})", {"history": list(w.history), "curve": w.cid})
    return line, obs


def describe(op):
    if op["op"] == "emod":
        return "compute_emodulus_mindelta()"
    if op["op"] == "pp":
        return f"{'fit_model(preprocessing=' if op.get('via_fit') else 'apply_preprocessing('}{op['steps']}, " \
               f"{op['opts']}{', ret_details=True' if op.get('rd') and not op.get('via_fit') else ''})"
    if op["op"] == "fit":
        return "fit_model(" + ", ".join(f"{k}={'<params>' if k == 'params_initial' and v is not None else v!r}"
                                       for k, v in op["kw"].items()) + ")"
    if op["op"] == "set":
        return f"set {op['key']} = {'<params>' if op['key'] == 'params_initial' and op['value'] is not None else repr(op['value'])}"
    if op["op"] == "rate":
        return f"rate_quality({op['regressor']!r}, ts{op['ts']}, names={op['names']!r}, lda={op['lda']!r})"
    return f"edit {op['which']} in place"


def expected_line(obs, op):
    """the string the Lean driver prints for this observation"""
    s = obs["outcome"] if op["op"] != "rate" else "ok cached=" + str(obs["rated"] == 0 and
                                                                       op["regressor"].lower() != "none").lower()
    return s, obs


def parse_model(out):
    head, rest = out.split(" res=", 1)
    res = rest.split(" ")[0] == "true"
    fitcols = rest.split(" fitcols=")[1].split(" ")[0] == "true"
    scan = rest.split(" scan=")[1].split(" ")[0] == "true"
    nfits = int(rest.split(" nfits=")[1].split(" ")[0])
    nrates = int(rest.split(" nrates=")[1].split(" ")[0])
    fp = rest.split(" fp=", 1)[1]
    return head, res, fitcols, nfits, nrates, fp, scan


def defaults_line(step_ids):
    import nanite.fit as nfit
    return {"op": "defaults", "kw": [[k, canon_v(k, v, step_ids)] for k, v in nfit.FP_DEFAULT.items()]}


P1 = (["compute_tip_position", "correct_tip_offset"], {"correct_tip_offset": {"method": "deviation_from_baseline"}})
P2 = (["compute_tip_position", "correct_force_offset", "correct_tip_offset"], {})


def reduced_alphabet():
    """operation factories (w -> op) of the reduced alphabet that is enumerated exhaustively"""
    def pp(pipe, rd=False, via=False):
        return lambda w: {"op": "pp", "steps": copy.deepcopy(pipe[0]), "opts": copy.deepcopy(pipe[1]), "rd": rd,
                          "via_fit": via}
    return [
        ("pp(P1)", pp(P1)), ("pp(P1, ret_details)", pp(P1, rd=True)), ("pp(P2)", pp(P2)),
        ("pp(invalid)", pp(INVALID_PIPES[0])), ("fit(preprocessing=P1)", pp(P1, via=True)),
        ("fit()", lambda w: {"op": "fit", "kw": {}}),
        ("fit(params=OBJ)", lambda w: {"op": "fit", "kw": {"params_initial": w.obj["params"],
                                                          "model_key": "hertz_para"}}),
        ("fit(weight_cp=0)", lambda w: {"op": "fit", "kw": {"weight_cp": 0}}),
        ("fit(range relative)", lambda w: {"op": "fit", "kw": {"range_type": "relative cp",
                                                              "range_x": w.obj["range"]}}),
        ("edit params slightly", lambda w: {"op": "mut", "which": "params", "tiny": True}),
        ("edit nested option; pp(OBJ)", lambda w: [{"op": "mut", "which": "opts"},
                                                   {"op": "pp", "steps": w.obj["steps"], "opts": w.obj["opts"],
                                                    "rd": False, "via_fit": False}]),
        ("edit idnt.preprocessing; pp()", lambda w: {"op": "pp", "steps": "ATTR", "opts": "ATTR", "rd": False,
                                                     "via_fit": False}),
        ("rate(SVR, lda=None)", lambda w: {"op": "rate", "regressor": "SVR (RBF kernel)", "ts": 0, "names": None,
                                           "lda": None}),
        ("rate(SVR, lda=False)", lambda w: {"op": "rate", "regressor": "SVR (RBF kernel)", "ts": 0, "names": None,
                                            "lda": False}),
        ("set weight_cp", lambda w: {"op": "set", "key": "weight_cp", "value": 5e-7}),
    ]


def run_directed(ctx, lines, expect, hists, check_fresh, which=None, cid=0):
    """all pairs of the reduced alphabet, after the prefixes [], [pp(P1)] and [pp(P1), fit()]"""
    alpha = reduced_alphabet()
    if which is not None:
        alpha = [a for a in alpha if which(a[0])]
    prefixes = [[], [alpha[0]], [alpha[0], ("fit()", lambda w: {"op": "fit", "kw": {}})]]
    n = 0
    for pre in prefixes:
        for a in alpha:
            for b_ in alpha:
                if ctx.tier == "quick" and pre == [] and (n % 2):
                    n += 1
                    continue
                n += 1
                w = histlib.World(cid, ctx.rng)
                lines.append({"op": "new"})
                expect.append(None)
                hists.append(None)
                for name, fac in pre + [a, b_]:
                    ops = fac(w)
                    for op in (ops if isinstance(ops, list) else [ops]):
                        if op["op"] == "mut" and op.get("tiny"):
                            o = w.obj["params"]
                            o["R"].value = o["R"].value * 1.0008
                            o["E"].value = o["E"].value * 1.000001
                            w.last_mut = None
                            w.history.append("edit params in place (R x 1.0008, E x 1.000001)")
                            continue
                        line, obs = exec_op(ctx, w, op, ctx.rng, check_fresh)
                        if line is None:
                            continue
                        lines.append(line)
                        expect.append((op, obs))
                        hists.append(list(w.history))
                ctx.case({"directed": [x[0] for x in pre + [a, b_]]},
                         nontrivial="dir:" + "|".join(x[0] for x in pre + [a, b_]), bucket="stream=directed")


def scenarios():
    """targeted histories (boundary-coincident edits that the random stream reaches rarely)"""
    def setp(name, attr, val):
        def fn(w):
            setattr(w.obj["params"][name], attr, val)
        return {"op": "mutfn", "fn": fn, "desc": f"edit params in place ({name}.{attr} = {val!r})"}
    pp1 = {"op": "pp", "steps": copy.deepcopy(P1[0]), "opts": copy.deepcopy(P1[1]), "rd": False, "via_fit": False}

    def fitobj(w):
        return {"op": "fit", "kw": {"params_initial": w.obj["params"], "model_key": "hertz_para"}}
    def fitbrute(w):
        return {"op": "fit", "kw": {"params_initial": w.obj["params"], "model_key": "hertz_para", "method": "brute",
                                    "weight_cp": 0}}
    plateau = {"op": "fit", "kw": {"optimal_fit_edelta": True, "optimal_fit_num_samples": 7,
                                   "range_x": [-8e-7, 4e-7], "range_type": "absolute"}}
    return [
        ("only the upper limit of a parameter edited (limit becomes active)",
         [pp1, setp("E", "value", 80.0), fitobj, setp("E", "max", 150.0), fitobj]),
        ("only the lower limit of a parameter edited (limit becomes active)",
         [pp1, setp("E", "value", 2000.0), fitobj, setp("E", "min", 1000.0), fitobj]),
        ("only the upper limit edited (limit stays inactive)",
         [pp1, fitobj, setp("E", "max", 1e6), fitobj]),
        ("grid search: only the grid step (brute_step) of a parameter edited in place",
         [pp1, setp("E", "min", 0.0), setp("E", "max", 20000.0), setp("E", "brute_step", 6000.0),
          setp("contact_point", "vary", False), setp("baseline", "vary", False), fitbrute,
          setp("E", "brute_step", 250.0), fitbrute]),
        ("only the constraint expression of a fixed parameter edited in place (same value, same vary flag)",
         [pp1, setp("baseline", "value", 0.0), setp("baseline", "vary", False), fitobj,
          setp("baseline", "expr", "0*E"), fitobj]),
        ("an interval bound changes by a few nanometres",
         [pp1, {"op": "fit", "kw": {"range_x": [-8e-7, 4e-7], "range_type": "absolute"}},
          {"op": "fit", "kw": {"range_x": [-8.08e-7, 4e-7]}}, {"op": "fit", "kw": {"range_x": [-8.08e-7, 4.07e-7]}}]),
        ("an interval bound set directly changes by a few nanometres",
         [pp1, {"op": "fit", "kw": {"range_x": [-8e-7, 4e-7], "range_type": "absolute"}},
          {"op": "set", "key": "range_x", "value": [-7.93e-7, 4e-7]}, {"op": "fit", "kw": {}}]),
        ("weighting width / correction factor change in the last digits",
         [pp1, {"op": "fit", "kw": {"weight_cp": 5e-7, "gcf_k": 0.5}},
          {"op": "fit", "kw": {"weight_cp": 5.000001e-7}}, {"op": "fit", "kw": {"gcf_k": 0.50000001}}]),
        ("plateau search, then only range_x[0] changes to an inverted interval",
         [pp1, plateau, {"op": "fit", "kw": {"range_x": [6e-7, 4e-7]}}]),
        ("plateau search, then range_x[0] set directly to an inverted interval",
         [pp1, plateau, {"op": "set", "key": "range_x", "value": [6e-7, 4e-7]}, {"op": "fit", "kw": {}}]),
        ("plateau search, then only range_x[0] changes (ordinary interval)",
         [pp1, plateau, {"op": "fit", "kw": {"range_x": [-1.2e-6, 4e-7]}}]),
        ("E(delta) scan, then only the number of scan samples changes (plateau search off)",
         [pp1, {"op": "fit", "kw": {"range_type": "absolute", "optimal_fit_num_samples": 9}}, {"op": "emod"},
          {"op": "fit", "kw": {"optimal_fit_num_samples": 7}}, {"op": "emod"}]),
        ("E(delta) scan, then the number of scan samples is set directly",
         [pp1, {"op": "fit", "kw": {"range_type": "absolute", "optimal_fit_num_samples": 9}}, {"op": "emod"},
          {"op": "set", "key": "optimal_fit_num_samples", "value": 6}, {"op": "emod"}]),
        ("E(delta) scan without a fit, then the weighting width changes",
         [pp1, {"op": "set", "key": "optimal_fit_num_samples", "value": 6}, {"op": "emod"},
          {"op": "set", "key": "weight_cp", "value": 1e-6}, {"op": "emod"}]),
        ("plateau search, then range_x[1] changes",
         [pp1, plateau, {"op": "fit", "kw": {"range_x": [-8e-7, 2e-7]}}]),
    ]


def run_scenarios(ctx, lines, expect, hists, check_fresh):
    for name, ops in scenarios():
        for cid in (0, 2):
            w = histlib.World(cid, ctx.rng)
            lines.append({"op": "new"})
            expect.append(None)
            hists.append(None)
            for op in ops:
                op = op(w) if callable(op) else copy.copy(op)
                if "kw" in op:
                    op["kw"] = {k: (v if k == "params_initial" else copy.deepcopy(v)) for k, v in op["kw"].items()}
                line, obs = exec_op(ctx, w, op, ctx.rng, check_fresh)
                if line is None:
                    continue
                lines.append(line)
                expect.append((op, obs))
                hists.append(list(w.history))
            ctx.case({"scenario": name, "curve": cid}, nontrivial=f"scenario:{name}:{cid}", bucket="stream=scenarios")


def run_histories(ctx, pid, focus, nhist, check_fresh=True, direct_pp_edits=True, directed=None):
    from nanite import preproc
    rng = ctx.rng
    lines, expect, hists = [], [], []
    step_ids = {f.identifier: i for i, f in enumerate(preproc.PREPROCESSORS)}
    lines.append(defaults_line(step_ids))
    expect.append(None)
    hists.append(None)
    for h in range(nhist):
        w = histlib.World(rng.randrange(3), rng)
        if w.leak and not getattr(ctx, "_leak_reported", False):
            ctx._leak_reported = True
            ctx.violation("fresh-curve-not-fresh", w.leak, {"history": ["(earlier histories of this run edited the "
                          "public attributes idnt.preprocessing / idnt.preprocessing_options of their own curves in place)",
                          "new curve"], "observed": w.leak})
        lines.append({"op": "new"})
        expect.append(None)
        hists.append(None)
        nfits_model_expected = 0
        for k in range(rng.randint(3, 10)):
            op = gen_op(w, rng, focus)
            if not direct_pp_edits and op["op"] == "set" and op["key"] in histlib.PP_KEYS:
                continue
            line, obs = exec_op(ctx, w, op, rng, check_fresh)
            if line is None:
                continue
            lines.append(line)
            expect.append((op, obs))
            hists.append(list(w.history))
            if op["op"] == "set" and op["key"] in histlib.PP_KEYS:
                break     # recorded finding (direct edit of the stored pipeline): the history ends here
        ctx.case({"history": list(w.history), "curve": w.cid}, nontrivial=json.dumps(w.history),
                 bucket=["stream=histories"] + ["op=" + h_.split("(")[0].split(" ")[0] for h_ in w.history])
    if direct_pp_edits:
        replay_witness(ctx)
    if directed is not False:
        run_directed(ctx, lines, expect, hists, check_fresh, which=directed,
                     cid=2 if getattr(ctx, "check_rating_value", False) else 0)
    run_scenarios(ctx, lines, expect, hists, check_fresh)
    out = ctx.driver("Indent", lines)
    if out is None:
        return
    prev_nfits = prev_nrates = 0
    for line, exp, hist, o in zip(lines, expect, hists, out):
        if line.get("op") == "new":
            prev_nfits = prev_nrates = 0
        if exp is None:
            continue
        op, obs = exp
        head, res, fitcols, nfits, nrates, fp, scan = parse_model(o)
        m = {"outcome": head, "res": res, "fitcols": fitcols, "fit_ran": nfits > prev_nfits,
             "rated": nrates - prev_nrates, "fp": fp, "scan": scan}
        if op["op"] == "emod":
            m["fit_ran"] = None
        prev_nfits, prev_nrates = nfits, nrates
        if op["op"] == "rate":
            cached_real = (obs["rated"] == 0 and op["regressor"].lower() != "none")
            a = {"outcome": "ok cached=" + str(cached_real).lower(), "res": obs["res"], "fitcols": obs["fitcols"],
                 "fit_ran": obs["fit_ran"], "rated": obs["rated"], "fp": obs["fp"], "scan": obs["scan"]}
            if obs["outcome"] != "ok":
                a["outcome"] = obs["outcome"]
        else:
            a = {k: obs[k] for k in ("outcome", "res", "fitcols", "fit_ran", "rated", "fp", "scan")}
        if a != m:
            diff = {k: (a[k], m[k]) for k in a if a[k] != m[k]}
            ctx.disagree({"history": hist}, {k: v[0] for k, v in diff.items()}, {k: v[1] for k, v in diff.items()},
                         "object state after the last operation of the history")


def replay_witness(ctx):
    """step 5b: the history of the Lean witness `c03w_direct_edit_of_preprocessing` on the implementation"""
    import warnings as _w
    w = histlib.World(0, ctx.rng)
    with _w.catch_warnings():
        _w.simplefilter("ignore")
        w.idnt.apply_preprocessing(["compute_tip_position", "correct_tip_offset"], {})
        w.idnt.fit_properties["preprocessing"] = ["compute_tip_position"]
        try:
            w.idnt.fit_model()
        except BaseException:  # noqa
            pass
    w.history = ["apply_preprocessing(['compute_tip_position', 'correct_tip_offset'], {})",
                 "set preprocessing = ['compute_tip_position']", "fit_model()"]
    ctx.case({"witness": w.history}, nontrivial="witness:direct-edit", bucket="stream=witness-replay")
    for sig, what in w.fresh_oracle():
        ctx.violation(DIRECT_EDIT_SIG, what, {"history": w.history, "curve": 0})
        break


def common_setup(ctx, pid):
    ok_gen = ctx.gen(["fitkeys", "preproc"])
    ctx.build(MODS[pid], clean=(ctx.tier == "thorough"))
    ctx.grep_audit()
    if ctx.tier == "thorough":
        ctx.leanchecker([m for m in MODS[pid] if ".Props." in m])
    return ok_gen


def run(ctx):
    ctx.trusted = TRUST_COMMON + [
        "hand-written object model lean/Nanite/Model/Indent.lean of FitProperties.__setitem__/reset, "
        "apply_preprocessing, fit_model and the rating cache (provenance semantics; tied by history "
        "correspondence: outcome kind, keys and canonical values stored, results / fit columns present, whether an "
        "optimiser run / a rating happened)",
        "numerical determinism of preprocessing steps and lmfit for equal inputs is observed (byte comparison "
        "with a fresh object), not proved"]
    ctx.rule = ("random histories (3-10 operations) over apply_preprocessing (valid / invalid / caller-held "
                "pipelines, ret_details), fit_model(**subsets of settings incl. invalid ones and preprocessing "
                "through fit_model), direct edits of fit settings, rate_quality, and in-place edits of previously "
                "passed objects, on 3 synthetic curves; after every operation the real object is compared with "
                "the Lean model AND with a fresh object on which only the stored pipeline and settings are "
                "applied; non-trivial = distinct history")
    common_setup(ctx, "C03")
    run_histories(ctx, "C03", focus=(2, 5, 2.5, 0.6, 2), nhist=80 if ctx.tier == "quick" else 1200)


def replay(ctx, path):
    run(ctx)
    return ctx.finish()
