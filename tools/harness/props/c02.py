"""C02 – shipped models evaluate their published formulas: regeneration + proofs, validation of the
translator (Float rendering vs numpy), docstring constants, and the formula / series-error oracle."""
import json
import math
import re
import struct
import warnings

import numpy as np

from core import TRUST_COMMON
import fitlib

MODS = ["Nanite.Props.C02", "Nanite.Audit.C02"]
MODELS = fitlib.MODELS


def bits(v):
    return struct.unpack("<Q", struct.pack("<d", float(v)))[0]


def unbits(s):
    return struct.unpack("<d", struct.pack("<Q", int(s)))[0]


def ulp_diff(a, b_):
    if a == b_ or (math.isnan(a) and math.isnan(b_)):
        return 0
    if math.isnan(a) or math.isnan(b_) or math.isinf(a) or math.isinf(b_):
        return 10 ** 9
    def key(v):
        u = bits(v)
        return u if u < (1 << 63) else (1 << 63) - u
    return abs(key(a) - key(b_))


def rand_params(mk, rng):
    """parameter vector inside the bounds of the model, as a list in signature order"""
    from nanite import model
    p = model.models_available[mk].get_parameter_defaults()
    out = []
    for name in p:
        if name.startswith("E_L"):
            v = rng.uniform(1, 900)
        elif name.startswith("E"):
            # (no upper bound on the modulus: soft samples mostly, sometimes a stiff substrate - glass is ~1e11 Pa)
            v = 10 ** (rng.uniform(1, 6) if rng.random() < 0.8 else rng.uniform(6, 11.3))
        elif name == "R":
            v = 10 ** rng.uniform(-6.5, -4.5)
        elif name.startswith("nu"):
            v = rng.choice([0.0, 0.1, 0.3, 0.45, 0.5])
        elif name == "alpha":
            v = rng.uniform(0.5, min(p[name].max, 85))
        elif name == "t":
            v = 10 ** rng.uniform(-8, -5.5)
        elif name == "contact_point":
            v = rng.choice([0.0, rng.uniform(-1e-6, 1e-6)])
        elif name == "baseline":
            v = rng.choice([0.0, rng.uniform(-1e-9, 1e-9)])
        else:
            v = p[name].value
        out.append(float(v))
    return list(p.keys()), out


def documented(mk, d, P):
    """the documented closed form, written independently of the implementation (depth d > 0)"""
    if mk == "hertz_para":
        return 4 / 3 * P["E"] / (1 - P["nu"] ** 2) * math.sqrt(P["R"]) * d ** 1.5
    if mk == "hertz_cone":
        return 2 * math.tan(math.radians(P["alpha"])) / math.pi * P["E"] / (1 - P["nu"] ** 2) * d ** 2
    if mk == "hertz_pyr3s":
        return 0.8887 * math.tan(math.radians(P["alpha"])) * P["E"] / (1 - P["nu"] ** 2) * d ** 2
    if mk == "sneddon_spher_approx":
        x = d / P["R"]
        ser = 1 - x / 10 - x ** 2 / 840 + 11 * x ** 3 / 15120 + 1357 * x ** 4 / 6652800
        return 4 / 3 * P["E"] / (1 - P["nu"] ** 2) * math.sqrt(P["R"]) * d ** 1.5 * ser
    if mk == "power_layer_clifford_2009":
        xi = math.sqrt(P["R"] * d) / P["t"] * (P["E_L"] / P["E_S"]) ** (2 / 3) \
            * (1 - 0.22 * P["nu_S"] ** 2) / (1 - 1.92 * P["nu_L"] ** 2)
        Es = P["E_L"] + (P["E_S"] - P["E_L"]) * 2.25 * xi ** 1.5 / (1 + 2.25 * xi ** 1.5)
        return 4 / 3 * Es * math.sqrt(P["R"]) * d ** 1.5
    raise KeyError(mk)


DOC_TOKENS = {
    "hertz_para": [r"\frac{4}{3}", r"\sqrt{R}", r"\delta^{3/2}"],
    "hertz_cone": [r"\frac{2\tan\alpha}{\pi}", r"\delta^2"],
    "hertz_pyr3s": ["0.8887", r"\tan\alpha", r"\delta^2"],
    "sneddon_spher_approx": [r"\frac{4}{3}", r"\frac{1}{10}", r"\frac{1}{840}", r"\frac{11}{15120}",
                             r"\frac{1357}{6652800}"],
    "power_layer_clifford_2009": [r"\frac{4}{3}", "P=2.25", "n=1.5", "m=2/3", "=0.22", "=1.92"],
}


def run(ctx):
    ctx.trusted = TRUST_COMMON + [
        "tools/py2lean/models.py: translation of the element-wise model_func bodies from their Python AST to "
        "Lean (ℝ for the proofs, Float for execution); validated on every run by comparing the Float "
        "rendering with numpy (bit differences reported in ulp)",
        "lean/Nanite/Model/Spec/Contact.lean: the documented formulas, written by hand from the docstrings; "
        "their constants are cross-checked against the live model_doc",
        "the agreement of the ℝ and Float renderings (IEEE-754 rounding) is measured, not proved; the 1e-4 "
        "bound of the truncated sphere series is checked on a grid against the exact implicit solution"]
    ctx.rule = ("per shipped model: random parameter vectors inside the bounds x abscissae at, just below and "
                "just above the contact point, depths up to the tip radius, arrays entirely in / out of contact, "
                "ascending, descending and shuffled arrays; generated Float rendering vs numpy (ulp), documented "
                "formula vs implementation (relative 1e-12), exact baseline outside contact, sphere series vs "
                "exact solution on a grid; non-trivial = distinct (model, parameters, abscissa kind)")
    ok_gen = ctx.gen(["models"])
    ctx.build(MODS, clean=(ctx.tier == "thorough"))
    ctx.grep_audit()
    if ctx.tier == "thorough":
        ctx.leanchecker(["Nanite.Props.C02"])
    from nanite import model
    rng = ctx.rng
    nvec = 40 if ctx.tier == "quick" else 2000
    lines, expect, metas = [], [], []
    for mk in MODELS:
        md = model.models_available[mk]
        func = md.module.model_func
        doc = md.model_doc
        math_block = doc.split(".. math::")[1].split("Parameters")[0] if ".. math::" in doc else ""
        for tok in DOC_TOKENS[mk]:
            ctx.case({"oracle": "doc-constant", "model": mk, "token": tok}, nontrivial=f"doc:{mk}:{tok}",
                     bucket="oracle=doc-constants")
            if tok.replace(" ", "") not in math_block.replace(" ", ""):
                ctx.violation(f"doc-constant:{mk}:{tok}",
                              f"the documented formula of {mk} no longer contains '{tok}' (the code is proved "
                              "equal to the formula with that constant)", {"input": {"model": mk, "token": tok}})
        for v in range(nvec):
            names, vals = rand_params(mk, rng)
            if rng.random() < 0.15 or v in (5, 7):
                # boundary-coincident parameter values
                P0 = dict(zip(names, vals))
                if "E_L" in P0:
                    c_ = rng.choice(["E", "nu", "both"])
                    if c_ in ("E", "both"):
                        P0["E_S"] = P0["E_L"]
                    if c_ in ("nu", "both"):
                        P0["nu_S"] = P0["nu_L"] = rng.choice([0.3, 0.1, 0.45])
                if "nu" in P0:
                    P0["nu"] = rng.choice([0.0, 0.5])
                vals = [P0[n_] for n_ in names]
            if "E_L" in names and v in (1, 3):
                # a soft layer on a stiff substrate (the documented use: ~100 GPa glass under a ~kPa layer)
                vals[names.index("E_S")] = float(10 ** rng.uniform(9.5, 11.3))
                vals[names.index("E_L")] = float(rng.uniform(5, 100))
            at_limit = None
            if v >= 9 and (v - 9) % 4 == 0:
                # "parameters inside the bounds" includes the declared limits: one parameter on one of its finite
                # limits, wherever the documented formula itself is defined there (it is not for a tip of zero radius in
                # the sphere series or a substrate of zero stiffness - division by that parameter)
                pdef = md.get_parameter_defaults()
                cands = [(n_, float(b__)) for n_ in names if n_ not in ("contact_point", "baseline")
                         for b__ in (pdef[n_].min, pdef[n_].max) if np.isfinite(b__)]
                n_, lim_ = cands[((v - 9) // 4) % len(cands)]
                trial = list(vals)
                trial[names.index(n_)] = lim_
                try:
                    defined = math.isfinite(documented(mk, 1e-7, dict(zip(names, trial))))
                except (ZeroDivisionError, ValueError, OverflowError):
                    defined = False
                if defined:
                    vals, at_limit = trial, f"{n_}={lim_:g}"
            P = dict(zip(names, vals))
            cp, b_ = P["contact_point"], P["baseline"]
            R = P.get("R", 5e-6) or 5e-6
            kinds = ["around-contact", "deep", "all-out", "all-in", "shuffled", "ascending", "cycle", "all-out",
                     "cycle"]
            kind = kinds[v % len(kinds)]         # every kind of array for every model, in turn
            if kind == "all-out" and P["baseline"] == 0.0:
                # the exact-baseline clause needs a baseline that is not zero
                vals[names.index("baseline")] = rng.uniform(-1e-9, 1e-9)
                P = dict(zip(names, vals))
                b_ = P["baseline"]
            if kind == "around-contact":
                d = np.array([cp, np.nextafter(cp, 1), np.nextafter(cp, -1), cp + 1e-9, cp - 1e-9, cp - 1e-7,
                              cp + 1e-7, cp - 1e-12])
            elif kind == "deep":
                d = cp - np.linspace(0, R, 9)
            elif kind == "all-out":
                d = cp + np.array([0.0, 1e-9, 2e-7, 1e-6, 5e-6])
            elif kind == "all-in":
                d = cp - np.array([1e-9, 2e-8, 3e-7, 1e-6])
            elif kind == "cycle":
                # approach and retract in one array: both end points out of contact, interior in contact
                a_ = np.linspace(cp + rng.uniform(1e-7, 1e-6), cp - rng.uniform(1e-7, 1e-6), rng.randint(3, 7))
                r_ = a_[::-1][1:] + rng.choice([0.0, 1e-8])
                d = np.concatenate([a_, r_]) if rng.random() < 0.7 else np.concatenate([r_[::-1], a_[::-1]])[::-1]
            elif kind == "ascending":
                d = np.sort(cp + np.array([rng.uniform(-1e-6, 1e-6) for _ in range(8)]))
            else:
                d = cp + np.array([rng.uniform(-1e-6, 1e-6) for _ in range(9)])
            d0 = d.copy()
            with warnings.catch_warnings():
                warnings.simplefilter("ignore")
                f = np.asarray(func(d, *vals), dtype=float)
            meta = {"model": mk, "params": P, "kind": kind, "delta": [float(x) for x in d], "at_limit": at_limit}
            ctx.case({"model": mk, "kind": kind, "params": {k: float(v) for k, v in P.items()}},
                     nontrivial=json.dumps([mk, vals, kind, list(map(float, d))]),
                     bucket=["model=" + mk, "kind=" + kind, "at-declared-limit=" + str(at_limit is not None)])
            if at_limit and not np.all(np.isfinite(f)):
                ctx.violation(f"not-finite-at-limit:{mk}:{at_limit}",
                              f"{mk}: with {at_limit} (a declared limit at which the documented formula is defined) the "
                              f"model returns {int(np.sum(~np.isfinite(f)))} non-finite forces", {"input": meta})
                continue
            if not np.array_equal(d, d0):
                ctx.violation(f"input-modified:{mk}", "model function modified its abscissa", {"input": meta})
            if f.shape != d.shape:
                ctx.violation(f"shape:{mk}", f"output shape {f.shape} != input shape {d.shape}", {"input": meta})
                continue
            # the same values through the public wrapper NaniteFitModel.model(params, delta)
            pw = md.get_parameter_defaults()
            for n_, v_ in zip(names, vals):
                pw[n_].set(value=v_)
            with warnings.catch_warnings():
                warnings.simplefilter("ignore")
                try:
                    fw = np.asarray(md.model(pw, d.copy()), dtype=float)
                except BaseException as e:  # noqa
                    fw = None
                    ctx.violation(f"wrapper-raises:{mk}:{kind}", f"{mk}.model(params, delta) raises {e!r}",
                                  {"input": meta})
            if fw is not None and (fw.shape != f.shape or not np.array_equal(fw, f)):
                bad_i = int(np.argmax(fw != f)) if fw.shape == f.shape else -1
                ctx.violation(f"wrapper-differs:{mk}:{kind}",
                              f"{mk}: NaniteFitModel.model gives {fw[bad_i] if bad_i >= 0 else fw.shape!r} where "
                              f"model_func gives {f[bad_i] if bad_i >= 0 else f.shape!r} (index {bad_i} of a "
                              f"'{kind}' array)", {"input": meta})
            for x, fx in zip(d, f):
                depth = cp - x
                if depth > 0:
                    ref = documented(mk, depth, P) + b_
                    if not math.isclose(fx, ref, rel_tol=1e-11, abs_tol=1e-13 * abs(ref - b_) + 0.0):
                        ctx.violation(f"formula:{mk}:{kind}",
                                      f"{mk}: force {fx!r} differs from the documented formula {ref!r} "
                                      f"(depth {depth!r})", {"input": meta, "observed": fx, "expected": ref})
                        break
                else:
                    if fx != b_:
                        ctx.violation(f"noncontact:{mk}:{kind}",
                                      f"{mk}: force {fx!r} is not exactly the baseline {b_!r} where the tip is "
                                      "not in contact", {"input": meta, "observed": fx, "expected": b_})
                        break
                if at_limit:
                    continue              # (libm and numpy differ near tan(90 degrees): no Float-rendering comparison)
                lines.append({"model": mk, "args": [float(x)] + vals})
                expect.append(fx)
                metas.append((mk, kind))
    out = ctx.driver("C02", lines) if ok_gen else None
    if out is not None:
        worst = {}
        for (mk, kind), fx, o in zip(metas, expect, out):
            u = ulp_diff(fx, unbits(o))
            worst[mk] = max(worst.get(mk, 0), u)
            # rpow/tan are not correctly rounded identically in libm and numpy; budget: 16 ulp of the result
            # plus cancellation against the baseline (relative 1e-12 of the largest term)
            if u > 16 and not math.isclose(fx, unbits(o), rel_tol=1e-12, abs_tol=1e-22):
                ctx.disagree({"model": mk, "kind": kind}, fx, unbits(o),
                             "generated Float rendering vs numpy evaluation")
        ctx.extra["float_rendering_max_ulp"] = worst
    # truncated series vs the exact (implicit) Sneddon sphere solution, depths up to the tip radius
    try:
        from nanite_model_sneddon_spher import model_sneddon_spherical as exact
        have_exact = True
    except Exception:
        have_exact = False
    if have_exact:
        ngrid = 400 if ctx.tier == "quick" else 20000
        worst = 0.0
        for R in (2e-6, 5e-6, 10e-6):
            d = np.linspace(R * 1e-3, R, ngrid)
            delta = -d
            fa = model.models_available["sneddon_spher_approx"].module.model_func(delta, 1000.0, R, 0.5, 0.0, 0.0)
            with warnings.catch_warnings():
                warnings.simplefilter("ignore")
                fe = exact.model_func(delta, 1000.0, R, 0.5, 0.0, 0.0)
            err = float(np.max(np.abs(fa - fe)) / np.max(np.abs(fe)))
            worst = max(worst, err)
            ctx.case({"oracle": "series-vs-exact", "R": R, "max_rel_err": err}, nontrivial=f"series:{R}",
                     bucket="oracle=series-vs-exact")
            if err > 1e-4:
                ctx.violation("series-error", f"truncated sphere series deviates {err:.3e} of F_max from the exact "
                              f"solution for depths up to R={R}", {"input": {"R": R}, "observed": err})
        ctx.extra["series_max_error_over_Fmax"] = worst
    else:
        ctx.notes.append("nanite_model_sneddon_spher not importable: series-vs-exact grid skipped")


def replay(ctx, path):
    run(ctx)
    return ctx.finish()
