"""C05 – exactly the requested points are fitted: masks, relative-cp anchoring, xmin/xmax and the
plateau-search grid against the Lean model at exact rationals, plus the property oracle."""
import copy
import json
import warnings

import numpy as np

from core import TRUST_COMMON
import fitlib
from fitlib import q

MODS = ["Nanite.Props.C05", "Nanite.Audit.C05", "Nanite.Props.C03Scan", "Nanite.Audit.C05Scan"]
EPS = np.finfo(float).eps


def seg_int(s):
    if s in ("approach", "retract"):
        return 0 if s == "approach" else 1
    return int(s)


def expected_mask(x, seg, lo, hi):
    """the property statement: requested segment AND closed interval (zero width = whole segment)"""
    if lo == hi:
        return seg.copy()
    a, b_ = min(lo, hi), max(lo, hi)
    return seg & (x >= a) & (x <= b_)


def run(ctx):
    ctx.trusted = TRUST_COMMON + [
        "hand-written model lean/Nanite/Model/Fitter.lean of the absolute / relative-cp masks, xmin/xmax and the "
        "plateau grid (tied by correspondence at exact rationals; per-pass contact points are recorded from the "
        "wrapped lmfit.minimize)",
        "convergence of the relative-cp passes and the plateau detection on the Butterworth-smoothed modulus "
        "curve are runtime numerics (explored by the oracle)",
        "the scan cache (`compute_emodulus_mindelta`: a visible scan has the stored number of samples for every "
        "history, Props/C03Scan.c05_scan_sample_count) is a theorem about the object model Model/Indent.lean, whose "
        "correspondence runs in ./check C03 (histories with scan requests); here the sample count is checked on "
        "the real code in the sequences stream"]
    ctx.rule = ("random fits (segments, absolute intervals incl. boundaries coinciding with sample abscissae, "
                "inverted, one-sided, few-nm-narrow and zero-width intervals; contact-point-relative intervals "
                "on curves with model mismatch; plateau search with 5-12 samples); the 'fit range' column, "
                "xmin/xmax and the scan grid are compared with the Lean model and with the property statement; "
                "non-trivial = distinct case whose fit ran")
    ctx.gen(["fitkeys", "preproc"])          # (tables the object model of the scan cache is built on)
    ctx.build(MODS, clean=(ctx.tier == "thorough"))
    ctx.grep_audit()
    if ctx.tier == "thorough":
        ctx.leanchecker(["Nanite.Props.C05", "Nanite.Props.C03Scan"])
    n = 140 if ctx.tier == "quick" else 1500
    lines, expect, metas = [], [], []
    for i in range(n):
        idnt, kw, truth, meta = fitlib.gen_fit_case(ctx.rng, ctx.seed * 100000 + i, allow_plateau=True)
        res, rec = fitlib.fit(idnt, **copy.deepcopy(kw))
        if res != "ok":
            ctx.case({**meta, "result": res}, bucket=["result=" + res])
            continue
        fp = idnt.fit_properties
        x = np.asarray(idnt["tip position"], dtype=float)
        seg = np.asarray(idnt["segment"]) == seg_int(kw["segment"])
        used = np.asarray(idnt["fit range"], dtype=bool)
        k = float(fp["gcf_k"])
        rx = [float(v) for v in kw["range_x"]]
        ctx.case({**meta, "success": bool(fp.get("success")), "passes": len(rec.calls), "used": int(used.sum())},
                 nontrivial=json.dumps(meta, sort_keys=True, default=str),
                 bucket=["range=" + ("plateau" if meta["plateau"] else meta["range_type"]),
                         f"passes={len(rec.calls)}", f"success={bool(fp.get('success'))}",
                         "segment=" + meta["segment"], f"k={meta['gcf_k']}"])
        rep = {"input": meta}
        # ---------------- interval actually requested for the final pass ----------------
        if meta["plateau"]:
            dopt = fp.get("optimal_fit_delta")
            grid = np.asarray(fp.get("optimal_fit_delta_array"))
            nsamp = kw["optimal_fit_num_samples"]
            if grid is None or dopt is None:
                continue
            xmin_seg = x[seg].min()
            if len(grid) != nsamp or len(fp["optimal_fit_E_array"]) != nsamp:
                ctx.violation("plateau-sample-count", f"scan arrays have {len(grid)} samples, {nsamp} requested",
                              rep)
            if not (np.all(np.diff(grid) > 0) or np.all(np.diff(grid) < 0)):
                ctx.violation("plateau-grid-not-monotonic", "scan depths are not monotonic", rep)
            if not (grid.min() - 1e-15 <= dopt <= grid.max() + 1e-15):
                ctx.violation("plateau-dopt-outside-scan", f"optimal depth {dopt} outside the scanned depths "
                              f"[{grid.min()}, {grid.max()}]", rep)
            lines.append({"op": "grid", "xmin": q(xmin_seg), "n": int(nsamp)})
            expect.append(("grid", grid))
            metas.append(meta)
            hi = np.max(rx)
            if np.isinf(hi):
                pass
            lo, hi = float(dopt), float(np.max(rx))
        elif meta["range_type"] == "relative cp":
            # the final pass is anchored at the contact point reported by the pass before it
            if len(rec.calls) < 2:
                lo = hi = None       # an early pass had too few points
            else:
                cp_prev = rec.calls[-2]["cp_out"] / k if used.sum() > 0 and len(rec.calls) == 4 else None
                if cp_prev is None:
                    lo = hi = None
                else:
                    lo, hi = rx[0] + cp_prev, rx[1] + cp_prev
        else:
            lo, hi = rx
        if lo is None:
            continue
        # ---------------- oracle: the property statement ----------------
        exp = expected_mask(x, seg, lo, hi)
        if not np.array_equal(exp, used):
            d = int(np.sum(exp != used))
            kind = "plateau" if meta["plateau"] else meta["range_type"]
            ctx.violation(f"wrong-points:{kind}:{'zero-width' if lo == hi else 'interval'}",
                          f"{d} points differ between the points used and the requested segment/closed "
                          f"interval [{lo}, {hi}] ({int(used.sum())} used, {int(exp.sum())} expected)",
                          {**rep, "interval": [lo, hi]})
        if bool(fp.get("success")) and used.sum() > 0:
            xm, xM = x[used].min(), x[used].max()
            if abs(fp["xmin"] - xm) > 4 * EPS * abs(xm) or abs(fp["xmax"] - xM) > 4 * EPS * abs(xM):
                ctx.violation("xmin-xmax", f"xmin/xmax ({fp['xmin']}, {fp['xmax']}) are not the extreme abscissae "
                              f"of the used points ({xm}, {xM})", rep)
        # ---------------- model ----------------
        if len(x) <= 700:
            lines.append({"op": "mask", "seg": [bool(b) for b in seg], "xs": [q(v) for v in x],
                          "a": q(lo) if np.isfinite(lo) else ("-1" + "0" * 30 if lo < 0 else "1" + "0" * 30),
                          "b": q(hi) if np.isfinite(hi) else ("-1" + "0" * 30 if hi < 0 else "1" + "0" * 30)})
            expect.append(("mask", used))
            metas.append(meta)
    sequences(ctx)
    single_precision(ctx, lines, expect, metas)
    dwell_curves(ctx, lines, expect, metas)
    out = ctx.driver("Fit", lines) if lines else None
    if out is not None:
        for (kind, val), o, meta in zip(expect, out, metas):
            if kind == "mask":
                m = [t == "true" for t in o.strip("[]").split(", ")] if o != "[]" else []
                if m != [bool(b) for b in val]:
                    ctx.disagree(meta, int(np.sum(val)), int(sum(m)), "'fit range' column vs model mask")
            else:
                g = np.array(fitlib.parse_list(o))
                if len(g) != len(val) or np.any(np.abs(g - val) > 8 * EPS * np.abs(val).max()):
                    ctx.disagree(meta, list(map(float, val[:3])), list(map(float, g[:3])), "plateau scan grid")


def dwell_curves(ctx, lines, expect, metas):
    """curves recorded with a pause: three segments (approach 0, dwell 1, retract 2); 'the requested segment' is
    the one with the requested index"""
    import warnings
    rng = ctx.rng
    for i in range(6 if ctx.tier == "quick" else 60):
        mk = rng.choice(fitlib.MODELS[:3])
        truth = fitlib.truth_params(mk, rng, cp=0.0)
        idnt = fitlib.synth_curve_dwell(mk, truth, rng, noise=2e-11, seed=3000 + i)
        segid = [2, 0, 2, 1, 2, 0][i % 6]
        rt, rx = [("absolute", (0, 0)), ("absolute", (-6e-7, 4e-7)), ("absolute", (3e-7, -5e-7)),
                  ("absolute", (0, 0)), ("relative cp", (-5e-7, 3e-7)), ("absolute", (-2e-7, 1e-6))][i % 6]
        meta = {"stream": "dwell", "model": mk, "segment": segid, "range_type": rt, "range_x": list(rx), "i": i}
        with warnings.catch_warnings():
            warnings.simplefilter("ignore")
            try:
                idnt.fit_model(model_key=mk, range_type=rt, range_x=rx, segment=segid, preprocessing=[], weight_cp=0)
            except BaseException as e:  # noqa
                ctx.case({**meta, "result": repr(e)}, bucket=["stream=dwell", "result=raises"])
                if segid != 1:
                    ctx.violation("fit-raises:dwell", f"fitting segment {segid} of a three-segment curve raises {e!r}",
                                  {"input": meta})
                continue
        x = np.asarray(idnt["tip position"], dtype=float)
        seg = np.asarray(idnt["segment"]) == segid
        used = np.asarray(idnt["fit range"], dtype=bool)
        fp = idnt.fit_properties
        ctx.case(meta, nontrivial=json.dumps(meta, sort_keys=True), bucket=["stream=dwell", f"segment={segid}"])
        if np.any(used & ~seg):
            ctx.violation("wrong-points:other-segment", f"{int(np.sum(used & ~seg))} of the points used are not in the "
                          f"requested segment {segid} (segments of the curve: 0, 1, 2)", {"input": meta})
            continue
        if rt == "absolute":
            lo, hi = min(rx), max(rx)
            exp = expected_mask(x, seg, lo, hi)
            if not np.array_equal(exp, used):
                ctx.violation("wrong-points:absolute:dwell", f"{int(np.sum(exp != used))} points differ between the points "
                              f"used and segment {segid} within [{lo}, {hi}]", {"input": meta})
            lines.append({"op": "mask", "seg": [bool(b) for b in seg], "xs": [q(v) for v in x],
                          "a": q(lo), "b": q(hi)})
            expect.append(("mask", used))
            metas.append(meta)
        if fp.get("success") and used.sum() > 0:
            xm, xM = x[used].min(), x[used].max()
            if abs(fp["xmin"] - xm) > 4 * EPS * abs(xm) or abs(fp["xmax"] - xM) > 4 * EPS * abs(xM):
                ctx.violation("xmin-xmax:dwell", f"xmin/xmax ({fp['xmin']}, {fp['xmax']}) are not the extreme abscissae of "
                              f"the used points ({xm}, {xM})", {"input": meta})


def single_precision(ctx, lines, expect, metas):
    """curves whose abscissa column is stored in single precision (instrument files do that), intervals given
    as ordinary Python floats that lie within a float32 rounding of a sample: the closed interval is exact"""
    import warnings
    from curves import make_indentation
    rng = ctx.rng
    for i in range(4 if ctx.tier == "quick" else 60):
        mk = rng.choice(fitlib.MODELS[:3])
        truth = fitlib.truth_params(mk, rng, cp=0.0)
        base = fitlib.synth_curve(mk, truth, rng, n_app=200, n_ret=80, noise=1e-11, seed=1000 + i)
        idnt = make_indentation(np.asarray(base["force"]), np.asarray(base["height (measured)"]),
                                np.asarray(base["segment"]), time=np.asarray(base["time"]),
                                tip=np.asarray(base["tip position"]), tip_dtype=np.float32)
        x = np.asarray(idnt["tip position"])
        if x.dtype != np.float32:
            ctx.notes.append("single-precision abscissa not kept by Indentation(data=...): stream skipped")
            return
        x64 = x.astype(np.float64)
        seg = np.asarray(idnt["segment"]) == 0
        cand = np.where(seg & (np.abs(x64) > 1e-8))[0]
        j_hi, j_lo = sorted(rng.sample(list(cand[5:-5]), 2))     # approach: abscissa decreases with the index
        # bounds just inside the neighbouring samples: x[j_hi] is slightly above the upper bound, x[j_lo]
        # slightly below the lower one - both samples are outside the closed interval
        hi = float(x64[j_hi]) - 1e-9 * abs(float(x64[j_hi]))
        lo = float(x64[j_lo]) + 1e-9 * abs(float(x64[j_lo]))
        if rng.random() < 0.5:
            lo, hi = hi, lo                                       # inverted order is accepted as well
        meta = {"stream": "single-precision", "model": mk, "i": i, "range_x": [lo, hi], "n": int(x.size),
                "sample_above": float(x64[j_hi]), "sample_below": float(x64[j_lo])}
        with warnings.catch_warnings():
            warnings.simplefilter("ignore")
            try:
                idnt.fit_model(model_key=mk, range_type="absolute", range_x=[lo, hi], segment=0,
                               preprocessing=[])
            except BaseException as e:  # noqa
                ctx.case({**meta, "result": repr(e)}, bucket=["stream=single-precision", "result=raises"])
                continue
        used = np.asarray(idnt["fit range"], dtype=bool)
        exp = expected_mask(x64, seg, min(lo, hi), max(lo, hi))
        ctx.case(meta, nontrivial=json.dumps(meta, sort_keys=True), bucket=["stream=single-precision"])
        if not np.array_equal(exp, used):
            ctx.violation("wrong-points:absolute:single-precision",
                          f"{int(np.sum(exp != used))} points differ between the points used and the closed interval "
                          f"[{min(lo, hi)!r}, {max(lo, hi)!r}] on a float32 abscissa (samples "
                          f"{float(x64[j_hi])!r} / {float(x64[j_lo])!r} lie just outside)", {"input": meta})
        fp = idnt.fit_properties
        if fp.get("success") and used.sum() > 0:
            if not (min(lo, hi) <= fp["xmin"] and fp["xmax"] <= max(lo, hi)):
                ctx.violation("xmin-xmax:single-precision", f"xmin/xmax ({fp['xmin']!r}, {fp['xmax']!r}) outside the "
                              f"requested interval [{min(lo, hi)!r}, {max(lo, hi)!r}]", {"input": meta})
        lines.append({"op": "mask", "seg": [bool(b) for b in seg], "xs": [q(v) for v in x64],
                      "a": q(min(lo, hi)), "b": q(max(lo, hi))})
        expect.append(("mask", used))
        metas.append(meta)


def sequences(ctx):
    """settings given in one call and used by a later one: the plateau scan must use the requested number of
    samples and the requested upper bound no matter in which call they were passed"""
    import warnings
    rng = ctx.rng
    scens = ["samples-then-search", "search-off-samples-on", "upper-bound-then-search", "scan-called-directly"]
    for i in range(4 if ctx.tier == "quick" else 32):
        mk = rng.choice(fitlib.MODELS[:3])
        truth = fitlib.truth_params(mk, rng, cp=0.0)
        n1, n2 = rng.choice([7, 12, 24]), rng.choice([9, 15, 31])
        hi = rng.choice([0.0, 4e-7])
        scen = scens[i % 4]
        idnt = fitlib.synth_curve(mk, truth, rng, n_app=300, n_ret=100, noise=1e-11, seed=i)
        hist = []
        with warnings.catch_warnings():
            warnings.simplefilter("ignore")
            try:
                if scen == "samples-then-search":
                    idnt.fit_model(model_key=mk, optimal_fit_num_samples=n1, range_type="absolute", range_x=[-2e-6, hi])
                    hist.append(f"fit_model(optimal_fit_num_samples={n1}, range_x=[-2e-6, {hi}])")
                    idnt.fit_model(optimal_fit_edelta=True)
                    hist.append("fit_model(optimal_fit_edelta=True)")
                    want_n, want_hi = n1, hi
                elif scen == "search-off-samples-on":
                    idnt.fit_model(model_key=mk, optimal_fit_edelta=True, optimal_fit_num_samples=n1,
                                   range_type="absolute", range_x=[-2e-6, hi])
                    idnt.fit_model(optimal_fit_edelta=False)
                    idnt.fit_model(optimal_fit_num_samples=n2)
                    idnt.fit_model(optimal_fit_edelta=True)
                    hist += [f"fit_model(optimal_fit_edelta=True, optimal_fit_num_samples={n1})",
                             "fit_model(optimal_fit_edelta=False)", f"fit_model(optimal_fit_num_samples={n2})",
                             "fit_model(optimal_fit_edelta=True)"]
                    want_n, want_hi = n2, hi
                elif scen == "scan-called-directly":
                    # plateau search off: the E(delta) scan is requested with compute_emodulus_mindelta()
                    idnt.fit_model(model_key=mk, optimal_fit_num_samples=n1, range_type="absolute", range_x=[-2e-6, hi])
                    e1, d1 = idnt.compute_emodulus_mindelta()
                    hist += [f"fit_model(optimal_fit_num_samples={n1}, range_x=[-2e-6, {hi}])",
                             f"compute_emodulus_mindelta() -> {len(d1)} samples"]
                    if len(d1) != n1:
                        ctx.violation("plateau-sample-count:sequence", f"{hist}: {n1} samples were requested",
                                      {"history": list(hist), "observed": len(d1), "expected": n1})
                    # asked again, the scan comes from the cache: the same two arrays, in the same order
                    e1b, d1b = idnt.compute_emodulus_mindelta()
                    if not (np.array_equal(e1b, e1, equal_nan=True) and np.array_equal(d1b, d1, equal_nan=True)):
                        ctx.violation("scan-cache-differs", f"{hist}: a second compute_emodulus_mindelta() returns other "
                                      f"arrays than the first (first depths {np.asarray(d1)[:2]}, second "
                                      f"{np.asarray(d1b)[:2]})", {"history": list(hist) + ["compute_emodulus_mindelta()"]})
                    idnt.fit_model(optimal_fit_num_samples=n2)
                    e2, d2 = idnt.compute_emodulus_mindelta()
                    hist += [f"fit_model(optimal_fit_num_samples={n2})",
                             f"compute_emodulus_mindelta() -> {len(d2)} samples"]
                    want_n, want_hi = n2, hi
                else:
                    idnt.fit_model(model_key=mk, range_type="absolute", range_x=[-2e-6, hi])
                    idnt.fit_model(optimal_fit_edelta=True, optimal_fit_num_samples=n1)
                    hist += [f"fit_model(range_x=[-2e-6, {hi}])",
                             f"fit_model(optimal_fit_edelta=True, optimal_fit_num_samples={n1})"]
                    want_n, want_hi = n1, hi
            except BaseException as e:  # noqa
                ctx.violation(f"sequence-raises:{scen}", f"{hist} + next call raised {e!r}", {"history": hist})
                continue
        fp = idnt.fit_properties
        if "optimal_fit_delta_array" in fp:
            with warnings.catch_warnings():
                warnings.simplefilter("ignore")
                ec, dc = idnt.compute_emodulus_mindelta()
            if not (np.array_equal(dc, fp["optimal_fit_delta_array"], equal_nan=True) and
                    np.array_equal(ec, fp["optimal_fit_E_array"], equal_nan=True)):
                ctx.violation("scan-accessor-differs", f"{hist}: compute_emodulus_mindelta() does not return (moduli, depths) "
                              f"as the fit stored them (depths returned {np.asarray(dc)[:2]}, stored "
                              f"{np.asarray(fp['optimal_fit_delta_array'])[:2]})", {"history": list(hist)})
        ctx.case({"sequence": scen, "history": hist}, nontrivial=f"seq:{scen}:{i}:{n1}:{n2}:{hi}", bucket="stream=sequences")
        got_n = len(fp.get("optimal_fit_delta_array", []))
        if got_n != want_n:
            ctx.violation("plateau-sample-count:sequence", f"{hist}: the scan has {got_n} samples, {want_n} were "
                          "requested", {"history": hist, "observed": got_n, "expected": want_n})
        x = np.asarray(idnt["tip position"], dtype=float)
        seg = np.asarray(idnt["segment"]) == 0
        used = np.asarray(idnt["fit range"], dtype=bool)
        dopt = fp.get("optimal_fit_delta")
        if dopt is not None and fp.get("success"):
            exp = expected_mask(x, seg, float(dopt), float(want_hi)) if want_hi != dopt else None
            if exp is not None and not np.array_equal(exp, used):
                ctx.violation("wrong-points:plateau:sequence", f"{hist}: {int(np.sum(exp != used))} points differ from "
                              f"the closed interval [{dopt}, {want_hi}]", {"history": hist})


def replay(ctx, path):
    run(ctx)
    return ctx.finish()
