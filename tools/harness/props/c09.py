"""C09 – quality rating: history engine of C03 with the weight on rate_quality (cache), plus the
state-class x regressor x training-set oracle (totality, value class, range, determinism across objects
and processes, equality with the standalone rater)."""
import copy
import json
import os
import subprocess
import sys
import warnings

import numpy as np

from core import TRUST_COMMON
import histlib
from props import c03

TREE_AVERAGING = ["Decision Tree", "Extra Trees", "Random Forest"]


def direct_rater(reg, ts, names, lda):
    """an IndentationRater built directly (not through get_rater): regressor class and default keyword
    arguments from the live table, training set loaded with the public loader when given by label / path"""
    from nanite.rate import rater as nrater
    from nanite.rate import IndentationRater
    if not isinstance(ts, tuple):
        path = IndentationRater.get_training_set_path(label=ts) if ts in nrater.get_available_training_sets() else ts
        ts = IndentationRater.load_training_set(path=path, names=names)
    cl, kw = nrater.reg_dict[reg]
    return IndentationRater(regressor=cl(**copy.deepcopy(kw)), training_set=ts, names=names, lda=lda)


def read_training_dir(path, names=None):
    """a training-set directory read WITHOUT the library's loader, cleaned as documented: a NaN feature of a
    zero-rated sample becomes the mean of that feature over the zero-rated samples that have a number there; samples
    that still hold a NaN are dropped; infinities become plus / minus twice the largest finite magnitude of their
    feature (the statement C15 proves of the loader's model)"""
    import pathlib
    from nanite.rate import IndentationRater
    path = pathlib.Path(path)
    cont = IndentationRater.get_feature_names(which_type=["continuous"], names=names)
    X = np.array([np.loadtxt(path / f"train_{n}.txt", dtype=float, ndmin=1) for n in cont]).T
    y = np.loadtxt(path / "train_response.txt", dtype=float, ndmin=1)
    X = X.reshape(len(y), len(cont)).copy()
    zero = y == 0
    for j in range(X.shape[1]):
        nan = np.isnan(X[:, j])
        if np.any(zero & nan) and np.any(zero & ~nan):
            with np.errstate(all="ignore"):
                X[zero & nan, j] = np.mean(X[zero & ~nan, j])
    keep = ~np.isnan(X).any(axis=1)
    X, y = X[keep], y[keep]
    for j in range(X.shape[1]):
        inf = np.isinf(X[:, j])
        if inf.any() and (~inf).any():
            X[inf, j] = np.sign(X[inf, j]) * 2 * np.max(np.abs(X[~inf, j]))
    return X, y


def sklearn_reference(reg, ts, lda, idnt, names=None):
    """the rating recomputed without IndentationRater: scikit-learn pipeline built from the documented rules
    (tree-based regressors: no scaler, no LDA by default; others: scaler, LDA unless lda is False), regressor class and
    keyword arguments from the live table, occurrence weights 1/count(class) normalised; None when the rating is not
    a prediction (a binary criterion fails or a feature is undefined)"""
    from sklearn.pipeline import make_pipeline
    from sklearn.preprocessing import StandardScaler
    from sklearn.discriminant_analysis import LinearDiscriminantAnalysis
    from nanite.rate import rater as nrater
    from nanite.rate import regressors
    from nanite.rate.features import IndentationFeatures
    if not isinstance(ts, tuple):
        # a training set given by label / directory: loaded with the public loader for the selected features
        from nanite.rate import IndentationRater
        path = IndentationRater.get_training_set_path(label=ts) if ts in nrater.get_available_training_sets() else ts
        ts = read_training_dir(path, names)
    X, y = np.array(ts[0], dtype=float), np.array(ts[1], dtype=float)
    cl, kw = nrater.reg_dict[reg]
    tree = cl.__name__ in regressors.reg_trees
    use_lda = (not tree) if lda is None else bool(lda)
    steps = ([] if tree else [StandardScaler()]) + ([LinearDiscriminantAnalysis()] if use_lda else []) + \
        [cl(**copy.deepcopy(kw))]
    # (rating classes are the integers 0..10; any other response - e.g. -1 for an unrated curve - carries no weight)
    w = np.zeros(len(y))
    for v in np.unique(y):
        if v in range(11):
            w[y == v] = 1.0 / np.sum(y == v)
    w /= w.sum()
    pipe = make_pipeline(*steps)
    pipe.fit(X, y, **{pipe.steps[-1][0] + "__sample_weight": w})
    with np.errstate(all="ignore"):
        # (only the selected features take part: a criterion that is not selected cannot exclude the curve)
        b_ = IndentationFeatures.compute_features(idnt, which_type="binary", names=names)
        c_ = IndentationFeatures.compute_features(idnt, which_type="continuous", names=names)
    if np.any(np.asarray(b_) == 0) or np.any(np.isnan(b_)) or np.any(np.isnan(c_)):
        return None
    return float(pipe.predict(np.atleast_2d(c_))[0])


def pipeline_tie(ctx):
    """which transforms precede the regressor: IndentationRater vs the Lean decision model (Model/Pipeline.lean),
    for every regressor of the live table x scale x lda, and without a regressor"""
    from nanite.rate import rater as nrater
    from nanite.rate import regressors
    from nanite.rate import IndentationRater
    g = np.random.default_rng(5)
    X, y = g.normal(0, 1, (40, 3)), g.integers(0, 11, 40).astype(float)
    lines, expect, metas = [], [], []
    for reg in list(nrater.reg_names) + [None]:
        for scale in (None, True, False):
            for lda in (None, True, False):
                if reg is None:
                    robj, tree, cname = None, False, None
                else:
                    cl, kw = nrater.reg_dict[reg]
                    robj, tree, cname = cl(**copy.deepcopy(kw)), cl.__name__ in regressors.reg_trees, cl.__name__
                meta = {"tie": "pipeline", "regressor": reg, "scale": scale, "lda": lda}
                with warnings.catch_warnings():
                    warnings.simplefilter("ignore")
                    try:
                        rt = IndentationRater(regressor=robj, scale=scale, lda=lda, training_set=(X.copy(), y.copy()))
                        got = ",".join("regressor" if type(st[1]).__name__ == cname else type(st[1]).__name__.lower()
                                       for st in rt.pipeline.steps)
                    except BaseException as e:  # noqa
                        got = "raises " + type(e).__name__
                ctx.case(meta, nontrivial=json.dumps(meta), bucket=["stream=pipeline-tie", f"lda={lda}", f"scale={scale}"])
                lines.append({"reg": reg is not None, "tree": bool(tree), "scale": scale, "lda": lda})
                expect.append(got)
                metas.append(meta)
    out = ctx.driver("C09", lines)
    if out is not None:
        for meta, a, b_ in zip(metas, expect, out):
            if a != b_:
                ctx.disagree(meta, a, b_, "steps of the rating pipeline")


def state_classes(cid):
    """(label, curve) for every reachable state class"""
    out = []
    with warnings.catch_warnings():
        warnings.simplefilter("ignore")
        w = histlib.fresh(cid)
        out.append(("fresh", w))
        w = histlib.fresh(cid)
        w.apply_preprocessing(["compute_tip_position", "correct_tip_offset"])
        out.append(("preprocessed", w))
        w = histlib.fresh(cid)
        w.fit_model(preprocessing=["compute_tip_position", "correct_tip_offset"])
        out.append(("fitted", w))
        w = histlib.fresh(cid)
        w.fit_model(preprocessing=["compute_tip_position", "correct_tip_offset"])
        w.fit_properties["weight_cp"] = 0
        out.append(("fitted-then-set", w))
        # a fitted curve that is too short for the rater's size criterion (160 approach samples)
        w = histlib.fresh(0)
        w.fit_model(preprocessing=["compute_tip_position", "correct_tip_offset"])
        out.append(("fitted-short", w))
        w = histlib.fresh(cid)
        w.fit_model(preprocessing=["compute_tip_position", "correct_tip_offset"], range_x=(5e-3, 6e-3))
        out.append(("unsuccessful-fit", w))
        w = histlib.fresh(cid)
        w.fit_model(preprocessing=["compute_tip_position", "correct_tip_offset"], range_type="relative cp",
                    range_x=(-4e-9, 0))
        out.append(("failed-last-pass", w))
        w = histlib.fresh(cid)
        try:
            w.fit_model(preprocessing=["compute_tip_position", "correct_tip_offset"], range_type="bogus")
        except BaseException:  # noqa
            pass
        out.append(("failed-call", w))
        # successful fits whose (fixed) contact point leaves exactly 0, 1, 2 or 3 approach samples in front of it (a
        # curve recorded without a baseline): the baseline features are undefined there - a rating of -1, never an error
        for k_ in (0, 1, 2, 3):
            w = histlib.fresh(cid)
            w.apply_preprocessing(["compute_tip_position", "correct_tip_offset"])
            x_ = np.asarray(w["tip position"])[np.asarray(w["segment"]) == 0]
            cp_ = float(x_[0] + abs(x_[0] - x_[1])) if k_ == 0 else float(0.5 * (x_[k_ - 1] + x_[k_]))
            p_ = w.get_initial_fit_parameters(model_key="hertz_para")
            p_["contact_point"].set(value=cp_, vary=False)
            try:
                w.fit_model(model_key="hertz_para", params_initial=p_)
            except BaseException:  # noqa
                pass
            out.append((f"fitted-{k_}-baseline-samples", w))
    return out


SUB = r"""
import sys, json, warnings
sys.path.insert(0, %r); sys.path.insert(0, %r)
warnings.simplefilter("ignore")
import histlib
res = {}
for cid in (2,):
    w = histlib.fresh(cid)
    w.fit_model(preprocessing=["compute_tip_position", "correct_tip_offset"])
    for reg in %r:
        res[reg] = float(w.rate_quality(regressor=reg))
print(json.dumps(res))
"""


def run(ctx):
    ctx.trusted = TRUST_COMMON + [
        "models lean/Nanite/Model/Rater.lean (rating decision, averaging ensemble) and Indent.lean (rating "
        "cache); scikit-learn training / prediction (determinism, numeric range) is runtime - explored"]
    ctx.rule = ("histories weighted towards rate_quality (regressors incl. 'none' and non-tree ones, two in-memory "
                "training sets passed as fresh equal tuples, feature subsets incl. a caller-held list edited in "
                "place, lda None/False/True) vs the cache model; state classes (fresh, preprocessed, fitted, fitted "
                "then edited, unsuccessful fit, failed last pass, failed call) x regressors x training sets (shipped, "
                "exported user directory, in-memory): no exception, value class, [0,10] for averaging trees, repeat "
                "= fresh object = standalone rater = other process with another PYTHONHASHSEED; non-trivial = "
                "distinct (state, regressor, training set, names, lda)")
    c03.common_setup(ctx, "C09")
    pipeline_tie(ctx)
    ctx.check_rating_value = True
    c03.run_histories(ctx, "C09", focus=(1.5, 3, 1.5, 5, 1.5), nhist=30 if ctx.tier == "quick" else 600,
                      check_fresh=False, direct_pp_edits=False,
                      directed=lambda name: name.startswith(("rate", "pp(P1)", "fit()", "fit(weight", "set")))
    from nanite.rate import rater as nrater
    from nanite.rate import IndentationRater
    regs = ["Extra Trees", "none", "Decision Tree", "SVR (linear kernel)"] if ctx.tier == "quick" else \
        list(nrater.reg_names) + ["none", "NONE"]
    import tempfile
    import pathlib
    import shutil
    tdir = pathlib.Path(tempfile.mkdtemp(prefix="verif_c09_"))
    try:
        # a user training-set directory (text files as written by the export)
        X, y = IndentationRater.load_training_set()
        names = IndentationRater.get_feature_names(which_type=["continuous"])
        for j, n in enumerate(names):
            np.savetxt(tdir / f"train_{n}.txt", X[::7, j], fmt="%.2e")
        np.savetxt(tdir / "train_response.txt", y[::7], fmt="%.2e")
        tsets = [("zef18", "zef18"), ("user-dir", str(tdir)), ("in-memory", (X[::5].copy(), y[::5].copy())),
                 # ratings are the integers 0..10: a response array of integer type is the same training set
                 ("in-memory-int-response", (X[::5].copy(), y[::5].astype(int)))]
        for label, idnt in state_classes(2):
            for reg in regs:
                for tlabel, ts in (tsets if ctx.tier != "quick" else tsets[:1] + tsets[2:]):
                    for nm, lda in ((None, None), (["feat_con_apr_sum", "feat_con_idt_sum", "feat_bin_size"], None),
                                    (None, False), (None, True),
                                    (["feat_con_idt_sum", "feat_con_apr_sum", "feat_con_cp_magnitude"], None)):
                        if lda is True and not reg.startswith("SVR"):
                            continue
                        if reg.startswith("SVR") and ctx.tier == "quick" and not isinstance(ts, tuple):
                            continue
                        if isinstance(ts, tuple) and nm is not None:
                            continue
                        meta = {"state": label, "regressor": reg, "training_set": tlabel, "names": nm, "lda": lda}
                        ctx.case(meta, nontrivial=json.dumps(meta), bucket=["stream=state-classes", "state=" + label,
                                                                             "regressor=" + reg])
                        with warnings.catch_warnings():
                            warnings.simplefilter("ignore")
                            try:
                                a = idnt.rate_quality(regressor=reg, training_set=ts, names=nm, lda=lda)
                                b_ = idnt.rate_quality(regressor=reg, training_set=copy.deepcopy(ts), names=nm,
                                                       lda=lda)
                            except BaseException as e:  # noqa
                                ctx.violation(f"rate-quality-raises:{label}:{type(e).__name__}",
                                              f"rate_quality raised {e!r} in state '{label}'", {"input": meta})
                                continue
                            fitted = bool(idnt.fit_properties.get("success", False)) and \
                                "hash" in idnt.fit_properties
                            if reg.lower() == "none" and a != -1:
                                ctx.violation("none-regressor", f"'none' returned {a}", {"input": meta})
                            if not fitted and a not in (-1, 0):
                                ctx.violation(f"unfitted-rating:{label}", f"rating {a} without a successful current "
                                              "fit", {"input": meta})
                            if a != b_:
                                ctx.violation("not-repeatable", f"repeated call gives {b_} after {a}", {"input": meta})
                            if fitted and reg in TREE_AVERAGING and not (a in (-1, 0) or 0 <= a <= 10):
                                ctx.violation("out-of-range", f"{reg} rated {a}", {"input": meta})
                            if fitted and reg.lower() != "none":
                                rt = nrater.get_rater(regressor=reg, training_set=copy.deepcopy(ts), names=nm, lda=lda)
                                c = rt.rate(datasets=idnt)[0]
                                # ... and what it computes "from the curve's features": the samples entry point, fed with
                                # the feature vector in the order of the rater's names
                                from nanite.rate.features import IndentationFeatures as _IF
                                try:
                                    with np.errstate(all="ignore"):
                                        fv = [float(getattr(_IF(idnt), n_)()) for n_ in rt.names]
                                    cs = rt.rate(samples=np.atleast_2d(fv))[0]
                                except BaseException as e:  # noqa
                                    cs = "raises " + repr(e)
                                if not (cs == a or (isinstance(cs, float) and np.isnan(cs) and np.isnan(a))):
                                    ctx.violation("differs-from-rater-on-features",
                                                  f"rate_quality gives {a!r}, the standalone rater fed with the curve's "
                                                  f"features (rate(samples=...)) gives {cs!r}", {"input": meta})
                                if c != a:
                                    ctx.violation("differs-from-standalone-rater",
                                                  f"rate_quality gives {a}, the standalone rater {c}", {"input": meta})
                                if (isinstance(ts, tuple) and nm is None) or \
                                        (not isinstance(ts, tuple) and (nm is not None or label == "fitted-short")):
                                    ref = sklearn_reference(reg, ts, lda, idnt, names=nm)
                                    if ref is not None and abs(ref - a) > 1e-9 * max(1.0, abs(ref)):
                                        ctx.violation("differs-from-scikit-learn-reference",
                                                      f"rate_quality({reg}, lda={lda}) gives {a!r}; the documented "
                                                      f"pipeline built directly with scikit-learn gives {ref!r}",
                                                      {"input": meta, "expected": ref, "observed": a})
                                c2 = direct_rater(reg, copy.deepcopy(ts), nm, lda).rate(datasets=idnt)[0]
                                if c2 != a:
                                    ctx.violation("differs-from-directly-built-rater",
                                                  f"rate_quality gives {a}, an IndentationRater built directly from "
                                                  f"the same regressor and training set gives {c2}", {"input": meta})
        # the rating is a function of the training set VALUES: sets that differ only in the middle rows (same shape,
        # same first / last rows), and a user directory rewritten in place, must not be confused
        Xa, ya = X.copy(), y.copy()
        Xb, yb = X.copy(), y.copy()
        mid = slice(len(yb) // 3, 2 * len(yb) // 3)
        yb[mid] = 10 - yb[mid]
        Xb[mid] = Xb[mid][::-1]
        for reg in ("Extra Trees", "Decision Tree"):
            vals = []
            for lab, ts in (("set-a", (Xa, ya)), ("set-b", (Xb, yb)), ("set-a-again", (Xa.copy(), ya.copy()))):
                meta = {"oracle": "training-set-values", "regressor": reg, "training_set": lab}
                ctx.case(meta, nontrivial=json.dumps(meta), bucket="stream=training-set-values")
                with warnings.catch_warnings():
                    warnings.simplefilter("ignore")
                    w_ = dict(state_classes(2))["fitted"]
                    a = w_.rate_quality(regressor=reg, training_set=ts)
                    c2 = direct_rater(reg, (ts[0].copy(), ts[1].copy()), None, None).rate(datasets=w_)[0]
                vals.append(a)
                if a != c2:
                    ctx.violation("rating-ignores-training-set-values",
                                  f"rate_quality with in-memory training set '{lab}' gives {a!r}, a rater built directly "
                                  f"on these arrays gives {c2!r} (sets a and b share shape, first and last rows)",
                                  {"input": meta, "observed": a, "expected": c2})
        tdir2 = tdir / "rewritten"
        for rnd, sl in enumerate((slice(0, None, 7), slice(3, None, 5))):
            if tdir2.exists():
                shutil.rmtree(tdir2)
            tdir2.mkdir()
            for j, n in enumerate(names):
                np.savetxt(tdir2 / f"train_{n}.txt", X[sl, j], fmt="%.2e")
            np.savetxt(tdir2 / "train_response.txt", y[sl], fmt="%.2e")
            meta = {"oracle": "user-directory-rewritten", "round": rnd}
            ctx.case(meta, nontrivial=json.dumps(meta), bucket="stream=training-set-values")
            with warnings.catch_warnings():
                warnings.simplefilter("ignore")
                w_ = dict(state_classes(2))["fitted"]
                a = w_.rate_quality(regressor="Extra Trees", training_set=str(tdir2))
                c2 = direct_rater("Extra Trees", str(tdir2), None, None).rate(datasets=w_)[0]
            if a != c2:
                ctx.violation("rating-ignores-rewritten-training-set",
                              f"user training-set directory rewritten at the same path: rate_quality gives {a!r}, a rater "
                              f"built directly from the directory as it is now gives {c2!r}", {"input": meta})
        # user directories whose files hold NaN and infinite entries (cleaned on loading as documented), and a user
        # directory that merely carries the NAME of a shipped training set: the rating must be the one of the
        # documented pipeline trained on the directory's own, cleaned, contents
        g = np.random.default_rng(ctx.seed + 77)
        dirs = []
        for dname, sl in (("dirty", slice(0, None, 5)), ("named/zef18", slice(2, None, 6))):
            d = tdir / dname
            d.mkdir(parents=True)
            Xd, yd = X[sl].copy(), y[sl].copy()
            if dname == "dirty":
                rows = g.choice(len(yd), size=min(24, len(yd)), replace=False)
                for r in rows[:10]:
                    # plus and minus infinity in two different features of one sample
                    j1, j2 = g.choice(Xd.shape[1], size=2, replace=False)
                    Xd[r, j1], Xd[r, j2] = np.inf, -np.inf
                for r in rows[10:14]:
                    Xd[r, g.integers(Xd.shape[1])] = np.inf * g.choice([-1, 1])
                zero_rows = np.where(yd == 0)[0]
                for r in zero_rows[:6]:
                    Xd[r, g.integers(Xd.shape[1])] = np.nan          # zero-rated, NaN in varying features
                for r in rows[14:18]:
                    Xd[r, g.integers(Xd.shape[1])] = np.nan
                # unrated samples (response -1) sitting exactly where the rated curve is in feature space: they carry
                # no weight and must not pull the rating out of 0..10
                from nanite.rate.features import IndentationFeatures as _IF0
                with warnings.catch_warnings(), np.errstate(all="ignore"):
                    warnings.simplefilter("ignore")
                    fv0 = np.asarray(_IF0.compute_features(dict(state_classes(2))["fitted"], which_type="continuous"),
                                     dtype=float)
                if np.all(np.isfinite(fv0)) and fv0.size == Xd.shape[1]:
                    Xd = np.vstack([Xd, np.tile(fv0, (4, 1))])
                    yd = np.concatenate([yd, -np.ones(4)])
            else:
                yd = np.round(10 - yd)                                # unlike the shipped set of that name
            for j, n in enumerate(names):
                np.savetxt(d / f"train_{n}.txt", Xd[:, j])
            np.savetxt(d / "train_response.txt", yd)
            dirs.append((dname, d))
        for dname, d in dirs:
            for reg in (["Extra Trees", "Decision Tree"] if ctx.tier == "quick" else
                        ["Extra Trees", "Decision Tree", "Random Forest", "SVR (linear kernel)"]):
                for given in ("str", "Path"):
                    meta = {"oracle": "user-directory-contents", "directory": dname, "regressor": reg, "given_as": given}
                    ctx.case(meta, nontrivial=json.dumps(meta), bucket="stream=training-set-values")
                    with warnings.catch_warnings():
                        warnings.simplefilter("ignore")
                        w_ = dict(state_classes(2))["fitted"]
                        try:
                            a = w_.rate_quality(regressor=reg, training_set=str(d) if given == "str" else d)
                        except BaseException as e:  # noqa
                            ctx.violation(f"rate-quality-raises:user-directory:{type(e).__name__}",
                                          f"rate_quality raised {e!r} for the user directory '{dname}'", {"input": meta})
                            continue
                        ref = sklearn_reference(reg, str(d), None, w_)
                    if ref is not None and abs(ref - a) > 1e-9 * max(1.0, abs(ref)):
                        ctx.violation("user-directory-differs-from-reference",
                                      f"rate_quality({reg}, training_set=<directory '{dname}'>) gives {a!r}; the "
                                      "documented pipeline trained with scikit-learn on the directory's own contents "
                                      f"(read and cleaned independently) gives {ref!r}",
                                      {"input": meta, "expected": ref, "observed": a})
        # the order in which feature names are listed is immaterial (training columns and the curve's sample
        # must be paired by name), for training sets read from disk
        allc = IndentationRater.get_feature_names(which_type=["continuous"])
        for tlabel, ts in tsets[:2]:
            for reg in ("Extra Trees", "Decision Tree"):
                for k in range(3 if ctx.tier == "quick" else 12):
                    sel = ctx.rng.sample(allc, ctx.rng.randint(2, 5)) + (["feat_bin_size"] if k % 2 else [])
                    perm = list(sel)
                    ctx.rng.shuffle(perm)
                    if perm == sorted(perm):
                        perm = perm[::-1]
                    meta = {"oracle": "names-order", "regressor": reg, "training_set": tlabel, "names": perm}
                    ctx.case(meta, nontrivial=json.dumps(meta), bucket="stream=names-order")
                    with warnings.catch_warnings():
                        warnings.simplefilter("ignore")
                        try:
                            a = dict(state_classes(2))["fitted"].rate_quality(regressor=reg, training_set=ts,
                                                                             names=list(perm))
                            b_ = dict(state_classes(2))["fitted"].rate_quality(regressor=reg, training_set=ts,
                                                                              names=sorted(perm))
                        except BaseException as e:  # noqa
                            ctx.violation(f"rate-quality-raises:names:{type(e).__name__}",
                                          f"rate_quality(names={perm}) raised {e!r}", {"input": meta})
                            continue
                    if a != b_:
                        ctx.violation("rating-depends-on-order-of-names",
                                      f"rate_quality(names={perm}) = {a!r} but with the same names sorted = {b_!r} "
                                      f"({reg}, training set {tlabel})", {"input": meta, "observed": a, "expected": b_})
        # using the rater API with own regressor keyword arguments must not change later ratings
        from nanite.rate import regressors as nreg
        snap = copy.deepcopy({k: v[1] for k, v in nreg.reg_dict.items()})
        with warnings.catch_warnings():
            warnings.simplefilter("ignore")
            a = dict(state_classes(2))["fitted"].rate_quality(regressor="Extra Trees")
            nrater.get_rater("Extra Trees", n_estimators=3, max_depth=2)
            nrater.get_rater("Decision Tree", max_depth=2)
            b_ = dict(state_classes(2))["fitted"].rate_quality(regressor="Extra Trees")
        ctx.case({"oracle": "reg_kwargs isolation"}, nontrivial="reg-kwargs", bucket="stream=reg-kwargs")
        if a != b_ or snap != {k: v[1] for k, v in nreg.reg_dict.items()}:
            ctx.violation("rating-depends-on-earlier-get_rater-kwargs",
                          f"after get_rater('Extra Trees', n_estimators=3, max_depth=2) the rating of an equal fresh "
                          f"curve changed from {a!r} to {b_!r} (regressor defaults were modified in place)",
                          {"input": {"calls": ["rate_quality", "get_rater(..., n_estimators=3, max_depth=2)",
                                               "rate_quality on a fresh equal curve"]}})
        # other processes / hash seeds
        here = os.path.dirname(os.path.dirname(os.path.abspath(__file__)))
        outs = []
        for seed in (0, 4242):
            p = subprocess.run([sys.executable, "-c", SUB % (here, os.path.dirname(here), regs[:1] + regs[2:3])],
                               capture_output=True, text=True, env=dict(os.environ, PYTHONHASHSEED=str(seed)),
                               timeout=900)
            if p.returncode != 0:
                ctx.broken.append({"kind": "harness", "detail": p.stderr[-600:]})
                break
            outs.append(json.loads(p.stdout.strip().splitlines()[-1]))
            ctx.case({"oracle": "process", "PYTHONHASHSEED": seed}, nontrivial=f"proc:{seed}", bucket="stream=process")
        if len(outs) == 2 and outs[0] != outs[1]:
            ctx.violation("differs-across-processes", f"ratings differ between interpreter runs: {outs}", {})
    finally:
        shutil.rmtree(tdir, ignore_errors=True)


def replay(ctx, path):
    run(ctx)
    return ctx.finish()
