"""C15 – training sets: random matrices written as real training-set directories and loaded through
IndentationRater.load_training_set vs the Lean model (exact rationals), the property oracle, sample
weights, and the export / import round trip of rating containers."""
import fractions
import json
import random
import pathlib
import shutil
import tempfile
import warnings

import numpy as np

from core import TRUST_COMMON
from fitlib import q, qf

MODS = ["Nanite.Props.C15", "Nanite.Audit.C15", "Nanite.Props.C15Mixed", "Nanite.Audit.C15Mixed"]
VALS = [0.0, 0.125, -0.125, 0.25, 0.5, 1.0, 1.5, 2.5, -3.0, 12.0, 100.0, -0.5, 7.0]


def ext(v):
    if np.isnan(v):
        return "nan"
    if np.isinf(v):
        return "inf" if v > 0 else "-inf"
    return q(v)


def unext(s):
    return {"nan": np.nan, "inf": np.inf, "-inf": -np.inf}.get(s, None) if s in ("nan", "inf", "-inf") else qf(s)


def gen_matrix(rng, names_all):
    n = rng.choice([1, 2, 3, 5, 8, 15, 40])
    k = rng.randint(1, min(6, len(names_all)))
    names = rng.sample(names_all, k)
    resp = [float(rng.choice([0, 0, 0, 1, 3, 5, 8, 10])) for _ in range(n)]
    cols = {}
    for nm in names:
        mode = rng.choice(["clean", "nan-rows", "nan-zero", "inf", "mixed", "all-nan", "inf-only"])
        col = []
        for i in range(n):
            v = rng.choice(VALS)
            r = rng.random()
            if mode == "nan-rows" and r < 0.25:
                v = np.nan
            elif mode == "nan-zero" and resp[i] == 0 and r < 0.6:
                v = np.nan
            elif mode == "inf" and r < 0.3:
                v = rng.choice([np.inf, -np.inf])
            elif mode == "mixed" and r < 0.45:
                v = rng.choice([np.nan, np.inf, -np.inf])
            elif mode == "all-nan":
                v = np.nan
            elif mode == "inf-only" and r < 0.8:
                v = rng.choice([np.inf, -np.inf, np.nan])
            col.append(v)
        cols[nm] = col
    flags = {"impute": rng.random() < 0.8, "rm": rng.random() < 0.85, "ri": rng.random() < 0.8}
    return names, cols, resp, flags


def oracle(ctx, meta, X, y, cols_sorted, resp, flags):
    """the property statement on the loaded arrays"""
    rep = {"input": meta}
    if X.shape[0] != y.shape[0]:
        ctx.violation("rows-responses-misaligned", f"{X.shape[0]} rows but {y.shape[0]} responses", rep)
        return
    if flags["rm"] and np.isnan(X).any():
        ctx.violation("nan-in-samples", "sample matrix contains NaN although remove_nan is on", rep)
    if flags["ri"] and flags["rm"] and np.isinf(X).any():
        ctx.violation("inf-in-samples", "sample matrix contains infinities although replace_inf is on", rep)
    # every kept row must be an input row (same response), finite entries unchanged, order preserved
    src = np.array(cols_sorted, dtype=float).T.reshape(len(resp), -1) if cols_sorted else np.zeros((len(resp), 0))
    i0 = 0
    match = []
    for r in range(X.shape[0]):
        found = False
        for i in range(i0, len(resp)):
            if resp[i] != y[r]:
                continue
            ok = True
            for j in range(X.shape[1]):
                a, b_ = src[i, j], X[r, j]
                if np.isfinite(a) and a != b_:
                    ok = False
                    break
                if np.isnan(a) and not (resp[i] == 0 and flags["impute"]) and not np.isnan(b_):
                    ok = False
                    break
            if ok:
                found, i0 = True, i + 1
                match.append(i)
                break
        if not found:
            ctx.violation("row-not-an-input-sample", f"result row {r} (response {y[r]}) is not an input sample with "
                          "its finite entries unchanged, in order", rep)
            return
    # exactly the rows without NaN (after the imputation of zero-rated samples) are kept - and only then
    respa = np.array(resp)
    keep = np.ones(len(resp), dtype=bool)
    imp = src.copy()            # the samples after the imputation step (a fill value may itself be infinite)
    for j in range(src.shape[1]):
        col = src[:, j]
        nan = np.isnan(col)
        zero = respa == 0
        fill = np.nan
        if flags["impute"] and np.any(zero & nan) and np.any(zero & ~nan):
            with np.errstate(all="ignore"):
                fill = np.mean(col[zero & ~nan])
        if not np.isnan(fill):
            imp[zero & nan, j] = fill
        if flags["rm"]:
            for i in range(len(resp)):
                if nan[i] and not (zero[i] and not np.isnan(fill)):
                    keep[i] = False
    if list(respa[keep]) != list(y):
        ctx.violation("wrong-rows-kept", f"{int(keep.sum())} samples have no NaN after imputation but {len(y)} were "
                      f"returned (responses {list(y)[:10]} vs expected {list(respa[keep])[:10]})", rep)
        return
    # infinities become plus / minus twice the largest finite magnitude of that feature (over the returned rows)
    # (the rows returned are the input rows `keep`, in order - established just above)
    if flags["ri"] and int(keep.sum()) == X.shape[0]:
        for j in range(X.shape[1]):
            colx = X[:, j]
            srcj = imp[keep, j]
            infs = np.isinf(srcj)
            if not infs.any():
                continue
            fin = np.abs(colx[~infs])
            fin = fin[np.isfinite(fin)]
            if fin.size == 0:
                continue                  # (no finite value in the column: the error branch of the model)
            ext = float(fin.max())
            for r in np.where(infs)[0]:
                want = np.sign(srcj[r]) * 2 * ext
                if not (X[r, j] == want):
                    ctx.violation("inf-replacement", f"an infinite entry ({srcj[r]!r}) of feature column {j} became "
                                  f"{X[r, j]!r}; twice the largest finite magnitude of that feature is {want!r}",
                                  {**rep, "observed": float(X[r, j]) if np.isfinite(X[r, j]) else repr(X[r, j]),
                                   "expected": float(want)})
                    return


def weights_oracle(ctx, ys, w):
    rep = {"input": {"ratings": ys}}
    if np.any(w < 0) or abs(w.sum() - 1) > 1e-12:
        ctx.violation("weights-not-normalised", f"sample weights negative or not summing to one ({w.sum()!r})", rep)
    tot = {c: w[np.array(ys) == c].sum() for c in set(ys)}
    if max(tot.values()) - min(tot.values()) > 1e-12:
        ctx.violation("weights-class-imbalance", f"rating classes have different total weights {tot}", rep)


def run(ctx):
    ctx.trusted = TRUST_COMMON + [
        "hand-written model lean/Nanite/Model/TrainingSet.lean of load_training_set (after the files were read) "
        "and compute_sample_weight (tied by exact-rational correspondence through real training-set "
        "directories); text formatting (%.2e, np.loadtxt) and HDF5 iteration order are runtime"]
    ctx.rule = ("random matrices (1-40 samples, 1-6 feature columns chosen among the real feature names, NaN / +-inf "
                "patterns by row, column and response class, all-NaN and infinity-only columns, missing classes; all "
                "flag combinations; which_type given as string or as lists in any order) written as train_*.txt "
                "directories, loaded with load_training_set and compared entry by entry with the Lean model; "
                "compute_sample_weight on random integer ratings; export/import of a rating container; "
                "non-trivial = distinct matrix with at least one NaN or infinity")
    ctx.build(MODS, clean=(ctx.tier == "thorough"))
    ctx.grep_audit()
    if ctx.tier == "thorough":
        ctx.leanchecker(["Nanite.Props.C15", "Nanite.Props.C15Mixed"])
    from nanite.rate import IndentationRater
    rng = ctx.rng
    names_all = IndentationRater.get_feature_names(which_type="all")
    tdir = pathlib.Path(tempfile.mkdtemp(prefix="verif_c15_"))
    lines, expect, metas = [], [], []
    try:
        n = 250 if ctx.tier == "quick" else 6000
        for i in range(n):
            names, cols, resp, flags = gen_matrix(rng, names_all)
            d = tdir / f"ts{i}"
            d.mkdir()
            for nm in names:
                np.savetxt(d / f"train_{nm}.txt", np.array(cols[nm]), fmt="%.2e")
            np.savetxt(d / "train_response.txt", np.array(resp), fmt="%.2e")
            kinds = sorted({"binary" if nm.startswith("feat_bin_") else "continuous" for nm in names})
            wt = rng.choice(["all", kinds, kinds[::-1], list(kinds)])
            sel = sorted(nm for nm in names)
            meta = {"names": names, "which_type": wt, "flags": flags, "n": len(resp),
                    "cols": {nm: [ext(v) for v in cols[nm]] for nm in names}, "resp": resp}
            with warnings.catch_warnings():
                warnings.simplefilter("ignore")
                try:
                    X, y, fn = IndentationRater.load_training_set(
                        path=d, names=list(names), which_type=wt, replace_inf=flags["ri"],
                        impute_zero_rated_nan=flags["impute"], remove_nan=flags["rm"], ret_names=True)
                    got = "ok"
                except ValueError:
                    got = "err ValueError"
                except BaseException as e:  # noqa
                    got = "err other:" + type(e).__name__
            special = any(np.isnan(v) or np.isinf(v) for nm in names for v in cols[nm])
            ctx.case({k: meta[k] for k in ("names", "which_type", "flags", "n")},
                     nontrivial=json.dumps(meta, sort_keys=True) if special else None,
                     bucket=["result=" + got, f"n={len(resp)}", f"k={len(names)}",
                             "wt=" + (wt if isinstance(wt, str) else "list")] +
                            [f"{k}={v}" for k, v in flags.items()])
            lines.append({"op": "load", "impute": flags["impute"], "rm": flags["rm"], "ri": flags["ri"],
                          "m": len(sel), "rows": [[ext(cols[nm][r]) for nm in sel] for r in range(len(resp))],
                          "resp": [q(v) for v in resp]})
            if got == "ok":
                if list(fn) != sel:
                    ctx.violation("columns-not-sorted", f"returned feature names {list(fn)} are not the sorted "
                                  f"requested names {sel}", {"input": meta})
                X = np.atleast_2d(X)
                if X.shape[0] != len(np.atleast_1d(y)) and X.shape[1] == len(np.atleast_1d(y)):
                    X = X.T
                y = np.atleast_1d(y)
                oracle(ctx, meta, X, y, [cols[nm] for nm in sel], resp, flags)
                expect.append(("ok", X, y))
            else:
                expect.append((got, None, None))
                if got.startswith("err other"):
                    ctx.violation("loader-raises:" + got, f"load_training_set raised {got}", {"input": meta})
            metas.append(meta)
            shutil.rmtree(d)
        # sample weights
        wl, wexp = [], []
        for i in range(120 if ctx.tier == "quick" else 3000):
            ys = [rng.choice([0, 1, 2, 5, 8, 10]) for _ in range(rng.randint(1, 30))]
            w = IndentationRater.compute_sample_weight(None, np.array(ys, dtype=float))
            weights_oracle(ctx, ys, w)
            # ratings are integers: the element type of the response array must not matter
            for dt in (int, np.int8, np.float32):
                try:
                    wi = IndentationRater.compute_sample_weight(None, np.array(ys, dtype=dt))
                    same = np.allclose(np.asarray(wi, dtype=float), w, rtol=1e-6, atol=0)
                except BaseException as e:  # noqa
                    wi, same = repr(e), False
                if not same:
                    ctx.violation(f"weights-depend-on-dtype:{np.dtype(dt).name}",
                                  f"compute_sample_weight for the ratings {ys} as {np.dtype(dt).name}: "
                                  f"{wi if isinstance(wi, str) else np.asarray(wi).tolist()[:8]} instead of "
                                  f"{w.tolist()[:8]}", {"input": {"ratings": ys, "dtype": np.dtype(dt).name}})
                    break
            ctx.case({"weights": ys}, nontrivial="w:" + json.dumps(ys) if len(set(ys)) > 1 else None,
                     bucket="stream=weights")
            wl.append({"op": "weights", "ys": ys})
            wexp.append(w)
        # response lists that also hold values outside the rating classes 0..10 (-1: a curve that was not rated):
        # those samples carry no weight at all, the rated ones share the weight as before (own random stream)
        g_u = random.Random(ctx.seed * 613 + 11)
        for i in range(40 if ctx.tier == "quick" else 600):
            ys = [g_u.choice([0, 3, 7, 10, -1, -1, 11, 12]) for _ in range(g_u.randint(2, 25))]
            if not any(0 <= v <= 10 for v in ys):
                ys[0] = 5
            w = IndentationRater.compute_sample_weight(None, np.array(ys, dtype=float))
            ctx.case({"weights": ys, "unrated": True}, nontrivial="wu:" + json.dumps(ys), bucket="stream=weights-unrated")
            rated = [v for v in ys if 0 <= v <= 10]
            wr = w[[0 <= v <= 10 for v in ys]]
            if np.any(w[[not (0 <= v <= 10) for v in ys]] != 0):
                ctx.violation("unrated-sample-has-weight", f"compute_sample_weight gives weight to a response outside "
                              f"0..10 (ratings {ys}: weights {w.tolist()[:10]})", {"input": {"ratings": ys}})
            else:
                weights_oracle(ctx, rated, wr)
            wl.append({"op": "weights", "ys": ys})
            wexp.append(w)
        out = ctx.driver("C15", lines + wl)
        if out is not None:
            for meta, (got, X, y), o in zip(metas, expect, out[:len(lines)]):
                if got != "ok" or not o.startswith("ok"):
                    if (got == "ok") != o.startswith("ok") or (got != "ok" and got != o):
                        ctx.disagree(meta, got, o[:200], "outcome of load_training_set")
                    continue
                rows_s = o.split("rows=[")[1].split("] resp=[")[0]
                resp_s = o.split("resp=[")[1].rstrip("]")
                mrows = [[unext(t) for t in r.split(",")] if r else [] for r in rows_s.split(";")] if rows_s else []
                mresp = [qf(t) for t in resp_s.split(",")] if resp_s else []
                if not mresp or len(y) == 0:
                    ok = (len(mresp) == len(y))
                    mX = np.zeros((0, 0))
                else:
                    mX = np.array(mrows, dtype=float).reshape(len(mresp), -1)
                    Xr = X.reshape(len(y), -1)
                    ok = (list(y) == mresp) and mX.shape == Xr.shape and \
                        np.allclose(mX, Xr, rtol=1e-12, atol=0, equal_nan=True)
                if not ok:
                    ctx.disagree(meta, {"X": X.tolist()[:6], "y": list(y)[:12]},
                                 {"X": mX.tolist()[:6], "y": mresp[:12]}, "loaded samples / responses")
            for ln, w, o in zip(wl, wexp, out[len(lines):]):
                mw = np.array([qf(t) for t in o.strip("[]").split(",")]) if o != "[]" else np.array([])
                if mw.shape != w.shape or not np.allclose(mw, w, rtol=1e-12, atol=0):
                    ctx.disagree(ln, list(w)[:8], list(mw)[:8], "sample weights")
        export_roundtrip(ctx, tdir)
        export_folder(ctx, tdir)
    finally:
        shutil.rmtree(tdir, ignore_errors=True)


def export_roundtrip(ctx, tdir):
    """exporting a rating container as a training set and loading it returns each curve's features (to the
    three significant digits of the text format) and the user ratings in container order"""
    from nanite.rate import io as rio
    from nanite.rate import IndentationRater
    from nanite.rate.features import IndentationFeatures
    from props.c16 import Pool, new_container
    pool = Pool(tdir, ctx.seed)
    h5 = tdir / "exp.h5"
    new_container(h5)
    saved = []
    ratings = [3, 0.25, 7.5, 10]             # (user ratings are floats: fractional values are legitimate)
    with warnings.catch_warnings():
        warnings.simplefilter("ignore")
        for n, (fi, enum) in enumerate(pool.keys()[:4]):
            idnt = pool.get(fi, enum, "A")
            rio.save_hdf5(h5, idnt, ratings[n], "ann", "")
            saved.append((rio.hash_file(idnt.path) + f"_{idnt.enum}", idnt, ratings[n]))
        rm = rio.RateManager(h5)
        rm.export_training_set(tdir / "ts_export")
        X, y, fn = IndentationRater.load_training_set(tdir / "ts_export", which_type="all", remove_nan=False,
                                                      replace_inf=False, impute_zero_rated_nan=False, ret_names=True)
        saved.sort(key=lambda t: t[0])           # container order = sorted group names
        ok = list(y) == [float("%.2e" % r) for _, _, r in saved]
        detail = {"responses": list(y), "expected": [r for _, _, r in saved]}
        if ok:
            for r, (_, idnt, _) in enumerate(saved):
                f = IndentationFeatures.compute_features(idnt, names=list(fn))
                f3 = np.array([float("%.2e" % v) for v in f])
                if not np.allclose(X[r], f3, rtol=1e-12, atol=0, equal_nan=True):
                    ok = False
                    detail = {"row": r, "loaded": X[r].tolist(), "features(3 digits)": f3.tolist()}
                    break
    ctx.case({"oracle": "export-roundtrip", "curves": len(saved)}, nontrivial="export", bucket="stream=export")
    if not ok:
        ctx.violation("export-roundtrip", "exported training set does not return the curves' features / ratings "
                      "in container order", {"observed": detail})
    # the same manager after it was inspected and the container then grew / was re-rated: an export must
    # describe the container as it is now
    with warnings.catch_warnings():
        warnings.simplefilter("ignore")
        try:
            _ = rm.ratings
            _ = rm.datasets
            keys = pool.keys()
            first = saved[0]
            rio.save_hdf5(h5, first[1], 9, "ann", "re-rated")
            (fi, enum) = keys[4] if len(keys) > 4 else keys[0]
            extra = pool.get(fi, enum, "A")
            rio.save_hdf5(h5, extra, 1, "ann", "")
            now = {k: r for k, _, r in saved}
            now[first[0]] = 9
            now[rio.hash_file(extra.path) + f"_{extra.enum}"] = 1
            want = [float(now[k]) for k in sorted(now)]
            rm.export_training_set(tdir / "ts_export2")
            X2, y2 = IndentationRater.load_training_set(tdir / "ts_export2", which_type="all", remove_nan=False,
                                                        replace_inf=False, impute_zero_rated_nan=False)
            Xg, yg = rm.get_training_set(which_type="all")
            got = {"exported": [float(v) for v in np.atleast_1d(y2)], "get_training_set": [float(v) for v in yg],
                   "exported rows": int(np.atleast_2d(X2).shape[0]), "get rows": int(np.atleast_2d(Xg).shape[0])}
        except BaseException as e:  # noqa
            got = {"raised": repr(e)}
            want = None
    ctx.case({"oracle": "export-after-change"}, nontrivial="export2", bucket="stream=export")
    if want is None or got["exported"] != want or got["get_training_set"] != want or \
            got["exported rows"] != len(want) or got["get rows"] != len(want):
        ctx.violation("export-stale-after-container-change",
                      "RateManager inspected (.ratings / .datasets), container then re-rated and extended with "
                      f"save_hdf5, then exported: responses {got} but the container holds {want}",
                      {"history": ["rm = RateManager(h5)", "rm.ratings; rm.datasets", "save_hdf5(curve 0, rating 9)",
                                   "save_hdf5(new curve, rating 1)", "rm.export_training_set(); rm.get_training_set()"],
                       "observed": got, "expected": want})


def export_folder(ctx, tdir):
    """a FOLDER of rating containers (some of them in sub-folders) is one rating source: its export holds every rated
    curve once, each response next to that curve's features"""
    from nanite.rate import io as rio
    from nanite.rate import IndentationRater
    from nanite.rate.features import IndentationFeatures
    from props.c16 import Pool, new_container
    pool = Pool(tdir, ctx.seed + 1)
    root = tdir / "rating_folder"
    layout = [("01_first.h5", [0, 1]), ("02_session/second.h5", [2]), ("02_session/deeper/third.h5", [3])]
    keys = pool.keys()
    saved = []
    ratings = [3, 8, 6, 1]
    with warnings.catch_warnings():
        warnings.simplefilter("ignore")
        try:
            for rel, idxs in layout:
                h5 = root / rel
                h5.parent.mkdir(parents=True, exist_ok=True)
                new_container(h5)
                for j in idxs:
                    fi, enum = keys[j % len(keys)]
                    idnt = pool.get(fi, enum, "A")
                    rio.save_hdf5(h5, idnt, ratings[j], "ann", "")
                    saved.append((idnt, float(ratings[j])))
            rm = rio.RateManager(root)
            rm.export_training_set(tdir / "ts_export_folder")
            X, y, fn = IndentationRater.load_training_set(tdir / "ts_export_folder", which_type="all", remove_nan=False,
                                                          replace_inf=False, impute_zero_rated_nan=False, ret_names=True)
            X, y = np.atleast_2d(X), np.atleast_1d(y)
            got = sorted(float(v) for v in y)
            bad = None
            if got != sorted(r for _, r in saved):
                bad = f"responses {got} but the folder holds the ratings {sorted(r for _, r in saved)}"
            else:
                for idnt, r in saved:
                    row = int(np.where(y == r)[0][0])
                    f3 = np.array([float("%.2e" % v) for v in IndentationFeatures.compute_features(idnt, names=list(fn))])
                    if not np.allclose(X[row], f3, rtol=1e-12, atol=0, equal_nan=True):
                        bad = f"the row with response {r} does not hold the features of the curve rated {r}"
                        break
        except BaseException as e:  # noqa
            bad = "raised " + repr(e)
    ctx.case({"oracle": "export-folder", "containers": [l[0] for l in layout]}, nontrivial="export-folder",
             bucket="stream=export")
    if bad:
        ctx.violation("export-folder", "a folder of rating containers " + str([l[0] for l in layout]) + " exported as a "
                      "training set: " + bad, {"observed": bad})


def replay(ctx, path):
    run(ctx)
    return ctx.finish()
