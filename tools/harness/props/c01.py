"""C01 – fitting recovers the generating parameters: recovery runs on generated ground truth (the
optimiser part is runtime numerics – explored), on top of the zero-residual / identifiability
theorems about the regenerated model functions."""
import copy
import json
import warnings

import numpy as np

from core import TRUST_COMMON
import fitlib

MODS = ["Nanite.Props.C01", "Nanite.Props.C01Real", "Nanite.Audit.C01", "Nanite.Props.C01Noise",
        "Nanite.Audit.C01Noise"]

# the stated convergence basin (fixed here, echoed in the evidence)
BASIN = {"contact_point": "within +-10 % of the contact depth range of the truth",
         "E": "within a factor 3 (leastsq), 1.5 (nelder), and 1.5 for every minimiser when the contact-point "
              "weighting width exceeds the indentation depth (the points near the contact point then carry almost "
              "no weight and MINPACK is trapped in side minima from a factor 2 on: measured 0/450 failures inside, "
              "29/600 outside)",
         "baseline": "within 10 % of the maximal force",
         "layered model": "power_layer_clifford_2009: asserted for leastsq on noise-free data in the regime E_S 1e3..1e4 "
                          "Pa, E_L 20..100 Pa, t 0.1..0.4 um, R 10 um (transition inside the data), layer thickness "
                          "fixed, guess with the moduli within a factor 1.25 and the contact point within 2 % of the "
                          "depth; to 1e-3 relative",
         "minimisers": "asserted for leastsq (nanite's default) and nelder; scipy's least_squares and powell "
                       "stop early on SI-scaled data with their default absolute tolerances (gtol/ftol on "
                       "forces of 1e-9 N) - their recovery rate is reported as exploration, not asserted"}
ASSERTED = ("leastsq", "nelder")


def moduli(p):
    return [n for n in p if n.startswith("E")]


def defaults_isolated(ctx):
    """the starting point of a fit that relies on the library defaults is the model's documented default set - no
    matter which initial parameters were obtained and edited for earlier curves in the same process"""
    import warnings
    from nanite import model
    for mk in fitlib.MODELS:
        md = model.models_available[mk]
        ref = {n: (v.value, v.vary, v.min, v.max) for n, v in md.module.get_parameter_defaults().items()}
        hist = []
        with warnings.catch_warnings():
            warnings.simplefilter("ignore")
            truth = fitlib.truth_params(mk, ctx.rng, cp=0.0)
            a = fitlib.synth_curve(mk, truth, ctx.rng, n_app=150, n_ret=60, seed=1)
            a.apply_preprocessing(["compute_tip_position"])
            p = a.get_initial_fit_parameters(model_key=mk)
            geo = [n for n in ("R", "alpha", "t") if n in p][0]
            p[geo].set(value=p[geo].value * 0.5)
            p["baseline"].set(vary=False)
            hist += [f"p = a.get_initial_fit_parameters(model_key={mk!r})", f"p[{geo!r}].value *= 0.5; "
                     "p['baseline'].vary = False", "a.fit_model(params_initial=p)"]
            try:
                a.fit_model(model_key=mk, params_initial=p)
            except BaseException:  # noqa
                pass
            q1 = md.get_parameter_defaults()
            q1[geo].set(value=q1[geo].value * 3)
            hist.append(f"q = models_available[{mk!r}].get_parameter_defaults(); q[{geo!r}].value *= 3")
            b_ = fitlib.synth_curve(mk, truth, ctx.rng, n_app=150, n_ret=60, seed=2)
            b_.apply_preprocessing(["compute_tip_position"])
            try:
                b_.fit_model(model_key=mk)
            except BaseException:  # noqa
                pass
            hist.append(f"b.fit_model(model_key={mk!r})   # relies on the defaults")
        now = {n: (v.value, v.vary, v.min, v.max) for n, v in md.get_parameter_defaults().items()}
        used = b_.fit_properties.get("params_initial")
        ctx.case({"oracle": "defaults-isolated", "model": mk}, nontrivial=f"defaults:{mk}", bucket="oracle=defaults-isolated")
        bad = []
        if now != ref:
            bad.append(f"get_parameter_defaults() now returns {now[geo]} for {geo} (documented default {ref[geo]})")
        if used is not None:
            for n in (geo, "baseline"):
                if n == geo and used[n].value != ref[n][0]:
                    bad.append(f"curve b was fitted with {n} = {used[n].value!r} instead of the default {ref[n][0]!r}")
                if n == "baseline" and bool(used[n].vary) != bool(ref[n][1]):
                    bad.append(f"curve b was fitted with baseline.vary = {used[n].vary}")
        if bad:
            ctx.violation(f"defaults-not-isolated:{mk}", "; ".join(bad), {"history": hist, "observed": bad})


def sparse_sampling(ctx):
    """'any sampling': coarsely sampled exact curves fitted on an interval that holds only a handful of samples
    (more than the number of varied parameters plus one, which is all the fitter asks for)"""
    from props.c02 import documented
    from curves import make_indentation
    rng = ctx.rng
    for i in range(8 if ctx.tier == "quick" else 120):
        mk = rng.choice(fitlib.MODELS[:4])
        truth = fitlib.truth_params(mk, rng, cp=0.0)
        P = {k: float(truth[k].value) for k in truth}
        step = rng.choice([1.5e-7, 2e-7, 2.5e-7])
        off = rng.uniform(0.2, 0.8) * step
        tip_a = off + step * np.arange(8, -7, -1.0)              # 15 samples, contact point between two of them
        tip_r = tip_a[::-1][1:]
        tip = np.concatenate([tip_a, tip_r])
        segm = np.concatenate([np.zeros(tip_a.size), np.ones(tip_r.size)])
        force = np.array([documented(mk, -x, P) + P["baseline"] if x < 0 else P["baseline"] for x in tip])
        idnt = make_indentation(force, tip - force / 0.05, segm, tip=tip)
        seg = rng.choice([0, 1])
        nb, nc = rng.choice([(2, 3), (2, 4), (3, 3), (3, 4), (2, 5)])      # baseline / contact samples in the interval
        lo, hi = -(nc + 0.5) * step + off, (nb - 0.5) * step + off
        nin = int(np.sum((tip >= lo) & (tip <= hi) & (segm == seg)))
        p0 = copy.deepcopy(truth)
        p0["E"].set(value=P["E"] * 1.2 ** rng.uniform(-1, 1), vary=True)
        p0["contact_point"].set(value=0.05 * step * rng.uniform(-1, 1), vary=True)
        p0["baseline"].set(value=P["baseline"], vary=True)
        for n_ in p0:
            if n_ not in ("E", "contact_point", "baseline"):
                p0[n_].set(vary=False)
        res, rec = fitlib.fit(idnt, model_key=mk, params_initial=p0, segment=seg, weight_cp=0, range_x=(lo, hi),
                              range_type="absolute", method="leastsq")
        meta = {"stream": "sparse sampling", "model": mk, "segment": seg, "samples_in_interval": nin,
                "range_x": [lo, hi], "step": step, "truth": {"E": P["E"], "baseline": P["baseline"]}}
        ctx.case(meta, nontrivial=json.dumps(meta, sort_keys=True), bucket=["stream=sparse-sampling", f"n={nin}"])
        fp = idnt.fit_properties
        if res != "ok" or not fp.get("success"):
            ctx.violation("no-success:sparse-sampling", f"exact {mk} data, {nin} samples in the fitted interval, 3 varied "
                          f"parameters: the fit does not report success ({res})", {"input": meta})
            continue
        pf = fp["params_fitted"]
        fmax = float(np.max(np.abs(force - P["baseline"])))
        if abs(pf["E"].value - P["E"]) > 1e-3 * P["E"] or abs(pf["contact_point"].value) > 1e-3 * step or \
                abs(pf["baseline"].value - P["baseline"]) > 1e-5 * fmax:
            ctx.violation("not-recovered:sparse-sampling", f"exact {mk} data with {nin} samples in the interval: E = "
                          f"{pf['E'].value!r} (truth {P['E']!r}), contact point {pf['contact_point'].value!r} (truth 0), "
                          f"baseline {pf['baseline'].value!r} (truth {P['baseline']!r})", {"input": meta})


def corrected_ancillary(ctx):
    """'the parameters that generated the data' include the fixed ones: a fit with a wrong tip radius followed, on
    the same object, by a fit with the right one recovers the modulus - for sharp tips too, whose radius (and a
    correction of it) is a number of the order of 1e-9 ... 1e-8"""
    from props.c02 import documented
    from curves import make_indentation
    rng = ctx.rng
    mk = "hertz_para"
    for i, (R, factor) in enumerate([(5e-9, 2.0), (8e-9, 0.5), (2e-8, 1.25), (1e-6, 2.0), (5e-9, 1.5), (1e-8, 0.4)]):
        truth = fitlib.truth_params(mk, rng, cp=0.0)
        truth["R"].set(value=R)
        P = {k: float(truth[k].value) for k in truth}
        step = 1e-8
        tip_a = 0.3 * step + step * np.arange(60, -80, -1.0)
        tip = np.concatenate([tip_a, tip_a[::-1][1:]])
        segm = np.concatenate([np.zeros(tip_a.size), np.ones(tip_a.size - 1)])
        force = np.array([documented(mk, -x, P) + P["baseline"] if x < 0 else P["baseline"] for x in tip])
        idnt = make_indentation(force, tip - force / 0.05, segm, tip=tip)

        def start(radius):
            p0 = copy.deepcopy(truth)
            p0["E"].set(value=P["E"] * 1.3, vary=True)
            p0["contact_point"].set(value=0.5 * step, vary=True)
            p0["baseline"].set(value=P["baseline"], vary=True)
            for n_ in p0:
                if n_ not in ("E", "contact_point", "baseline"):
                    p0[n_].set(vary=False)
            p0["R"].set(value=radius)
            return p0
        kw = dict(model_key=mk, segment=0, weight_cp=0, range_x=(0, 0), range_type="absolute", method="leastsq")
        r1, _ = fitlib.fit(idnt, params_initial=start(R * factor), **kw)
        e1 = idnt.fit_properties["params_fitted"]["E"].value if r1 == "ok" else None
        r2, _ = fitlib.fit(idnt, params_initial=start(R), **kw)
        meta = {"stream": "corrected ancillary parameter", "model": mk, "R": R, "first_R": R * factor,
                "truth": {"E": P["E"]}}
        ctx.case(meta, nontrivial=json.dumps(meta, sort_keys=True), bucket=["stream=corrected-ancillary"])
        fp = idnt.fit_properties
        if r2 != "ok" or not fp.get("success"):
            ctx.violation("no-success:corrected-ancillary", f"exact {mk} data: the fit with the right radius does not "
                          f"report success ({r2})", {"input": meta})
            continue
        e2 = fp["params_fitted"]["E"].value
        if abs(e2 - P["E"]) > 1e-3 * P["E"] or fp["params_fitted"]["R"].value != R:
            ctx.violation("not-recovered:corrected-ancillary", f"exact {mk} data generated with R = {R!r}: after a fit "
                          f"with R = {R * factor!r} (E = {e1!r}) the fit with R = {R!r} on the same object reports E = "
                          f"{e2!r} and R = {fp['params_fitted']['R'].value!r} (truth E = {P['E']!r})",
                          {"input": meta, "history": [f"fit_model(params_initial: R={R * factor!r} fixed)",
                                                      f"fit_model(params_initial: R={R!r} fixed)"]})


def fixed_cp_noise(ctx):
    """tie of Props/C01Noise: with the contact point fixed the fit is a LINEAR least-squares problem in (E, b);
    nanite's fit of noisy data must land on the closed-form least-squares pair, which the Lean model evaluates
    at exact rationals (shape values g_i from the documented formula with E = 1, b = 0)"""
    from fractions import Fraction
    from props.c02 import documented
    from curves import make_indentation
    rng = ctx.rng
    lines, keep = [], []
    for i in range(6 if ctx.tier == "quick" else 80):
        mk = rng.choice(fitlib.MODELS[:4])
        truth = fitlib.truth_params(mk, rng)
        cp = truth["contact_point"].value
        base = fitlib.synth_curve(mk, truth, rng, n_app=rng.choice([120, 200]), n_ret=60, uniform=rng.random() < 0.7,
                                  seed=4000 + i)
        P = {k: float(truth[k].value) for k in truth}
        P1 = dict(P, E=1.0)
        tip = np.asarray(base["tip position"], dtype=float)
        seg = np.asarray(base["segment"]) == 0
        g = np.array([documented(mk, cp - x, P1) if cp - x > 0 else 0.0 for x in tip])
        exact = P["E"] * g + P["baseline"]
        fmax = float(np.max(np.abs(exact - P["baseline"])))
        rel = rng.choice([1e-3, 1e-2, 5e-2])
        e = np.random.default_rng(ctx.seed * 31337 + i).normal(0, 1, tip.size)
        force = exact + rel * fmax * e
        idnt = make_indentation(force, tip - force / 0.05, base["segment"], time=base["time"], tip=tip)
        p0 = copy.deepcopy(truth)
        p0["E"].set(value=P["E"] * 1.5 ** rng.uniform(-1, 1), vary=True)
        p0["baseline"].set(value=P["baseline"] + 0.05 * fmax * rng.uniform(-1, 1), vary=True)
        p0["contact_point"].set(value=cp, vary=False)
        for n_ in p0:
            if n_ not in ("E", "baseline"):
                p0[n_].set(vary=False)
        res, rec = fitlib.fit(idnt, model_key=mk, params_initial=p0, segment=0, weight_cp=0, range_x=(0, 0),
                              range_type="absolute", method="leastsq")
        meta = {"stream": "fixed-contact-point noise", "model": mk, "noise_rel": rel, "n": int(seg.sum()),
                "truth": {"E": P["E"], "baseline": P["baseline"], "contact_point": cp}}
        ctx.case(meta, nontrivial=json.dumps(meta, sort_keys=True), bucket=["stream=fixed-cp-noise", "model=" + mk,
                                                                             f"noise={rel}"])
        if res != "ok" or not idnt.fit_properties.get("success"):
            ctx.violation("no-success:fixed-cp-noise", f"fit with a fixed contact point did not succeed ({res})",
                          {"input": meta})
            continue
        pf = idnt.fit_properties["params_fitted"]
        q_ = lambda v: str(Fraction(float(v)))        # noqa: E731
        lines.append({"op": "ols", "g": [q_(v) for v in g[seg]], "y": [q_(v) for v in force[seg]]})
        keep.append((meta, pf["E"].value, pf["baseline"].value, P, fmax, rel))
    out = ctx.driver("C07", lines) if lines else None
    if out is None:
        return
    for (meta, Efit, bfit, P, fmax, rel), o in zip(keep, out):
        try:
            m = float(Fraction(o.split("m=")[1].split(" ")[0]))
            c = float(Fraction(o.split("c=")[1]))
        except Exception:
            ctx.disagree(meta, [Efit, bfit], o, "closed-form least squares (Lean) unreadable")
            continue
        if abs(Efit - m) > 1e-5 * abs(m) or abs(bfit - c) > 1e-6 * fmax:
            ctx.disagree(meta, [Efit, bfit], [m, c], "fit with fixed contact point vs closed-form least squares")
        # the property's noise clause, with the constants the linear theory gives room for
        if abs(Efit - P["E"]) > 60 * rel * P["E"] or abs(bfit - P["baseline"]) > 10 * rel * fmax:
            ctx.violation("noise-tolerance:fixed-cp", f"E = {Efit!r} (truth {P['E']!r}), baseline = {bfit!r} (truth "
                          f"{P['baseline']!r}) for relative noise {rel}", {"input": meta})


def run(ctx):
    ctx.trusted = TRUST_COMMON + [
        "theorems: zero residual at the generating parameters, every least-squares minimiser reproduces exact "
        "data, identifiability / uniqueness for power laws, instantiated at the REGENERATED hertz_para / "
        "hertz_cone / hertz_pyr3s (Props/C01Real) - convergence of MINPACK / Nelder-Mead from the basin, the "
        "precision reached and the noise clause for a varied contact point are runtime numerics, explored by the "
        "recovery runs below",
        "noise clause with the contact point FIXED (Props/C01Noise): the fit is linear least squares in (E, b); the "
        "closed form is proved to minimise the squared residuals and to deviate from the generating values exactly "
        "proportionally to the noise amplitude - tied by comparing nanite's fit of noisy curves with the closed form "
        "evaluated by the Lean driver at exact rationals (stream fixed-cp-noise)"]
    ctx.assumptions = ["stated basin: " + json.dumps(BASIN)]
    ctx.rule = ("ground truth generated from every shipped model (E over 4 decades, contact point, baseline, "
                "geometry; 120-1500 points; uniform, non-uniform and jittered (non-monotonic) sampling; approach and retract; weighting "
                "width 0 / small / large; leastsq, least_squares, nelder, powell; noise 0 / 1e-4 / 1e-3 / 1e-2 of "
                "F_max), fitted from a guess inside the stated basin; non-trivial = distinct case")
    ok_gen = ctx.gen(["models"])
    ctx.build(MODS, clean=(ctx.tier == "thorough"))
    ctx.grep_audit()
    if ctx.tier == "thorough":
        ctx.leanchecker(["Nanite.Props.C01", "Nanite.Props.C01Real"])
    rng = ctx.rng
    n = 150 if ctx.tier == "quick" else 2500
    for i in range(n):
        mk = fitlib.MODELS[i % 5] if i < 10 else rng.choice(fitlib.MODELS)
        truth = fitlib.truth_params(mk, rng)
        if mk.startswith("power"):
            # regime in which (E_S, E_L) are well conditioned: transition depth inside the data
            truth["E_S"].set(value=10 ** rng.uniform(3, 4))
            truth["E_L"].set(value=rng.uniform(20, 100))
            truth["t"].set(value=rng.uniform(1e-7, 4e-7))
            truth["R"].set(value=10e-6)
        if mk == "sneddon_spher_approx" and rng.random() < 0.4:
            # a small sphere pushed deep (the radius is only bounded below): depths of more than twice the radius
            truth["R"].set(value=5e-7)
        cp = truth["contact_point"].value
        n_app = rng.choice([120, 300, 800] if ctx.tier == "quick" else [120, 300, 800, 1500])
        depth = rng.choice([8e-7, 1.2e-6])
        idnt0 = fitlib.synth_curve(mk, truth, rng, n_app=n_app, n_ret=n_app // 2, uniform=rng.random() < 0.6,
                                   depth=depth, zmax=rng.choice([2e-6, 3e-6]), seed=i)
        # the ground truth follows the DOCUMENTED formula, evaluated independently of the library
        from props.c02 import documented
        from curves import make_indentation
        P = {k: float(truth[k].value) for k in truth}
        tip = np.asarray(idnt0["tip position"])
        jitter = rng.random() < 0.2
        if jitter:
            # "any sampling": position jitter larger than the sample spacing - the abscissa is not monotonic
            # inside the segments (the exact force is evaluated at the jittered positions)
            spacing = float(np.median(np.abs(np.diff(tip))))
            tip = tip + np.random.default_rng(ctx.seed * 104729 + i).normal(0, 2.0 * spacing, tip.size)
        force = np.array([documented(mk, cp - x, P) + P["baseline"] if cp - x > 0 else P["baseline"]
                          for x in tip])
        idnt0 = make_indentation(force, tip - force / 0.05, idnt0["segment"], time=idnt0["time"], tip=tip)
        seg = rng.choice([0, 1])
        fmax = float(np.max(np.abs(idnt0["force"] - truth["baseline"].value)))
        rel_noise = rng.choice([0, 0, 0, 1e-4, 1e-3, 1e-2])
        if rel_noise:
            f = np.asarray(idnt0["force"]) + np.random.default_rng(ctx.seed * 7919 + i).normal(
                0, rel_noise * fmax, len(idnt0))
            idnt0 = make_indentation(f, idnt0["height (measured)"], idnt0["segment"], time=idnt0["time"],
                                     tip=idnt0["tip position"])
        method = rng.choice(["leastsq", "leastsq", "leastsq", "least_squares", "nelder", "powell"])
        layered = mk.startswith("power")
        if layered and method == "nelder":
            method = "leastsq"
        wcp = rng.choice([0, 1e-7, 5e-7, 2e-6])
        p0 = copy.deepcopy(truth)
        fac = 3.0 if method == "leastsq" else 1.5
        if wcp > depth:
            fac = min(fac, 1.5)
        if layered:
            fac = 1.25
        for m_ in moduli(p0):
            v = truth[m_].value * fac ** rng.uniform(-1, 1)
            p0[m_].set(value=min(max(v, p0[m_].min), p0[m_].max))
        p0["contact_point"].set(value=cp + (0.02 if layered else 0.1) * depth * rng.uniform(-1, 1))
        p0["baseline"].set(value=truth["baseline"].value + 0.1 * fmax * rng.uniform(-1, 1))
        vary = {"E", "contact_point", "baseline"} | ({"E_S", "E_L"} if mk.startswith("power") else set())
        for name in p0:
            p0[name].set(vary=(name in vary))
        # layered model: E_S and E_L are fitted, the layer thickness t is fixed at its true value
        kw = dict(model_key=mk, params_initial=p0, segment=seg, weight_cp=wcp, method=method,
                  range_x=(0, 0), range_type="absolute")
        # "fitting that model" over the whole segment can be spelled in several ways: the default (0, 0), an
        # explicit interval that covers all data, the same interval written (high, low) - accepted with a
        # warning - and intervals relative to the estimated contact point (own random stream: the main stream
        # of cases is not shifted)
        spell = int(np.random.default_rng(ctx.seed * 31 + 7 * i).integers(0, 9))
        tipv = np.asarray(idnt0["tip position"])
        wide = (float(tipv.min()) - 2e-5, float(tipv.max()) + 2e-5)
        # ("relative-default": the default interval (0, 0) - the whole segment - with the range type switched to
        # contact-point-relative: the interval is then shifted to (cp, cp) and still means the whole segment)
        range_spelling = {1: "explicit", 2: "inverted", 3: "relative", 4: "relative-inverted",
                          5: "relative-default"}.get(spell, "default")
        if range_spelling in ("explicit", "relative"):
            kw["range_x"] = wide
        elif range_spelling.endswith("inverted"):
            kw["range_x"] = (wide[1], wide[0])
        if range_spelling.startswith("relative"):
            kw["range_type"] = "relative cp"
        idnt = copy.deepcopy(idnt0)
        refit = rng.random() < 0.3
        refit_kind = None
        if refit:
            kw1 = copy.deepcopy(kw)
            if rng.random() < 0.6:
                # a first fit with a wrong fixed geometry / Poisson ratio, then the corrected guess on the
                # same object: the second fit must recover the truth as well
                refit_kind = "wrong-geometry"
                wrong = copy.deepcopy(p0)
                g = [n_ for n_ in ("R", "alpha", "nu", "nu_S") if n_ in wrong][0]
                wrong[g].set(value=wrong[g].value * (0.5 if g != "R" else 2.0))
                kw1["params_initial"] = wrong
            else:
                # a first fit whose limits exclude the generating modulus, then the SAME start values with
                # the limits widened again: only min/max differ between the two guesses
                refit_kind = "limits-widened"
                lim = copy.deepcopy(p0)
                m0 = moduli(lim)[0]
                lo = min(p0[m0].value, truth[m0].value) * 0.5
                hi = 0.5 * (p0[m0].value + truth[m0].value) if p0[m0].value < truth[m0].value else None
                if hi is None:
                    lim[m0].set(min=0.5 * (p0[m0].value + truth[m0].value), max=p0[m0].value * 2)
                else:
                    lim[m0].set(min=lo, max=hi)
                kw1["params_initial"] = lim
            fitlib.fit(idnt, **kw1)
        # "fitting that model": the documented entry points are Indentation.fit_model and the fitter class itself
        # (keyword arguments in any order)
        direct = (not refit) and rng.random() < 0.25
        if direct:
            import warnings as _w
            from nanite.fit import IndentationFitter
            keys = list(kw)
            rng.shuffle(keys)
            with _w.catch_warnings():
                _w.simplefilter("ignore")
                try:
                    fitter = IndentationFitter(idnt, **{k_: copy.deepcopy(kw[k_]) for k_ in keys})
                    fitter.fit()
                    res = "ok"
                except BaseException as e:  # noqa
                    res = "err " + type(e).__name__
            fprops = fitter.fp if res == "ok" else {}
            fitcurve = fitter.fit_curve if res == "ok" else None
        else:
            res, rec = fitlib.fit(idnt, **copy.deepcopy(kw))
            fprops = idnt.fit_properties
            fitcurve = np.asarray(idnt["fit"]) if "fit" in idnt else None
        meta = {"model": mk, "segment": seg, "n": n_app, "noise_rel": rel_noise, "method": method,
                "weight_cp": wcp, "refit": refit_kind, "jitter": jitter, "range": range_spelling,
                "entry": ("IndentationFitter(idnt, " + ", ".join(keys) + ")") if direct else "fit_model",
                "truth": {k: float(truth[k].value) for k in truth},
                "guess": {k: float(p0[k].value) for k in p0 if p0[k].vary}}
        ctx.case(meta, nontrivial=json.dumps(meta, sort_keys=True),
                 bucket=["model=" + mk, "method=" + method, f"noise={rel_noise}", f"segment={seg}",
                         f"weight={wcp}", "result=" + res, f"jitter={jitter}",
                         "entry=" + ("fitter-class" if direct else "fit_model"), f"refit={refit_kind}",
                         "range=" + range_spelling])
        rep = {"input": meta}
        tag = f"{mk}:{method}:noise={rel_noise}"
        if method not in ASSERTED:
            okk = res == "ok" and fprops.get("success") and \
                abs(fprops["params_fitted"]["E_S" if mk.startswith("power") else "E"].value /
                    truth["E_S" if mk.startswith("power") else "E"].value - 1) < 1e-2 + 60 * rel_noise
            key = f"explored-not-asserted:{method}:{'recovered' if okk else 'not-recovered'}"
            ctx.dist[key] = ctx.dist.get(key, 0) + 1
            continue
        if res != "ok" or not fprops.get("success"):
            ctx.violation("no-success:" + tag, f"fit from inside the basin did not report success ({res})", rep)
            continue
        pf = fprops["params_fitted"]
        Ename = "E_S" if mk.startswith("power") else "E"
        # tolerances: optimiser precision for exact data, proportional to the noise level otherwise
        lo_prec = method in ("nelder", "powell")
        tol_rel = (2e-3 if lo_prec else 1e-5) + 60 * rel_noise
        tol_cp = ((2e-3 if lo_prec else 1e-5) + 30 * rel_noise) * depth
        tol_b = ((2e-3 if lo_prec else 1e-6) + 10 * rel_noise) * fmax
        if layered:
            if rel_noise:
                ctx.dist["explored-not-asserted:layered+noise"] = \
                    ctx.dist.get("explored-not-asserted:layered+noise", 0) + 1
                continue
            tol_rel, tol_cp, tol_b = 1e-3, 1e-3 * depth, 1e-4 * fmax
        bad = []
        if abs(pf[Ename].value - truth[Ename].value) > tol_rel * truth[Ename].value:
            bad.append(f"{Ename}={pf[Ename].value!r} (truth {truth[Ename].value!r})")
        if abs(pf["contact_point"].value - cp) > tol_cp:
            bad.append(f"contact_point={pf['contact_point'].value!r} (truth {cp!r})")
        if abs(pf["baseline"].value - truth["baseline"].value) > tol_b:
            bad.append(f"baseline={pf['baseline'].value!r} (truth {truth['baseline'].value!r})")
        segm = np.asarray(idnt["segment"]) == seg
        dev = float(np.nanmax(np.abs(np.asarray(fitcurve)[segm] - np.asarray(idnt0["force"])[segm])))
        if dev > ((5e-3 if lo_prec else (1e-3 if layered else 1e-5)) + 6 * rel_noise) * fmax:
            bad.append(f"fitted curve deviates {dev / fmax:.2e} F_max from the data")
        if layered and abs(pf["E_L"].value - truth["E_L"].value) > tol_rel * truth["E_L"].value:
            bad.append(f"E_L={pf['E_L'].value!r} (truth {truth['E_L'].value!r})")
        if bad:
            ctx.violation("not-recovered:" + tag, "generating parameters not recovered: " + "; ".join(bad),
                          {**rep, "observed": bad})
    defaults_isolated(ctx)
    fixed_cp_noise(ctx)
    sparse_sampling(ctx)
    corrected_ancillary(ctx)
    ctx.extra["basin"] = BASIN


def replay(ctx, path):
    run(ctx)
    return ctx.finish()
