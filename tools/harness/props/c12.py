"""C12 – the fit hash: byte-exact correspondence of the md5 pre-image with the Lean model
(`Nanite.Model.Hash`), plus the property oracle on the implementation."""
import copy
import hashlib
import itertools
import json
import os
import subprocess
import sys
import warnings

import numpy as np

from core import TRUST_COMMON

MODS = ["Nanite.Props.C12", "Nanite.Witness.C12", "Nanite.Audit.C12"]


class Md5Proxy:
    """stands in for the `hashlib` module inside nanite.fit; records what is hashed"""

    def __init__(self):
        self.captured = []

    def md5(self, data=b"", **kw):
        self.captured.append(bytes(data))
        return hashlib.md5(data, **kw)

    def __getattr__(self, name):
        return getattr(hashlib, name)


def hx(b):
    return bytes(b).hex()


def to_pv(obj):
    """mirror of obj2bytes' type dispatch; atoms are encoded here, structure by the model"""
    import lmfit
    if isinstance(obj, str):
        return {"s": hx(obj.encode("utf-8"))}
    if isinstance(obj, (bool, int, float, np.bool_, np.integer, np.floating)):
        return {"t": hx(str(float(obj)).encode("utf-8"))}
    if obj is None:
        return None
    if isinstance(obj, np.ndarray):
        return {"a": hx(obj.tobytes())}
    if isinstance(obj, (tuple, list)):
        return {"l": [to_pv(o) for o in obj]}
    if isinstance(obj, dict):
        return {"d": [[hx(str(k).encode("utf-8")), to_pv(v)] for k, v in obj.items()]}
    if isinstance(obj, lmfit.parameter.Parameter):
        def t(x):
            return hx(str(float(x)).encode("utf-8"))
        return {"p": [t(obj.value), t(obj.max), t(obj.min), t(obj.vary),
                      None if obj.expr is None else hx(obj.expr.encode("utf-8")),
                      hx(obj.name.encode("utf-8"))]}
    raise ValueError("no rule")


def base_curve(n=40, seed=0):
    from curves import synth
    return synth(n_app=n, n_ret=n // 2, noise=1e-11, seed=seed, with_tip=True)


def fitter_hash(idnt, kw):
    """returns (hash or 'err:<type>', captured pre-image or None, fp or None)"""
    import nanite.fit as nfit
    proxy = Md5Proxy()
    old = nfit.hashlib
    nfit.hashlib = proxy
    fitter = None
    try:
        with warnings.catch_warnings():
            warnings.simplefilter("ignore")
            fitter = nfit.IndentationFitter(idnt, **kw)
        res = fitter.hash
    except BaseException as e:  # noqa
        res = "err:" + type(e).__name__
    finally:
        nfit.hashlib = old
    return res, (proxy.captured[-1] if proxy.captured else None), fitter


def gen_params(rng, model_key):
    from nanite import model
    p = model.models_available[model_key].get_parameter_defaults()
    for name in list(p.keys()):
        r = rng.random()
        if r < 0.25:
            p[name].set(value=float(p[name].value) * rng.choice([0.5, 2, 1.5]) + rng.choice([0, 1e-7]))
        elif r < 0.35:
            p[name].set(vary=not p[name].vary)
        elif r < 0.45:
            p[name].set(min=rng.choice([-1.0, 0.0, -np.inf]))
        elif r < 0.5:
            p[name].set(max=rng.choice([1e9, np.inf, 5.0]))
    if rng.random() < 0.15 and "baseline" in p and "E" in p:
        p["baseline"].set(expr="E*1e-12")
    return p


STEPS = ["compute_tip_position", "correct_force_offset", "correct_tip_offset", "correct_force_slope",
         "correct_split_approach_retract", "smooth_height"]


def gen_kwargs(rng):
    kw = {}
    mk = rng.choice(["hertz_para", "hertz_cone", "hertz_pyr3s", "sneddon_spher_approx",
                     "power_layer_clifford_2009"])
    if rng.random() < 0.6:
        kw["model_key"] = mk
    else:
        mk = "hertz_para"
    if rng.random() < 0.4:
        kw["optimal_fit_edelta"] = rng.choice([True, False, 1, 0])
    if rng.random() < 0.4:
        kw["optimal_fit_num_samples"] = rng.choice([5, 10, 100, np.int64(7), 12.0])
    if rng.random() < 0.5:
        kw["params_initial"] = gen_params(rng, mk)
    if rng.random() < 0.5:
        k = rng.randint(0, 4)
        st = [rng.choice(STEPS) for _ in range(k)]
        kw["preprocessing"] = rng.choice([st, tuple(st)])
    if rng.random() < 0.4:
        o = {}
        items = [("correct_tip_offset", {"method": rng.choice(["deviation_from_baseline",
                                                               "fit_constant_line"])}),
                 ("correct_force_slope", dict(rng.sample([("region", rng.choice(["baseline", "all"])),
                                                          ("strategy", rng.choice(["drift", "shift"]))],
                                                         k=2)))]
        rng.shuffle(items)
        for k_, v_ in items[:rng.randint(0, 2)]:
            o[k_] = v_
        kw["preprocessing_options"] = o
    if rng.random() < 0.4:
        kw["range_type"] = rng.choice(["absolute", "relative cp"])
    if rng.random() < 0.6:
        a, b_ = rng.choice([0, 0.0, -1e-6, 1.0, 1.01, -np.inf, 12, 1e-6]), \
            rng.choice([0, 1e-6, 12.0, 2.0, np.inf, 2, 5e-7])
        kw["range_x"] = rng.choice([[a, b_], (a, b_)])
    if rng.random() < 0.5:
        kw["segment"] = rng.choice([0, 1, "approach", "retract", np.int64(1), True])
    if rng.random() < 0.5:
        kw["weight_cp"] = rng.choice([0, False, 1e-6, 5e-7, 2e-6, 1])
    if rng.random() < 0.4:
        kw["gcf_k"] = rng.choice([1.0, 1, 0.5, 0.3183098861837907, 2])
    if rng.random() < 0.3:
        kw["method"] = rng.choice(["leastsq", "nelder", "least_squares", "powell"])
    if rng.random() < 0.3:
        items = [("ftol", 1e-9), ("xtol", 1e-9), ("max_nfev", 300)]
        rng.shuffle(items)
        kw["method_kws"] = dict(items[:rng.randint(0, 3)])
    return kw


def model_line(fitter):
    import nanite.fit as nfit
    fp = fitter.fp
    return {"op": "pre", "pre": to_pv(fp["preprocessing"]), "opts": to_pv(fp["preprocessing_options"]),
            "x": hx(fitter.x_axis.tobytes()), "y": hx(fitter.y_axis.tobytes()),
            "items": [[k, to_pv(fp[k])] for k in nfit.FP_DEFAULT],
            "edelta": bool(fp["optimal_fit_edelta"])}


# ----------------------------------------------------------------------------- oracle
def domains():
    """per key: values that must all hash differently (effective settings differ)"""
    from nanite import model
    def par(mk, **edits):
        p = model.models_available[mk].get_parameter_defaults()
        for k, v in edits.items():
            name, attr = k.split("__")
            p[name].set(**{attr: v})
        return p
    return {
        "model_key": ["hertz_para", "hertz_cone", "hertz_pyr3s", "sneddon_spher_approx"],
        "optimal_fit_edelta": [False, True],
        "params_initial": [par("hertz_para"), par("hertz_para", E__value=4e3),
                           par("hertz_para", E__vary=False), par("hertz_para", E__min=1.0),
                           par("hertz_para", E__max=1e6), par("hertz_para", R__value=5e-6),
                           # a limit of exactly zero is a limit (the default lower limit of E is 0)
                           par("hertz_para", E__min=-np.inf), par("hertz_para", contact_point__max=0.0),
                           par("hertz_para", contact_point__min=0.0), par("hertz_para", baseline__max=0.0),
                           par("hertz_para", baseline__expr="E*1e-12"),
                           # limits of a CONSTRAINED parameter are effective too (the evaluated expression is
                           # clipped to them)
                           par("hertz_para", baseline__expr="E*1e-12", baseline__max=1e-9),
                           par("hertz_para", baseline__expr="E*1e-12", baseline__min=1e-10),
                           par("hertz_para", baseline__expr="E*1e-12", baseline__min=1e-10, baseline__max=1e-9),
                           par("hertz_para", contact_point__value=1e-7),
                           par("hertz_para", nu__value=0.4)],
        "preprocessing": [[], ["compute_tip_position"], ["compute_tip_position", "correct_tip_offset"],
                          ["correct_tip_offset", "compute_tip_position"],
                          ["compute_tip_position", "correct_force_offset"]],
        "preprocessing_options": [{}, {"correct_tip_offset": {"method": "fit_constant_line"}},
                                  {"correct_tip_offset": {"method": "deviation_from_baseline"}},
                                  {"correct_force_slope": {"region": "all", "strategy": "drift"}},
                                  {"correct_force_slope": {"region": "all", "strategy": "shift"}}],
        "range_type": ["absolute", "relative cp"],
        "range_x": [[0, 0], [1.0, 12.0], [1.01, 2.0], [-1e-6, 1e-6], [-1e-6, 2e-6], [-2e-6, 1e-6],
                    [-np.inf, 0], [1.0, 1.2], [11.0, 2.0], [1.0, 1.0]],
        "segment": [0, 1],
        "weight_cp": [0, 1e-6, 5e-7, 2e-6],
        "gcf_k": [1.0, 0.5, 0.3183098861837907, 0.3],
        "method": ["leastsq", "nelder", "least_squares"],
        "method_kws": [{}, {"ftol": 1e-9}, {"ftol": 1e-8}, {"xtol": 1e-9}, {"ftol": 1e-9, "xtol": 1e-9}],
    }


def variants():
    """pairs that must hash equal (representation details / don't-cares)"""
    return [
        ("tuple-vs-list range_x", {"range_x": [-1e-6, 1e-6]}, {"range_x": (-1e-6, 1e-6)}),
        ("int-vs-float range_x", {"range_x": [0, 1]}, {"range_x": [0.0, 1.0]}),
        ("int-vs-float gcf_k", {"gcf_k": 1}, {"gcf_k": 1.0}),
        ("bool-vs-int weight_cp", {"weight_cp": False}, {"weight_cp": 0}),
        ("numpy scalar segment", {"segment": np.int64(1)}, {"segment": 1}),
        ("approach-vs-0", {"segment": "approach"}, {"segment": 0}),
        ("retract-vs-1", {"segment": "retract"}, {"segment": 1}),
        ("tuple-vs-list preprocessing", {"preprocessing": ["compute_tip_position"]},
         {"preprocessing": ("compute_tip_position",)}),
        ("dict order method_kws", {"method_kws": {"ftol": 1e-9, "xtol": 1e-8}},
         {"method_kws": {"xtol": 1e-8, "ftol": 1e-9}}),
        ("dict order options", {"preprocessing_options": {"correct_force_slope":
                                                          {"region": "all", "strategy": "drift"}}},
         {"preprocessing_options": {"correct_force_slope": {"strategy": "drift", "region": "all"}}}),
        ("nsamples ignored when search off", {"optimal_fit_num_samples": 10},
         {"optimal_fit_num_samples": 50}),
        ("range lower bound ignored when search on",
         {"optimal_fit_edelta": True, "range_x": [-1e-6, 1e-6]},
         {"optimal_fit_edelta": True, "range_x": [-2e-6, 1e-6]}),
        # the plateau-search flag given as a numpy boolean (e.g. from np.any(...)) or as 0 / 1
        ("numpy bool search flag (on)", {"optimal_fit_edelta": True, "range_x": [-1e-6, 1e-6]},
         {"optimal_fit_edelta": np.True_, "range_x": [-1e-6, 1e-6]}),
        ("int search flag (on)", {"optimal_fit_edelta": True, "range_x": [-1e-6, 1e-6]},
         {"optimal_fit_edelta": 1, "range_x": [-1e-6, 1e-6]}),
        ("numpy bool search flag (off)", {"optimal_fit_edelta": False}, {"optimal_fit_edelta": np.False_}),
        ("int search flag (off)", {"optimal_fit_edelta": False}, {"optimal_fit_edelta": 0}),
        ("nsamples ignored when search off (numpy bool flag)",
         {"optimal_fit_edelta": np.False_, "optimal_fit_num_samples": 10},
         {"optimal_fit_edelta": np.False_, "optimal_fit_num_samples": 50}),
        ("nsamples ignored when search off (flag 0)",
         {"optimal_fit_edelta": 0, "optimal_fit_num_samples": 10},
         {"optimal_fit_edelta": 0, "optimal_fit_num_samples": 50}),
        ("range lower bound ignored when search on (numpy bool flag)",
         {"optimal_fit_edelta": np.True_, "range_x": [-1e-6, 1e-6]},
         {"optimal_fit_edelta": np.True_, "range_x": [-2e-6, 1e-6]}),
        ("range lower bound ignored when search on (flag 1)",
         {"optimal_fit_edelta": 1, "range_x": [-1e-6, 1e-6]},
         {"optimal_fit_edelta": 1, "range_x": [-2e-6, 1e-6]}),
    ]


def combos():
    """settings with several applied steps that carry options (containers whose iteration order could leak)"""
    o2 = {"correct_tip_offset": {"method": "fit_constant_line"},
          "correct_force_slope": {"region": "all", "strategy": "drift"}}
    o2r = dict(reversed(list(o2.items())))
    o3 = {"correct_force_slope": {"strategy": "shift", "region": "approach"},
          "correct_tip_offset": {"method": "frechet_direct_path"}, "smooth_height": {}}
    p3 = ["compute_tip_position", "correct_tip_offset", "correct_force_slope"]
    p5 = ["compute_tip_position", "correct_tip_offset", "correct_force_slope", "correct_force_offset", "smooth_height"]
    return [{"preprocessing": p3, "preprocessing_options": o2},
            {"preprocessing": p3, "preprocessing_options": o2r},
            {"preprocessing": p5, "preprocessing_options": o3},
            {"preprocessing": p5, "preprocessing_options": dict(sorted(o3.items()))},
            {"preprocessing": p3, "preprocessing_options": o2, "method_kws": {"ftol": 1e-9, "xtol": 1e-8, "gtol": 1e-9}}]


def param_history_variants():
    """equal effective initial parameters with different object history must hash equal"""
    from nanite import model
    def fresh():
        return model.models_available["hertz_para"].get_parameter_defaults()
    a = fresh()
    a["E"].value = 4321.0            # attribute assignment (lmfit keeps a stale init_value)
    b_ = fresh()
    b_["E"].set(value=4321.0)
    c = fresh()
    c["E"].set(value=1.0)
    c["E"].set(value=4321.0)
    d = fresh()
    d["E"].set(value=4321.0)
    d["E"].stderr = 12.5             # bookkeeping of a previous fit
    d["E"].correl = {"contact_point": 0.3}
    d["contact_point"].init_value = 7.0
    # the same parameters (name, value, limits, vary) added to the container in another order
    import lmfit
    e = lmfit.Parameters()
    for name in reversed(list(b_.keys())):
        q_ = b_[name]
        e.add(name, value=q_.value, min=q_.min, max=q_.max, vary=q_.vary)
    f = lmfit.Parameters()
    for name in sorted(b_.keys()):
        q_ = b_[name]
        f.add(name, value=q_.value, min=q_.min, max=q_.max, vary=q_.vary)
    return [("params added in reversed order", {"params_initial": e}, {"params_initial": b_}),
            ("params added in alphabetical order", {"params_initial": f}, {"params_initial": b_}),
            ("params attr-assignment vs set()", {"params_initial": a}, {"params_initial": b_}),
            ("params set twice", {"params_initial": c}, {"params_initial": b_}),
            ("params with fit bookkeeping", {"params_initial": d}, {"params_initial": b_})]


def close_values():
    """per numeric setting: values that differ only far behind the leading digits"""
    from nanite import model
    def par(**edits):
        p = model.models_available["hertz_para"].get_parameter_defaults()
        for k, v in edits.items():
            name, attr = k.split("__")
            p[name].set(**{attr: v})
        return p
    nx = np.nextafter
    return {
        "range_x": [[-1.49832779e-6, 1e-6], [-1.49832773e-6, 1e-6], [nx(-1.49832779e-6, 0), 1e-6]],
        "weight_cp": [1e-6, 1.0000004e-6, nx(1e-6, 1)],
        "gcf_k": [0.5, 0.5000001, nx(0.5, 1)],
        "optimal_fit_num_samples+edelta": [2000000, 2000001],
        "method_kws": [{"ftol": 1e-9}, {"ftol": 1.0000003e-9}, {"max_nfev": 2000000}, {"max_nfev": 2000001}],
        "params_initial": [par(E__value=2000.0), par(E__value=2000.001), par(E__value=nx(2000.0, 3000)),
                           par(contact_point__min=-1.2345678e-6), par(contact_point__min=-1.2345681e-6),
                           par(E__max=1e9), par(E__max=1e9 + 1)],
    }


def must_differ_extra():
    return [
        ("nsamples matters when search on", {"optimal_fit_edelta": True, "optimal_fit_num_samples": 10},
         {"optimal_fit_edelta": True, "optimal_fit_num_samples": 50}),
        ("upper bound matters when search on", {"optimal_fit_edelta": True, "range_x": [-1e-6, 1e-6]},
         {"optimal_fit_edelta": True, "range_x": [-1e-6, 2e-6]}),
    ]


def oracle(ctx, idnt):
    doms = domains()
    for key, vals in doms.items():
        hs = []
        for v in vals:
            h, _, _ = fitter_hash(idnt, {key: copy.deepcopy(v)})
            hs.append(h)
        for (i, a), (j, b_) in itertools.combinations(enumerate(hs), 2):
            ctx.case({"oracle": "distinct", "key": key, "i": i, "j": j}, nontrivial=f"o:{key}:{i}:{j}",
                     bucket="oracle=distinct-values")
            if a == b_ and not a.startswith("err:"):
                ctx.violation(f"collision:{key}:{vals[i]!r}:{vals[j]!r}",
                              f"settings {key}={vals[i]!r} and {key}={vals[j]!r} have the same hash",
                              {"input": {"key": key, "values": [repr(vals[i]), repr(vals[j])]},
                               "observed": a})
    for key, vals in close_values().items():
        hs = []
        for v in vals:
            kw = {"optimal_fit_num_samples": v, "optimal_fit_edelta": True} \
                if key.endswith("+edelta") else {key: copy.deepcopy(v)}
            hs.append(fitter_hash(idnt, kw)[0])
        for (i, a), (j, b_) in itertools.combinations(enumerate(hs), 2):
            ctx.case({"oracle": "close", "key": key, "i": i, "j": j}, nontrivial=f"c:{key}:{i}:{j}",
                     bucket="oracle=close-values")
            if a == b_ and not a.startswith("err:"):
                ctx.violation(f"collision-close:{key}:{i}:{j}",
                              f"{key}: two values differing behind the 6th significant digit have the "
                              f"same hash ({vals[i]!r} vs {vals[j]!r})",
                              {"input": {"key": key, "values": [repr(vals[i]), repr(vals[j])]},
                               "observed": a})
    for name, k1, k2 in variants() + param_history_variants():
        h1, _, _ = fitter_hash(idnt, copy.deepcopy(k1))
        h2, _, _ = fitter_hash(idnt, copy.deepcopy(k2))
        ctx.case({"oracle": "variant", "name": name}, nontrivial="v:" + name, bucket="oracle=variants")
        if h1 != h2 or h1.startswith("err:"):
            ctx.violation(f"variant:{name}", f"representation variant '{name}' changes the hash "
                          f"or raises ({h1} vs {h2})",
                          {"input": {"a": repr(k1), "b": repr(k2)}, "observed": [h1, h2]})
    for name, k1, k2 in must_differ_extra():
        h1, _, _ = fitter_hash(idnt, copy.deepcopy(k1))
        h2, _, _ = fitter_hash(idnt, copy.deepcopy(k2))
        ctx.case({"oracle": "differ", "name": name}, nontrivial="d:" + name, bucket="oracle=must-differ")
        if h1 == h2:
            ctx.violation(f"insensitive:{name}", f"'{name}': hash unchanged",
                          {"input": {"a": repr(k1), "b": repr(k2)}, "observed": h1})
    # single data sample
    from curves import make_indentation
    h0, _, _ = fitter_hash(idnt, {})
    for col in ("force", "tip position"):
        for i in (0, len(idnt) // 2, len(idnt) - 1):
            data = {c: np.array(idnt[c], copy=True) for c in
                    ("force", "height (measured)", "segment", "time", "tip position")}
            data[col][i] = np.nextafter(data[col][i], np.inf)
            other = make_indentation(data["force"], data["height (measured)"], data["segment"],
                                     time=data["time"], tip=data["tip position"])
            h1, _, _ = fitter_hash(other, {})
            ctx.case({"oracle": "sample", "col": col, "i": i}, nontrivial=f"s:{col}:{i}",
                     bucket="oracle=single-sample")
            if h1 == h0:
                ctx.violation(f"data-insensitive:{col}", f"1-ulp change of {col}[{i}] keeps the hash",
                              {"input": {"col": col, "index": i}, "observed": h0})
    # equal data in a different object => equal hash
    clone = make_indentation(idnt["force"], idnt["height (measured)"], idnt["segment"],
                             time=idnt["time"], tip=idnt["tip position"])
    if fitter_hash(clone, {})[0] != h0:
        ctx.violation("object-identity", "equal data in another object hashes differently",
                      {"observed": [h0, fitter_hash(clone, {})[0]]})


SUBPROC = r"""
import sys, json, warnings
sys.path.insert(0, %r)
warnings.simplefilter("ignore")
from props import c12
idnt = c12.base_curve()
out = []
for name, k1, k2 in c12.variants():
    out.append(c12.fitter_hash(idnt, k1)[0])
for key, vals in c12.domains().items():
    for v in vals:
        out.append(c12.fitter_hash(idnt, {key: v})[0])
for kw in c12.combos():
    out.append(c12.fitter_hash(idnt, kw)[0])
print(json.dumps(out))
"""


def hashseed_check(ctx, nproc):
    here = os.path.dirname(os.path.dirname(os.path.abspath(__file__)))
    outs = []
    for seed in [0, 1, 2, 3, 12345, 4242][:nproc]:
        env = dict(os.environ, PYTHONHASHSEED=str(seed))
        p = subprocess.run([sys.executable, "-c", SUBPROC % here], capture_output=True, text=True,
                           env=env, timeout=600)
        if p.returncode != 0:
            ctx.broken.append({"kind": "harness", "detail": p.stderr[-800:]})
            return
        outs.append(json.loads(p.stdout.strip().splitlines()[-1]))
        ctx.case({"oracle": "hashseed", "PYTHONHASHSEED": seed}, nontrivial=f"hs:{seed}",
                 bucket="oracle=hashseed-process")
    ncomb = len(combos())
    for o in outs:
        c_ = o[-ncomb:]
        if c_[0] != c_[1] or c_[2] != c_[3]:
            ctx.violation("hash-depends-on-option-insertion-order", "equal preprocessing options inserted in a "
                          "different order hash differently", {"input": {"settings": [repr(k) for k in combos()[:4]]},
                                                               "observed": c_[:4]})
            return
    for o in outs[1:]:
        if o != outs[0]:
            idx = [i for i, (a, b_) in enumerate(zip(o, outs[0])) if a != b_]
            nset = len(outs[0]) - ncomb
            what = [repr(combos()[i - nset]) if i >= nset else f"single-key case #{i}" for i in idx[:4]]
            ctx.violation("hashseed", "hash differs between interpreter runs with different "
                          f"PYTHONHASHSEED for the settings {what}",
                          {"input": {"indices": idx[:10], "settings": what, "PYTHONHASHSEED": "0 vs 1, 2, 3, ..."}})
            return


def run(ctx):
    ctx.trusted = TRUST_COMMON + [
        "hand-written model lean/Nanite/Model/Hash.lean of obj2bytes/_hash (tied by byte-exact "
        "comparison of the captured md5 pre-image)",
        "harness atom encoding (str->utf8, number->str(float(x)), ndarray->tobytes) mirrors obj2bytes' "
        "dispatch; MD5 collision resistance and injectivity of str(float(x)) are assumed",
        "tools/py2lean dump of FP_DEFAULT / FP_RESULTS keys"]
    ctx.assumptions = ["MD5 is collision resistant", "str(float(x)) is injective on doubles"]
    ctx.rule = ("random settings (every FP_DEFAULT key varied over its domain: models, parameter edits, "
                "range pairs incl. inf, segment aliases, numpy scalars, nested option dicts in several "
                "insertion orders) on synthetic curves; the md5 pre-image captured inside "
                "IndentationFitter._hash is compared byte-for-byte with the Lean model; non-trivial = "
                "distinct case with >= 3 keys passed; oracle cases: distinct-value pairs per key, "
                "representation variants, don't-cares, single-sample perturbations, hash seeds")
    ok_gen = ctx.gen(["fitkeys"])
    ctx.build(MODS, clean=(ctx.tier == "thorough"))
    ctx.grep_audit()
    if ctx.tier == "thorough":
        ctx.leanchecker(["Nanite.Props.C12", "Nanite.Witness.C12"])
    n = 400 if ctx.tier == "quick" else 6000
    curves_ = [base_curve(40, 0), base_curve(24, 1)]
    lines, meta = [], []
    for i in range(n):
        idnt = curves_[i % 2]
        kw = gen_kwargs(ctx.rng)
        h, pre, fitter = fitter_hash(idnt, copy.deepcopy(kw))
        desc = {k: repr(v)[:60] for k, v in kw.items()}
        if pre is None or fitter is None and pre is None:
            ctx.case({"kwargs": desc, "result": h}, bucket="impl=" + h)
            continue
        if fitter is None:
            # constructor raised after hashing: rebuild the settings view from a fitter-less run
            ctx.case({"kwargs": desc, "result": h}, bucket="impl=raised-after-hash:" + h)
            continue
        if hashlib.md5(pre).hexdigest() != h:
            ctx.violation("md5-mismatch", "reported hash is not the md5 of the hashed bytes",
                          {"input": desc})
        lines.append(model_line(fitter))
        meta.append((desc, pre.hex(), h))
        ctx.case({"kwargs": desc, "hash": h}, nontrivial=(desc if len(kw) >= 3 else None),
                 bucket=["impl=hashed", f"nkeys={len(kw)}"] + [f"key={k}" for k in kw])
    out = ctx.driver("C12", lines) if (ok_gen and lines) else None
    if out is not None:
        for (desc, pre, h), m in zip(meta, out):
            if m != pre:
                ctx.disagree({"kwargs": desc}, pre[:400], m[:400], "md5 pre-image differs")
    oracle(ctx, curves_[0])
    hashseed_check(ctx, 4 if ctx.tier == "quick" else 6)


def replay(ctx, path):
    oracle(ctx, base_curve(40, 0))
    return ctx.finish()
