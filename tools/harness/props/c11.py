"""C11 – geometrical correction factor: fits with k and with k = 1 on the same curves (oracle), the
per-pass initial contact points recorded from lmfit, on top of the Lean scaling theorems about the
regenerated power-law models and the fitter model (shared with C04/C05)."""
import copy
import json
import warnings

import numpy as np

from core import TRUST_COMMON
import fitlib

MODS = ["Nanite.Props.C11", "Nanite.Witness.C11", "Nanite.Props.C02", "Nanite.Audit.C11"]
POWER = {"hertz_para": 1.5, "hertz_cone": 2.0, "hertz_pyr3s": 2.0}
EPS = np.finfo(float).eps


def one_case(ctx, rng, i):
    mk = rng.choice(list(POWER))
    plateau = rng.random() < 0.2
    if plateau:
        # On exact model data E(depth) is constant up to rounding, so the plateau detection is decided by
        # rounding noise and is not comparable between k values.  Use data with real structure: a model
        # mismatch (sphere series / paraboloid data fitted with another power law), noise-free.
        data_mk = "sneddon_spher_approx" if mk == "hertz_para" else "hertz_para"
        truth = fitlib.truth_params(data_mk, rng, cp=-4e-7)
        if "R" in truth:
            truth["R"].set(value=2e-6)
        noise = 0.0
    else:
        data_mk = mk
        truth = fitlib.truth_params(mk, rng, cp=rng.choice([0.0, 2.5e-6, -4e-7, 1.1e-7]))
        noise = rng.choice([0.0, 0.0, 0.0, 2e-11])
    cp = truth["contact_point"].value
    idnt0 = fitlib.synth_curve(data_mk, truth, rng, n_app=rng.choice([150, 300]), n_ret=rng.choice([100, 200]),
                               noise=noise, seed=i)
    k = rng.choice([0.5, 0.6135, 0.9, 2.0, 0.3183098861837907, 0.25])
    seg = rng.choice([0, 1])
    r = 0.9 if plateau else rng.random() * 0.8
    kw = {"model_key": mk, "segment": seg}
    if r < 0.4:
        kw.update(range_type="absolute", range_x=rng.choice([[0, 0], [cp - 9e-7, cp + 8e-7],
                                                              [cp - 5.03e-7, cp + 2.007e-6]]))
    elif r < 0.8:
        kw.update(range_type="relative cp", range_x=rng.choice([[-8.03e-7, 5.07e-7], [-1.1003e-6, 1.007e-6]]))
    else:
        kw.update(optimal_fit_edelta=True, optimal_fit_num_samples=rng.choice([7, 9]),
                  range_type="absolute", range_x=[cp - 1.1e-6, cp + 1e-6])
        if cp >= -1e-7:
            # plateau search needs negative tip positions
            kw.pop("optimal_fit_edelta"); kw.pop("optimal_fit_num_samples")
    kw["weight_cp"] = 0 if (noise or plateau or rng.random() < 0.5) else rng.choice([1e-7, 5e-7])
    p0 = fitlib.start_params(mk, truth if data_mk == mk else fitlib.truth_params(mk, rng, cp=cp), rng,
                             rel=rng.choice([0.0, 0.1]))
    for n in ("R", "nu", "alpha"):
        if n in p0:
            p0[n].set(vary=False)
    modes = ["free", "cp-one-sided-limit", "cp-fixed", "cp-bounded", "free", "baseline-fixed",
             "cp-fixed-with-limits"]
    mode = modes[i % len(modes)]
    rng.random()
    if mode == "cp-fixed":
        p0["contact_point"].set(value=cp, vary=False)
    elif mode == "cp-fixed-with-limits":
        # a fixed contact point that still carries finite limits (in measured units, like its value)
        wlim = max(1e-8, 0.2 * abs(cp))
        p0["contact_point"].set(value=cp, vary=False, min=cp - wlim, max=cp + wlim)
    elif mode == "cp-bounded":
        # Bounds on the contact point are applied by nanite to the k-corrected value (they are not part of
        # the property's quantifier); choose them so that they contain the contact point in measured AND in
        # corrected units with a margin far beyond any fit scatter, i.e. they never become active.
        lo, hi = min(0.0, k * cp, cp) - 5e-7, max(0.0, k * cp, cp) + 5e-7
        p0["contact_point"].set(min=lo, max=hi)
    elif mode == "cp-one-sided-limit":
        # a single finite limit (measured units, like the value), far from the contact point: never active
        wlim = 0.05 * abs(cp) + 5e-8
        if rng.random() < 0.5:
            p0["contact_point"].set(min=cp - wlim)
        else:
            p0["contact_point"].set(max=cp + wlim)
        if rng.random() < 0.4:
            p0["contact_point"].set(value=cp, vary=False)
    elif mode == "baseline-fixed":
        p0["baseline"].set(value=truth["baseline"].value, vary=False)
    # the same object has seen an attempt that could not be fitted (an interval holding a few samples only)
    # with the same k before: "the initial guess is interpreted in measured units" also for the next call
    after_failed = rng.random() < 0.25
    meta = {"model": mk, "k": k, "segment": seg, "range_type": kw["range_type"],
            "range_x": [float(v) for v in kw["range_x"]], "plateau": bool(kw.get("optimal_fit_edelta")),
            "weight_cp": float(kw["weight_cp"]), "noise": noise, "cp_true": cp, "mode": mode,
            "cp_init": p0["contact_point"].value, "after_failed_attempt": after_failed,
            "cp_limits": [float(p0["contact_point"].min), float(p0["contact_point"].max)]}
    out = {}
    for kk in (1.0, k):
        idnt = copy.deepcopy(idnt0)
        kw_k = copy.deepcopy(kw)
        kw_k["params_initial"] = copy.deepcopy(p0)
        kw_k["gcf_k"] = kk
        if after_failed:
            kw_f = copy.deepcopy(kw_k)
            kw_f.pop("optimal_fit_edelta", None)
            kw_f.pop("optimal_fit_num_samples", None)
            step_ = float(np.median(np.abs(np.diff(np.asarray(idnt0["tip position"])[:50]))))
            kw_f.update(range_type="absolute", range_x=[cp - 1.2 * step_, cp + 1.2 * step_])
            fitlib.fit(idnt, **kw_f)
            # ... and the caller then only changes the interval: the stored initial parameters are used
            kw_k.pop("params_initial")
        res, rec = fitlib.fit(idnt, **kw_k)
        out[kk] = (res, rec, idnt, kw_k.get("params_initial", p0))
    out["idnt0"], out["kw"] = idnt0, kw
    return meta, out, p0


def entry_points(ctx):
    """the factor asked for on a curve that was fitted before with another factor, through every documented route:
    fit_model(gcf_k=k), the setting edited and fit_model(), the fitter class with the keyword, the fitter class after
    the setting was edited - each must give the modulus of the k = 1 fit times k^-p and the same contact point"""
    from nanite.fit import IndentationFitter
    rng = ctx.rng
    for i in range(9 if ctx.tier == "quick" else 90):
        mk = list(POWER)[i % 3]
        truth = fitlib.truth_params(mk, rng, cp=rng.choice([0.0, -4e-7, 1.1e-7, 2.5e-6]))
        idnt0 = fitlib.synth_curve(mk, truth, rng, n_app=200, n_ret=100, noise=0.0, seed=900 + i)
        p0 = fitlib.start_params(mk, truth, rng, rel=0.05)
        k0 = rng.choice([1.0, 1.0, 0.8])
        k = rng.choice([0.5, 0.25, 2.0, 1.5, 0.6135])
        # minimisers with and without uncertainty estimates (lmfit reports stderr = None for the simplex method and
        # when the covariance is switched off)
        how = [("leastsq", {}), ("nelder", {}), ("leastsq", {"calc_covar": False})][(i // 3) % 3]
        base = dict(model_key=mk, segment=0, weight_cp=0, range_type="absolute", range_x=[0, 0], method=how[0],
                    method_kws=dict(how[1]))
        tol_e, tol_cp = (2e-3, 5e-10) if how[0] == "leastsq" else (2e-2, 1.5e-8)
        ref = copy.deepcopy(idnt0)
        fitlib.fit(ref, **copy.deepcopy(base), params_initial=copy.deepcopy(p0), gcf_k=1.0)
        if not ref.fit_properties.get("success"):
            continue
        e1, cp1 = ref.fit_properties["params_fitted"]["E"].value, ref.fit_properties["params_fitted"]["contact_point"].value
        for route in ("fit_model(gcf_k=k)", "fit_properties['gcf_k'] = k; fit_model()",
                      "IndentationFitter(idnt, gcf_k=k).fit()", "fit_properties['gcf_k'] = k; IndentationFitter(idnt).fit()"):
            idnt = copy.deepcopy(idnt0)
            fitlib.fit(idnt, **copy.deepcopy(base), params_initial=copy.deepcopy(p0), gcf_k=k0)
            meta = {"oracle": "entry-points", "model": mk, "k_before": k0, "k": k, "route": route,
                    "cp_true": truth["contact_point"].value, "method": how[0], "method_kws": how[1]}
            ctx.case(meta, nontrivial=json.dumps(meta, sort_keys=True), bucket=["stream=entry-points", f"k={k}"])
            with warnings.catch_warnings():
                warnings.simplefilter("ignore")
                try:
                    if route.startswith("fit_properties"):
                        idnt.fit_properties["gcf_k"] = k
                    if "IndentationFitter" in route:
                        ft = IndentationFitter(idnt, gcf_k=k) if "gcf_k=k" in route else IndentationFitter(idnt)
                        ft.fit()
                        pf = ft.fp.get("params_fitted")
                    else:
                        idnt.fit_model(**({"gcf_k": k} if "gcf_k=k" in route else {}))
                        pf = idnt.fit_properties.get("params_fitted")
                except BaseException as e:  # noqa
                    ctx.violation(f"entry-point-raises:{type(e).__name__}", f"{route} raised {e!r}", {"input": meta})
                    continue
            if pf is None:
                ctx.violation("entry-point-no-result", f"{route}: no fitted parameters although the k = 1 fit of the "
                              "same curve succeeds", {"input": meta})
                continue
            bad = []
            if abs(pf["E"].value * k ** POWER[mk] - e1) > tol_e * abs(e1):
                bad.append(f"E_k k^p = {pf['E'].value * k ** POWER[mk]!r} vs E_1 = {e1!r}")
            if abs(pf["contact_point"].value - cp1) > tol_cp:
                bad.append(f"contact point {pf['contact_point'].value!r} vs {cp1!r}")
            if bad:
                ctx.violation("k-not-equivalent:entry-point", f"{route} on a curve fitted before with k={k0}: " +
                              "; ".join(bad), {"input": meta, "observed": bad})


def run(ctx):
    ctx.trusted = TRUST_COMMON + [
        "theorems: Props/C11 (abstract power law over an ordered field) + the scaling theorems about the "
        "REGENERATED hertz_para / hertz_cone / hertz_pyr3s definitions (Props/C02) + the fitter model shared "
        "with C04/C05; that the optimiser reaches the corresponding minimiser for both k is runtime behaviour "
        "(explored here)"]
    ctx.rule = ("noise-free (and, with weighting off, noisy) curves of the three power-law models fitted with k "
                "and with k = 1: absolute / contact-point-relative / plateau-search ranges, both segments, contact "
                "points away from zero, free / fixed / bounded contact point; compared: contact point, baseline, "
                "E_k k^p = E_1, fitted curve, xmin/xmax, stored initial parameters untouched, every optimiser "
                "call starts at k x cp_0; non-trivial = distinct case where both fits succeeded")
    ok_gen = ctx.gen(["models"])
    ctx.build(MODS, clean=(ctx.tier == "thorough"))
    ctx.grep_audit()
    if ctx.tier == "thorough":
        ctx.leanchecker(["Nanite.Props.C11", "Nanite.Props.C02"])
    n = 60 if ctx.tier == "quick" else 1000
    for i in range(n):
        meta, out, p0 = one_case(ctx, ctx.rng, ctx.seed * 100000 + i)
        (r1, rec1, i1, pi1), (rk, reck, ik, pik) = out[1.0], out[meta["k"]]
        rep = {"input": meta}
        ok = (r1 == "ok" and rk == "ok" and i1.fit_properties.get("success") and ik.fit_properties.get("success"))
        ctx.case({**meta, "results": [r1, rk]}, nontrivial=json.dumps(meta, sort_keys=True) if ok else None,
                 bucket=["model=" + meta["model"], "range=" + ("plateau" if meta["plateau"] else meta["range_type"]),
                         "mode=" + meta["mode"], f"k={meta['k']}", f"both-ok={bool(ok)}",
                         f"after-failed-attempt={meta['after_failed_attempt']}",
                         f"weight={'on' if meta['weight_cp'] else 'off'}"])
        # arguments untouched (C10 flavour, needed for "guess in measured units")
        for pin in (pi1, pik):
            if pin["contact_point"].value != p0["contact_point"].value:
                ctx.violation("initial-parameters-modified", "fit_model changed the caller's initial contact point",
                              rep)
        # every optimiser call starts from k * cp0
        for kk, rec in ((1.0, rec1), (meta["k"], reck)):
            for c in rec.calls:
                exp = kk * p0["contact_point"].value
                if abs(c["cp_init"] - exp) > 4 * EPS * abs(exp):
                    ctx.violation(f"initial-guess-not-measured-units:{'plateau' if meta['plateau'] else meta['range_type']}",
                                  f"an optimiser call of the k={kk} fit started from contact point "
                                  f"{c['cp_init']!r}, expected k*cp0 = {exp!r}", rep)
                    break
        if rk != r1:
            ctx.violation("outcome-differs", f"k=1 gives {r1}, k={meta['k']} gives {rk}", rep)
            continue
        if not ok:
            continue
        f1, fk = i1.fit_properties, ik.fit_properties
        if meta["plateau"]:
            # the scanned depths are measured depths: the same for every k
            g1_, gk_ = np.asarray(f1["optimal_fit_delta_array"]), np.asarray(fk["optimal_fit_delta_array"])
            if g1_.shape != gk_.shape or not np.allclose(g1_, gk_, rtol=1e-12, atol=0):
                ctx.violation("plateau-scan-depths-depend-on-k",
                              f"the depths scanned by the plateau search differ between k=1 ({g1_[:3]}...) and "
                              f"k={meta['k']} ({gk_[:3]}...)", rep)
                continue
            g = np.asarray(f1["optimal_fit_delta_array"])
            if abs(f1["optimal_fit_delta"] - fk["optimal_fit_delta"]) > abs(g[1] - g[0]) * 1e-6:
                # the two scans selected different plateaus (decided by the smoothed modulus curve, a
                # runtime numeric): the equivalence claim presupposes the same plateau
                ctx.dist["plateau=different-dopt (not compared)"] = \
                    ctx.dist.get("plateau=different-dopt (not compared)", 0) + 1
                continue
        p1, pk = f1["params_fitted"], fk["params_fitted"]
        # the modulus is only determined by points in contact: a selected interval that lies entirely on the
        # baseline side of the contact point (possible for the plateau search on mismatch data) leaves E
        # arbitrary for every k - nothing to compare
        tip1, used = np.asarray(i1["tip position"]), np.asarray(i1["fit range"]).astype(bool)
        if int(np.sum(used & (tip1 < p1["contact_point"].value))) < 5:
            ctx.dist["modulus-not-identifiable (not compared)"] = \
                ctx.dist.get("modulus-not-identifiable (not compared)", 0) + 1
            continue
        k = meta["k"]
        p = POWER[meta["model"]]
        scale = 1e-6
        tol_cp = 5e-10 if not meta["noise"] else 2e-9
        bad = []
        if abs(p1["contact_point"].value - pk["contact_point"].value) > tol_cp:
            bad.append(f"contact point {p1['contact_point'].value!r} vs {pk['contact_point'].value!r}")
        fmax = float(np.nanmax(np.abs(i1["force"])))
        if abs(p1["baseline"].value - pk["baseline"].value) > 1e-4 * fmax:
            bad.append(f"baseline {p1['baseline'].value!r} vs {pk['baseline'].value!r}")
        if abs(pk["E"].value * k ** p - p1["E"].value) > 2e-3 * abs(p1["E"].value):
            bad.append(f"E_k k^p = {pk['E'].value * k ** p!r} vs E_1 = {p1['E'].value!r}")
        a, b_ = np.asarray(i1["fit"]), np.asarray(ik["fit"])
        if not np.array_equal(np.isnan(a), np.isnan(b_)) or \
                np.nanmax(np.abs(a - b_)) > 2e-3 * fmax:
            bad.append("fitted curve")
        used1, usedk = np.asarray(i1["fit range"]), np.asarray(ik["fit range"])
        # (a boundary sample may flip when the fitted contact point differs in the last digits)
        if np.sum(used1 != usedk) > 2:
            bad.append(f"points used ({int(used1.sum())} vs {int(usedk.sum())})")
        dx = float(np.max(np.abs(np.diff(np.sort(np.asarray(i1['tip position'])))))) * 2.5
        if abs(f1["xmin"] - fk["xmin"]) > dx or abs(f1["xmax"] - fk["xmax"]) > dx:
            bad.append(f"xmin/xmax ({f1['xmin']}, {f1['xmax']}) vs ({fk['xmin']}, {fk['xmax']})")
        # (1) a signal below the noise leaves the modulus undetermined; (2) on exact data the minimiser is unique
        # (C01 identifiability), so two runs that both reach chi^2 ~ 0 must agree - but a run that stops in another
        # local minimum (different chi^2, both in force units) did not reach "the corresponding minimiser"
        if bad:
            nused = max(int(np.sum(np.asarray(i1["fit range"]).astype(bool))), 1)
            fin = np.abs(np.asarray(i1["force"])[np.asarray(i1["fit range"]).astype(bool)])
            sig = float(np.nanmax(fin) - np.nanmin(fin)) if fin.size else 0.0
            if meta["noise"] and sig < 200 * meta["noise"]:
                ctx.dist["low signal-to-noise (not compared)"] = \
                    ctx.dist.get("low signal-to-noise (not compared)", 0) + 1
                continue
            floor = nused * (1e-7 * fmax) ** 2
            c1, ck = float(f1.get("chi_sqr", 0.0)), float(fk.get("chi_sqr", 0.0))
            if max(c1, ck) > 2 * min(c1, ck) + floor:
                ctx.dist["different local minima (not compared)"] = \
                    ctx.dist.get("different local minima (not compared)", 0) + 1
                continue
        if bad and meta["plateau"]:
            # mismatch data + plateau interval: is the k = 1 fit itself reproducible when its start is moved
            # by a rounding-level amount?  If not, the optimiser's end point is not a function of the problem
            # (several minima / flat directions) and two parametrisations cannot be compared.
            idnt2 = copy.deepcopy(out["idnt0"])
            kw2 = copy.deepcopy(out["kw"])
            pp = copy.deepcopy(p0)
            pp["contact_point"].set(value=pp["contact_point"].value * (1 + 1e-7))
            pp["E"].set(value=pp["E"].value * (1 + 1e-7))
            kw2["params_initial"] = pp
            kw2["gcf_k"] = 1.0
            r2, _ = fitlib.fit(idnt2, **kw2)
            f2 = idnt2.fit_properties
            unstable = r2 != "ok" or not f2.get("success") or \
                abs(f2["params_fitted"]["contact_point"].value - p1["contact_point"].value) > tol_cp or \
                abs(f2["params_fitted"]["E"].value - p1["E"].value) > 2e-3 * abs(p1["E"].value)
            # ... or the two optimiser runs ended in different local minima of the same objective (their chi^2,
            # both in force units, differ): the corresponding minimiser was not reached by one of them
            c1, ck = float(f1.get("chi_sqr", 0.0)), float(fk.get("chi_sqr", 0.0))
            if max(c1, ck) > 2 * min(c1, ck) + 1e-30:
                unstable = True
            if unstable:
                ctx.dist["plateau=ill-conditioned (not compared)"] = \
                    ctx.dist.get("plateau=ill-conditioned (not compared)", 0) + 1
                continue
        if bad:
            ctx.violation(f"k-not-equivalent:{meta['mode']}:{'plateau' if meta['plateau'] else meta['range_type']}",
                          f"fit with k={k} is not equivalent to k=1: " + "; ".join(bad), {**rep, "observed": bad})
    entry_points(ctx)


def replay(ctx, path):
    run(ctx)
    return ctx.finish()
