"""C13 – structural model contract: the direction-agnostic wrapper against the Lean model (exact
rationals, deliberately order-sensitive harness models), and the contract oracle on every registered
model."""
import copy
import json
import types
import warnings

import numpy as np

from core import TRUST_COMMON
import fitlib
from fitlib import q

MODS = ["Nanite.Props.C13", "Nanite.Audit.C13", "Nanite.Props.C13Shape", "Nanite.Audit.C13Shape",
        "Nanite.Props.C13Defaults", "Nanite.Audit.C13Defaults"]


def harness_module(key, kind):
    """a model module whose model function is deliberately order-sensitive / index dependent"""
    import lmfit

    def defaults():
        p = lmfit.Parameters()
        p.add("E", value=1.0, min=0)
        p.add("contact_point", value=0)
        p.add("baseline", value=0)
        return p
    if kind == "cumsum":
        def mf(delta, E, contact_point=0, baseline=0):
            return np.cumsum(delta) * E + baseline
    elif kind == "square":
        def mf(delta, E, contact_point=0, baseline=0):
            return delta * delta * E + baseline
    elif kind == "table":
        # a user model that keeps its results (lookup table / memoised evaluation) and hands out the kept array
        store = {}

        def mf(delta, E, contact_point=0, baseline=0):
            k_ = (delta.tobytes(), float(E), float(contact_point), float(baseline))
            if k_ not in store:
                store[k_] = delta * delta * E + baseline
            return store[k_]
    else:
        def mf(delta, E, contact_point=0, baseline=0):
            return delta * np.arange(delta.size) * E + baseline
    m = types.ModuleType("verif_c13_" + key)
    m.get_parameter_defaults = defaults
    m.model_doc = "harness model " + kind
    m.model_func = mf
    m.model_key = key
    m.model_name = "harness " + kind
    m.parameter_keys = ["E", "contact_point", "baseline"]
    m.parameter_names = ["Modulus " + kind, "Contact Point", "Force Baseline"]
    m.parameter_units = ["Pa", "m", "N"]
    m.valid_axes_x = ["tip position"]
    m.valid_axes_y = ["force"]
    return m


def gen_delta(rng):
    n = rng.choice([1, 2, 3, 5, 8, 20, 50])
    kind = rng.choice(["asc", "desc", "asc-ties", "desc-ties", "noisy-asc", "noisy-desc", "const", "vee"])
    base = [rng.randint(-40, 40) / 8 for _ in range(n)]
    if kind in ("asc", "desc"):
        d = sorted(set(base)) or [0.0]
        if kind == "desc":
            d = d[::-1]
    elif kind in ("asc-ties", "desc-ties"):
        d = sorted(base + base[: max(1, n // 3)])
        if kind == "desc-ties":
            d = d[::-1]
    elif kind == "noisy-asc":
        d = [i + rng.choice([-1.5, 0, 0.25, 1.5]) for i in range(n)]
    elif kind == "noisy-desc":
        d = [-i + rng.choice([-1.5, 0, 0.25, 1.5]) for i in range(n)]
    elif kind == "const":
        d = [base[0]] * n
    else:
        d = base
    return kind, np.array(d, dtype=float)


def bounds_oracle(ctx, key, md):
    """"parameters in bounds" includes the declared limits themselves: every parameter other than contact point and
    baseline is put on each of its finite limits in turn; the model must still return finite forces of the right shape
    that equal the baseline off contact, follow a baseline change exactly and do not decrease with depth"""
    p_def = md.get_parameter_defaults()
    cp, b0 = 1.3e-7, 2e-10
    for name in p_def:
        if name in ("contact_point", "baseline"):
            continue
        for bound in (p_def[name].min, p_def[name].max):
            if not np.isfinite(bound):
                continue
            p = copy.deepcopy(p_def)
            p[name].set(value=bound)
            p["contact_point"].set(value=cp)
            p["baseline"].set(value=b0)
            R = p["R"].value if "R" in p else 5e-6
            x = np.linspace(cp + 1e-6, cp - min(R if R > 0 else 3e-6, 3e-6), 200)
            tag = f"{key}:{name}={bound:g}"
            rep = {"input": {"model": key, "parameter": name, "value": float(bound),
                             "others": "defaults, contact point 1.3e-7, baseline 2e-10"}}
            ctx.case({"oracle": "at-declared-bound", "model": key, "parameter": name, "value": float(bound)},
                     nontrivial=f"b:{tag}", bucket=["oracle=at-declared-bound", "model=" + key])
            with warnings.catch_warnings():
                warnings.simplefilter("ignore")
                try:
                    f = md.model(p, x.copy())
                    p3 = copy.deepcopy(p)
                    p3["baseline"].set(value=b0 + 1e-9)
                    f3 = md.model(p3, x.copy())
                except BaseException as e:  # noqa
                    ctx.violation(f"at-declared-bound:{tag}:raises-{type(e).__name__}",
                                  f"{key}: model() raises {type(e).__name__} ({e}) with {name} on its declared limit "
                                  f"{bound!r}", rep)
                    continue
            if np.shape(f) != x.shape or not np.all(np.isfinite(f)):
                ctx.violation(f"at-declared-bound:{tag}:not-finite",
                              f"{key}: with {name} on its declared limit {bound!r} model() returns "
                              f"{int(np.sum(~np.isfinite(f)))} non-finite forces (shape {np.shape(f)})", rep)
                continue
            bad = []
            if not np.all(f[x >= cp] == b0):
                bad.append("force differs from the baseline off contact")
            # (a force of 1e7 N - cone of half-angle 90 degrees - absorbs a nanonewton: tolerance of a few ulps of f)
            if not np.allclose(f3 - f, 1e-9, rtol=1e-9, atol=1e-18 + 8 * np.finfo(float).eps * float(np.max(np.abs(f)))):
                bad.append("adding to the baseline does not add the same to the force")
            inc = f[x < cp]
            if inc.size > 1 and np.any(np.diff(inc) < -1e-12 * max(float(np.max(np.abs(inc))), 1e-300)):
                bad.append("force decreases with indentation depth")
            if bad:
                ctx.violation(f"at-declared-bound:{tag}:contract", f"{key}: with {name} on its declared limit {bound!r}: "
                              + "; ".join(bad), {**rep, "observed": bad})


def contract_oracle(ctx, key, md, rng, npts):
    """the structural contract on one registered model (numeric, implementation side)"""
    p = md.get_parameter_defaults()
    moduli = [n for n in p if n.startswith("E")]
    cp = 1.3e-7
    p["contact_point"].set(value=cp)
    p["baseline"].set(value=2e-10)
    R = p["R"].value if "R" in p else 5e-6
    depth = min(R, 3e-6)
    x_desc = np.linspace(cp + 1e-6, cp - depth, npts)
    rep = {"input": {"model": key}}
    for orient, x in (("descending", x_desc), ("ascending", x_desc[::-1].copy())):
        x0 = x.copy()
        with warnings.catch_warnings():
            warnings.simplefilter("ignore")
            f = md.model(p, x)
        ctx.case({"oracle": "contract", "model": key, "orientation": orient}, nontrivial=f"c:{key}:{orient}",
                 bucket=["oracle=contract", "model=" + key])
        if not np.array_equal(x, x0):
            ctx.violation(f"input-modified:{key}", f"{key}: model() modified its abscissa", rep)
        if f.shape != x.shape:
            ctx.violation(f"shape:{key}", f"{key}: output shape {f.shape} != abscissa shape {x.shape}", rep)
            continue
        # the returned array belongs to the caller: writing into it must not change what an equal call returns
        f_keep = f.copy()
        f[:] = f - 1.0e-9
        with warnings.catch_warnings():
            warnings.simplefilter("ignore")
            f_again = md.model(p, x.copy())
            r_again = md.residual(p, x.copy(), f_keep.copy(), 0)
        if not np.array_equal(f_again, f_keep):
            ctx.violation(f"result-aliased:{key}", f"{key}: after the caller wrote into the array returned by model(), an "
                          "equal call returns different values (the result is shared with an internal cache)", rep)
        if np.any(np.abs(np.asarray(r_again)) > 1e-9 * max(float(np.max(np.abs(f_keep))), 1e-300)):
            ctx.violation(f"residual-after-write:{key}", f"{key}: residual of data = model is not zero after the caller "
                          "wrote into an earlier model() result", rep)
        f = f_keep
        # "the contact-point weights": called without a weighting distance, the model's residual, the generic residual
        # function and the weights function must mean the same default distance
        from nanite.model import residuals as _res
        g_ = np.random.default_rng(len(key) + npts)
        data = f_keep + 1e-10 * g_.standard_normal(f_keep.size)
        with warnings.catch_warnings():
            warnings.simplefilter("ignore")
            try:
                r_def = np.asarray(md.residual(p, x.copy(), data.copy()))
                w_def = _res.compute_contact_point_weights(cp=cp, delta=x.copy())
                r_gen = np.asarray(_res.residual(p, x.copy(), data.copy(), model=md.model))
            except BaseException as e:  # noqa
                r_def = None
                ctx.violation(f"default-weights-raise:{key}", f"{key}: residual without a weighting distance raises "
                              f"{type(e).__name__}: {e}", rep)
        if r_def is not None:
            scale = float(np.max(np.abs(data - f_keep))) or 1.0
            if not np.allclose(r_def, (data - f_keep) * w_def, rtol=1e-12, atol=1e-12 * scale):
                ctx.violation(f"default-residual-weights:{key}", f"{key}: residual(params, delta, data) without a "
                              "weighting distance is not (data - model) x compute_contact_point_weights(cp, delta)", rep)
            elif not np.allclose(r_def, r_gen, rtol=1e-12, atol=1e-12 * scale):
                ctx.violation(f"default-residual-generic:{key}", f"{key}: the model's residual and residuals.residual("
                              "..., model=md.model) disagree when no weighting distance is given", rep)
        # no point in contact (contact point at or below the deepest sample): an array of the baseline, same shape
        for cp_out in (float(np.min(x)), float(np.min(x)) - 2e-7):
            p0 = copy.deepcopy(p)
            p0["contact_point"].set(value=cp_out)
            with warnings.catch_warnings():
                warnings.simplefilter("ignore")
                try:
                    fo = md.model(p0, x.copy())
                    ro = md.residual(p0, x.copy(), np.full_like(x, p0["baseline"].value), 0)
                except BaseException as e:  # noqa
                    ctx.violation(f"no-contact-raises:{key}:{orient}", f"{key}: model()/residual() with no point in "
                                  f"contact ({orient} abscissa) raises {type(e).__name__}: {e}", rep)
                    continue
            if not isinstance(fo, np.ndarray) or fo.shape != x.shape or not np.all(fo == p0["baseline"].value):
                ctx.violation(f"no-contact-output:{key}", f"{key}: with no point in contact model() returns "
                              f"{type(fo).__name__} of shape {getattr(fo, 'shape', None)} instead of an array of the "
                              "baseline with the shape of the abscissa", rep)
            elif np.shape(ro) != x.shape or np.any(np.asarray(ro) != 0):
                ctx.violation(f"no-contact-residual:{key}", f"{key}: residual of baseline data with no point in contact "
                              "is not an array of zeros", rep)
        f_ref = md.model(p, x_desc)
        if orient == "ascending" and not np.allclose(f, f_ref[::-1], rtol=1e-12, atol=0):
            ctx.violation(f"order:{key}", f"{key}: ascending abscissa does not give the reversed forces", rep)
        # translation
        s = 3.7e-7
        p2 = copy.deepcopy(p)
        p2["contact_point"].set(value=cp + s)
        f2 = md.model(p2, x + s)
        if not np.allclose(f2, f, rtol=1e-9, atol=1e-9 * np.max(np.abs(f))):
            ctx.violation(f"translation:{key}", f"{key}: shifting abscissa and contact point changes the force",
                          rep)
        # baseline
        p3 = copy.deepcopy(p)
        p3["baseline"].set(value=p["baseline"].value + 1e-9)
        f3 = md.model(p3, x)
        if not np.allclose(f3 - f, 1e-9, rtol=1e-9, atol=1e-18):
            ctx.violation(f"baseline:{key}", f"{key}: adding to the baseline does not add the same to the force",
                          rep)
        # linearity in the moduli
        p4 = copy.deepcopy(p)
        for m_ in moduli:
            p4[m_].set(value=min(p[m_].value * 2.5, p[m_].max))
        if all(p4[m_].value == p[m_].value * 2.5 for m_ in moduli) and moduli:
            f4 = md.model(p4, x)
            b_ = p["baseline"].value
            if not np.allclose(f4 - b_, 2.5 * (f - b_), rtol=1e-9, atol=1e-12 * np.max(np.abs(f - b_))):
                ctx.violation(f"linearity:{key}", f"{key}: force minus baseline is not linear in the moduli", rep)
        # not in contact: exactly the baseline; continuity; monotonic with depth
        fd = f if orient == "descending" else f[::-1]
        xd = x_desc
        out = xd >= cp
        if not np.all(fd[out] == p["baseline"].value):
            ctx.violation(f"noncontact:{key}", f"{key}: force differs from the baseline where the tip is not in "
                          "contact", rep)
        eps_d = np.array([1e-13, 1e-12, 1e-11])
        fc = md.model(p, cp - eps_d)
        if np.any(np.abs(fc - p["baseline"].value) > 1e-3 * np.max(np.abs(fd - p["baseline"].value))):
            ctx.violation(f"continuity:{key}", f"{key}: force is not continuous at contact", rep)
        inc = fd[~out]
        if np.any(np.diff(inc) < -1e-12 * np.max(np.abs(inc))):
            ctx.violation(f"monotone:{key}", f"{key}: force decreases with indentation depth (up to the tip "
                          "radius)", rep)


def run(ctx):
    ctx.trusted = TRUST_COMMON + [
        "hand-written model lean/Nanite/Model/Residual.lean of model_direction_agnostic / residual (tied by "
        "exact correspondence with harness-defined order-sensitive models registered through register_model)",
        "translation / baseline / linearity / monotonicity of user model functions are not provable (arbitrary "
        "programs): monitored by the oracle; for the shipped models they are theorems about the regenerated "
        "definitions (Props/C02, Props/C13Shape: translation, baseline, linearity for all five; monotone in depth "
        "and continuous across the contact point for the four single-material models, the sphere series up to the "
        "tip radius; the layered Clifford model is proved continuous, its monotonicity is checked by the oracle only)"]
    ctx.rule = ("abscissa arrays of either orientation (strict, with ties, noisy, constant, non-monotonic; lengths "
                "1-50) through harness models (running sum = order-sensitive, index-dependent, point-wise) "
                "registered in the real registry vs the Lean wrapper; default residuals vs (data - model) x "
                "weights; contract oracle on every registered model; non-trivial = distinct (model, abscissa)")
    ctx.gen(["models", "modeldefaults"])
    ctx.build(MODS, clean=(ctx.tier == "thorough"))
    ctx.grep_audit()
    if ctx.tier == "thorough":
        ctx.leanchecker(["Nanite.Props.C13", "Nanite.Props.C13Shape", "Nanite.Props.C13Defaults"])
    from nanite import model
    rng = ctx.rng
    mods = {k: harness_module("verif_c13_" + k, k) for k in ("cumsum", "square", "index")}
    lines, expect, metas = [], [], []
    try:
        mds = {}
        with warnings.catch_warnings():
            warnings.simplefilter("ignore")
            for k, m in mods.items():
                mds[k] = model.register_model(m)
        n = 300 if ctx.tier == "quick" else 6000
        for i in range(n):
            kind, d = gen_delta(rng)
            g = rng.choice(list(mods))
            md = mds[g]
            p = md.get_parameter_defaults()
            d0 = d.copy()
            try:
                f = md.model(p, d)
                got = "[" + ",".join(q(v) for v in f) + "]"
            except IndexError:
                got = "err IndexError"
            meta = {"g": g, "orientation": kind, "delta": [float(v) for v in d[:12]], "n": len(d)}
            ctx.case(meta, nontrivial=json.dumps([g, list(map(float, d))]),
                     bucket=["stream=wrapper", "g=" + g, "orientation=" + kind, f"n={len(d)}"])
            if not np.array_equal(d, d0):
                ctx.violation("input-modified:wrapper", "model() modified the abscissa array", {"input": meta})
            lines.append({"op": "wrap", "delta": [q(v) for v in d], "g": g})
            expect.append(got)
            metas.append(meta)
            # oracle: the user's function sees approach-ordered data; output in caller order
            if len(d) and d[0] != d[-1] and len(d) > 1:
                fr = md.model(p, d[::-1].copy())
                if not np.array_equal(fr, f[::-1]):
                    ctx.violation(f"wrapper-order:model:{g}", "model(params, reversed abscissa) is not the "
                                  "reversed model output", {"input": meta})
            # ... stated on the user's function itself: it is called on the abscissa running from its first-recorded
            # end downwards (first >= last), and its output comes back in the caller's order - for non-monotonic
            # abscissae too, where first / last and minimum / maximum positions disagree
            if len(d):
                v_ = p.valuesdict()
                seen_ = d[::-1].copy() if d[0] < d[-1] else d.copy()
                ef = np.asarray(mods[g].model_func(seen_, **v_), dtype=float)
                ef = ef[::-1] if d[0] < d[-1] else ef
                if not isinstance(f, str) and not np.array_equal(np.asarray(f, dtype=float), ef):
                    ctx.violation(f"wrapper-not-approach-ordered:{g}:{kind}", "model(params, abscissa) is not the user's "
                                  "function evaluated on the approach-ordered abscissa (first >= last) and returned in "
                                  "the caller's order", {"input": {**meta, "delta": [float(v) for v in d]},
                                                         "observed": [float(v) for v in np.asarray(f)[:12]],
                                                         "expected": [float(v) for v in ef[:12]]})
            # default residuals = (force - model) * weights
            if len(d):
                force = np.array([rng.randint(-8, 8) / 4 for _ in d], dtype=float)
                for wd in (0, 0.5, 2.0):
                    r = md.residual(p, d, force, wd) if True else None
                    w = np.minimum(np.abs(d - p["contact_point"].value) / wd, 1) if wd else 1.0
                    exp = (force - f) * w
                    if not np.allclose(r, exp, rtol=1e-12, atol=1e-12):
                        ctx.violation(f"default-residual:{g}:{'asc' if d[0] < d[-1] else 'desc'}",
                                      "default residual is not (data - model) x contact-point weights "
                                      f"(weight_cp={wd})", {"input": meta, "weight_cp": wd})
                        break
        out = ctx.driver("Fit", lines)
        if out is not None:
            for meta, a, b_ in zip(metas, expect, out):
                if a != b_:
                    ctx.disagree(meta, a[:300], b_[:300], "wrapper output")
        # a user model that hands out an array it keeps: the library must not write into it
        tab = harness_module("verif_c13_table", "table")
        mods["table"] = tab
        with warnings.catch_warnings():
            warnings.simplefilter("ignore")
            mdt = model.register_model(tab)
        for i in range(20 if ctx.tier == "quick" else 400):
            kind, d = gen_delta(rng)
            if len(d) < 2:
                continue
            p = mdt.get_parameter_defaults()
            p["E"].set(value=rng.choice([1.0, 2.5]))
            force = np.array([rng.randint(-8, 8) / 4 for _ in d], dtype=float)
            wd = rng.choice([0, 0.5, 2.0])
            f1 = np.array(mdt.model(p, d.copy()), copy=True)
            r1 = np.array(mdt.residual(p, d.copy(), force.copy(), wd), copy=True)
            f2 = np.array(mdt.model(p, d.copy()), copy=True)
            r2 = np.array(mdt.residual(p, d.copy(), force.copy(), wd), copy=True)
            w = np.minimum(np.abs(d - p["contact_point"].value) / wd, 1) if wd else 1.0
            meta = {"g": "table (model function returns an array it keeps)", "orientation": kind,
                    "delta": [float(v) for v in d[:12]], "n": len(d), "weight_cp": wd}
            ctx.case(meta, nontrivial=json.dumps(["table", list(map(float, d)), wd]),
                     bucket=["stream=retained-result", "orientation=" + kind])
            if not np.array_equal(f1, f2):
                ctx.violation("model-result-overwritten", "after residual() an equal model() call returns different "
                              "values: the library wrote into the array returned by the user's model function",
                              {"input": meta})
            elif not (np.allclose(r1, (force - f1) * w, rtol=1e-12, atol=1e-12) and np.array_equal(r1, r2)):
                ctx.violation("default-residual:table", "default residual is not (data - model) x contact-point "
                              "weights on the second call", {"input": meta})
        # contract oracle on everything registered (shipped, plug-ins)
        for key in sorted(model.models_available):
            if key.startswith("verif_c13_"):
                continue
            contract_oracle(ctx, key, model.models_available[key], rng, 400 if ctx.tier == "quick" else 20000)
            bounds_oracle(ctx, key, model.models_available[key])
    finally:
        for k, m in mods.items():
            model.models_available.pop(m.model_key, None)


def replay(ctx, path):
    run(ctx)
    return ctx.finish()
