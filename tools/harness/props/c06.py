"""C06 – preprocessing is a pure, repeatable function of raw data, steps and options (history engine
of C03 with the weight on preprocessing requests, plus all ordered pairs of requests)."""
import copy
import json
import warnings

from core import TRUST_COMMON
import histlib
from props import c03


def pair_oracle(ctx, ncurves):
    """every ordered pair of (valid / invalid) requests, directly and through fit_model: the columns
    after the second request equal those of a fresh curve; a rejected request is rejected again and is
    not reported; raw data never change"""
    reqs = c03.VALID_PIPES + c03.INVALID_PIPES
    for cid in range(ncurves):
        for i, a in enumerate(reqs):
            for j, b_ in enumerate(reqs):
                if ctx.tier == "quick" and (i * 7 + j * 3 + cid) % 3:
                    continue
                for via in (False, True):
                    w = histlib.World(cid, ctx.rng)
                    outs = []
                    for steps, opts in (a, b_, b_):
                        with warnings.catch_warnings():
                            warnings.simplefilter("ignore")
                            try:
                                if via:
                                    # (fit_model would also fit; only the preprocessing part matters here)
                                    w.idnt.fit_model(preprocessing=copy.deepcopy(steps),
                                                     preprocessing_options=copy.deepcopy(opts))
                                else:
                                    w.idnt.apply_preprocessing(copy.deepcopy(steps), copy.deepcopy(opts))
                                outs.append("ok")
                            except BaseException as e:  # noqa
                                outs.append(type(e).__name__)
                    hist = [f"{'fit_model' if via else 'apply_preprocessing'}({s}, {o})" for s, o in (a, b_, b_)]
                    ctx.case({"pair": hist[:2], "curve": cid, "outcomes": outs},
                             nontrivial=json.dumps([cid, i, j, via]),
                             bucket=["stream=pairs", "first=" + ("ok" if outs[0] == "ok" else "rejected"),
                                     "second=" + ("ok" if outs[1] == "ok" else "rejected"), f"via_fit={via}"])
                    if (outs[1] == "ok") != (outs[2] == "ok"):
                        ctx.violation("rejected-then-accepted" if outs[1] != "ok" else "accepted-then-rejected",
                                      f"repeating the request gives {outs[2]} after {outs[1]}", {"history": hist})
                    fp = w.idnt.fit_properties
                    if outs[2] != "ok" and (fp.get("preprocessing") == b_[0] or "tip position" in w.idnt):
                        if fp.get("preprocessing") == b_[0]:
                            ctx.violation("rejected-request-reported", "a rejected request is reported as the "
                                          "curve's preprocessing", {"history": hist})
                    if not w.raw_unchanged():
                        ctx.violation("raw-data-modified", "raw data modified", {"history": hist})
                    for sig, what in w.fresh_oracle():
                        if sig in ("columns-differ-from-fresh", "stored-pipeline-not-applicable"):
                            ctx.violation("pair:" + sig, what, {"history": hist, "curve": cid})


def run(ctx):
    ctx.trusted = TRUST_COMMON + [
        "object model lean/Nanite/Model/Indent.lean (apply_preprocessing, acceptance = order rules of C14 + "
        "per-step option errors from the live option tables); bit-identical numerical determinism of each step "
        "is observed by byte comparison with a fresh curve, not proved"]
    ctx.rule = ("random histories weighted towards preprocessing requests (valid, invalid, caller-held and edited "
                "in place, ret_details, through fit_model) vs the Lean model and vs a fresh curve with only the "
                "stored pipeline applied (column digests); plus ordered pairs of ~14 requests x 2 routes on the "
                "pool curves (second request repeated); non-trivial = distinct history / pair")
    c03.common_setup(ctx, "C06")
    c03.run_histories(ctx, "C06", focus=(6, 2, 1, 0.2, 2), nhist=35 if ctx.tier == "quick" else 800)
    pair_oracle(ctx, 1 if ctx.tier == "quick" else 3)


def replay(ctx, path):
    run(ctx)
    return ctx.finish()
