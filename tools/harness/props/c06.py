"""C06 – preprocessing is a pure, repeatable function of raw data, steps and options (history engine
of C03 with the weight on preprocessing requests, plus all ordered pairs of requests)."""
import copy
import json
import warnings

import numpy as np

from core import TRUST_COMMON
import histlib
from props import c03

# invalid option values that cannot even be compared with the stored ones (the comparison itself raises):
# such a request is rejected before any step runs.  Pair oracle only (not part of the Lean-modelled alphabet).
INCOMPARABLE = [
    (["compute_tip_position", "correct_tip_offset"],
     {"correct_tip_offset": {"method": np.array(["fit_constant_line", "frechet_direct_path"])}}),
    (["compute_tip_position", "correct_force_offset", "correct_tip_offset", "correct_force_slope"],
     {"correct_force_slope": {"region": np.array(["all", "baseline"]), "strategy": "shift"}}),
]


def pair_oracle(ctx, ncurves):
    """every ordered pair of (valid / invalid) requests, directly and through fit_model: the columns
    after the second request equal those of a fresh curve; a rejected request is rejected again and is
    not reported; raw data never change"""
    reqs = c03.VALID_PIPES + c03.INVALID_PIPES + INCOMPARABLE
    nreg = len(reqs) - len(INCOMPARABLE)
    # (curves 102, 103, 104: degenerate recordings - constant force, falling force, 60 samples - on which the
    # contact-point estimators find nothing)
    for cid in list(range(ncurves)) + [102, 103, 104]:
        for i, a in enumerate(reqs):
            for j, b_ in enumerate(reqs):
                if cid >= 100 and ((i * 5 + j + cid) % (4 if ctx.tier == "quick" else 2) or max(i, j) >= nreg):
                    continue
                if ctx.tier == "quick" and (i * 7 + j * 3 + cid) % 3 and max(i, j) < nreg:
                    continue
                for via in (False, True):
                    w = histlib.World(cid, ctx.rng)
                    outs = []
                    for steps, opts in (a, b_, b_):
                        with warnings.catch_warnings():
                            warnings.simplefilter("ignore")
                            try:
                                if via:
                                    # (fit_model would also fit; only the preprocessing part matters here)
                                    w.idnt.fit_model(preprocessing=copy.deepcopy(steps),
                                                     preprocessing_options=copy.deepcopy(opts))
                                else:
                                    w.idnt.apply_preprocessing(copy.deepcopy(steps), copy.deepcopy(opts))
                                outs.append("ok")
                            except BaseException as e:  # noqa
                                outs.append(type(e).__name__)
                    hist = [f"{'fit_model' if via else 'apply_preprocessing'}({s}, {o})" for s, o in (a, b_, b_)]
                    # the same request once more, now asking for the details of the steps: accepted iff it was
                    # accepted without them, and nothing changes
                    # (fit columns may be dropped: asking for details re-runs the pipeline and resets the fit)
                    datacols = lambda: {c: histlib.digest(w.idnt[c]) for c in w.idnt.columns  # noqa: E731
                                        if c not in ("fit", "fit residuals", "fit range")}
                    before = datacols() if outs[2] == "ok" else None
                    with warnings.catch_warnings():
                        warnings.simplefilter("ignore")
                        try:
                            w.idnt.apply_preprocessing(copy.deepcopy(b_[0]), copy.deepcopy(b_[1]), ret_details=True)
                            outd = "ok"
                        except BaseException as e:  # noqa
                            outd = type(e).__name__
                    if (outd == "ok") != (outs[2] == "ok"):
                        ctx.violation("details-change-acceptance", f"the request is {outs[2]} without and {outd} "
                                      "with ret_details=True", {"history": hist + ["... again with ret_details=True"],
                                                                "curve": cid})
                    elif before is not None:
                        after = datacols()
                        if after != before:
                            ctx.violation("details-change-columns", "asking for the details of the applied pipeline "
                                          "changes columns " + str(sorted(c for c in set(after) | set(before)
                                                                          if after.get(c) != before.get(c))),
                                          {"history": hist + ["... again with ret_details=True"], "curve": cid})
                    ctx.case({"pair": hist[:2], "curve": cid, "outcomes": outs},
                             nontrivial=json.dumps([cid, i, j, via]),
                             bucket=["stream=pairs", "first=" + ("ok" if outs[0] == "ok" else "rejected"),
                                     "second=" + ("ok" if outs[1] == "ok" else "rejected"), f"via_fit={via}"])
                    if (outs[1] == "ok") != (outs[2] == "ok"):
                        ctx.violation("rejected-then-accepted" if outs[1] != "ok" else "accepted-then-rejected",
                                      f"repeating the request gives {outs[2]} after {outs[1]}", {"history": hist})
                    fp = w.idnt.fit_properties
                    if outs[2] != "ok" and (fp.get("preprocessing") == b_[0] or "tip position" in w.idnt):
                        # (an incomparable request with the step list of the pipeline in place may be turned
                        # down before anything is touched: that pipeline then legitimately stays reported)
                        untouched = j >= nreg and a[0] == b_[0] and outs[0] == "ok"
                        if fp.get("preprocessing") == b_[0] and not untouched:
                            ctx.violation("rejected-request-reported", "a rejected request is reported as the "
                                          "curve's preprocessing", {"history": hist})
                    # the property literally: the columns after an accepted request are those of a FRESH curve given
                    # the same request (not only those of the pipeline the curve says it stored)
                    if outs[2] == "ok" and j < nreg:
                        ref = histlib.fresh(cid)
                        with warnings.catch_warnings():
                            warnings.simplefilter("ignore")
                            try:
                                ref.apply_preprocessing(copy.deepcopy(b_[0]), copy.deepcopy(b_[1]))
                                ref_ok = True
                            except BaseException:  # noqa
                                ref_ok = False
                        if not ref_ok:
                            ctx.violation("accepted-after-history-rejected-fresh", "the request is accepted after the "
                                          "first one but rejected on a fresh curve", {"history": hist, "curve": cid})
                        else:
                            diffc = [c for c in sorted(set(w.idnt.columns) | set(ref.columns))
                                     if c not in ("fit", "fit residuals", "fit range") and
                                     ((c in w.idnt) != (c in ref) or
                                      (c in ref and histlib.digest(w.idnt[c]) != histlib.digest(ref[c])))]
                            if diffc:
                                ctx.violation("columns-differ-from-fresh-request", f"columns {diffc} after the request "
                                              "differ from those of a fresh curve given the same request",
                                              {"history": hist, "curve": cid})
                    if not w.raw_unchanged():
                        ctx.violation("raw-data-modified", "raw data modified", {"history": hist})
                    for sig, what in w.fresh_oracle():
                        if sig in ("columns-differ-from-fresh", "stored-pipeline-not-applicable"):
                            ctx.violation("pair:" + sig, what, {"history": hist, "curve": cid})


def interrupt_oracle(ctx, ncurves):
    """'operations that raise' include a request the user aborts: a KeyboardInterrupt (not an `Exception`) that
    arrives while the contact-point estimation of `correct_tip_offset` is running.  The aborted request must not
    be remembered; the same request afterwards gives the columns of a fresh curve."""
    from nanite import poc as _poc
    steps = ["compute_tip_position", "correct_tip_offset", "correct_force_offset"]
    for cid in range(ncurves):
        for exc in (KeyboardInterrupt, SystemExit, MemoryError):
            for opts in ({}, {"correct_tip_offset": {"method": "deviation_from_baseline"}}):
                hist = ["apply_preprocessing(['compute_tip_position', 'correct_force_offset'])",
                        f"apply_preprocessing({steps}, {opts})  # {exc.__name__} raised inside compute_poc",
                        f"apply_preprocessing({steps}, {opts})"]
                idnt = histlib.fresh(cid)
                ref = histlib.fresh(cid)
                real = _poc.compute_poc

                def aborted(*a, **k):
                    raise exc()
                with warnings.catch_warnings():
                    warnings.simplefilter("ignore")
                    ref.apply_preprocessing(copy.deepcopy(steps), copy.deepcopy(opts))
                    idnt.apply_preprocessing(["compute_tip_position", "correct_force_offset"])
                    _poc.compute_poc = aborted
                    try:
                        idnt.apply_preprocessing(copy.deepcopy(steps), copy.deepcopy(opts))
                        raised = False
                    except BaseException as e:  # noqa
                        raised = isinstance(e, exc)
                    finally:
                        _poc.compute_poc = real
                    believed = idnt.fit_properties.get("preprocessing")
                    idnt.apply_preprocessing(copy.deepcopy(steps), copy.deepcopy(opts))
                ctx.case({"probe": "aborted-request", "curve": cid, "exception": exc.__name__, "options": opts},
                         nontrivial=f"abort:{cid}:{exc.__name__}:{json.dumps(opts, sort_keys=True)}",
                         bucket=["stream=aborted-request", "exception=" + exc.__name__])
                if not raised:
                    continue
                if believed == steps:
                    ctx.violation("aborted-request-remembered:" + exc.__name__, f"a request aborted by {exc.__name__} "
                                  "is reported as the applied pipeline", {"history": hist, "curve": cid})
                diffc = [c for c in sorted(set(idnt.columns) | set(ref.columns))
                         if c not in ("fit", "fit residuals", "fit range") and
                         ((c in idnt) != (c in ref) or (c in ref and histlib.digest(idnt[c]) != histlib.digest(ref[c])))]
                if diffc:
                    ctx.violation("columns-differ-after-aborted-request:" + exc.__name__, f"columns {diffc} after "
                                  f"repeating a request that was aborted by {exc.__name__} differ from those of a fresh "
                                  "curve given the same request", {"history": hist, "curve": cid})


def run(ctx):
    ctx.trusted = TRUST_COMMON + [
        "object model lean/Nanite/Model/Indent.lean (apply_preprocessing, acceptance = order rules of C14 + "
        "per-step option errors from the live option tables); bit-identical numerical determinism of each step "
        "is observed by byte comparison with a fresh curve, not proved"]
    ctx.rule = ("random histories weighted towards preprocessing requests (valid, invalid, caller-held and edited "
                "in place, ret_details, through fit_model) vs the Lean model and vs a fresh curve with only the "
                "stored pipeline applied (column digests); plus ordered pairs of ~14 requests x 2 routes on the "
                "pool curves (second request repeated); non-trivial = distinct history / pair")
    c03.common_setup(ctx, "C06")
    c03.run_histories(ctx, "C06", focus=(6, 2, 1, 0.2, 2), nhist=35 if ctx.tier == "quick" else 800)
    interrupt_oracle(ctx, 1 if ctx.tier == "quick" else 3)
    pair_oracle(ctx, 1 if ctx.tier == "quick" else 3)


def replay(ctx, path):
    run(ctx)
    return ctx.finish()
