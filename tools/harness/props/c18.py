"""C18 – model registry: mutants of a valid model module and register/deregister/load sequences
through the real registry and the Lean model (`Nanite.Model.Registry`), plus the property oracle."""
import inspect
import json
import pathlib
import shutil
import sys
import tempfile
import types
import warnings

import numpy as np

from core import TRUST_COMMON

MODS = ["Nanite.Props.C18", "Nanite.Witness.C18", "Nanite.Audit.C18"]

ATTRS = ["get_parameter_defaults", "model_doc", "model_func", "model_key", "model_name",
         "parameter_keys", "parameter_names", "parameter_units", "valid_axes_x", "valid_axes_y",
         "compute_ancillaries", "parameter_anc_keys", "parameter_anc_names", "parameter_anc_units",
         "residual", "model"]


def base_module(key, anc=False):
    """a fresh valid module object (copy of the shipped paraboloid model)"""
    from nanite.model import model_hertz_paraboloidal as src
    m = types.ModuleType("verif_" + key)
    for a in ["get_parameter_defaults", "model_doc", "model_func", "model_name",
              "valid_axes_x", "valid_axes_y"]:
        setattr(m, a, getattr(src, a))
    m.model_key = key
    m.parameter_keys = list(src.parameter_keys)
    m.parameter_names = list(src.parameter_names)
    m.parameter_units = list(src.parameter_units)
    if anc:
        m.compute_ancillaries = lambda fd: {"anc1": 1.0}
        m.parameter_anc_keys = ["anc1"]
        m.parameter_anc_names = ["Ancillary one"]
        m.parameter_anc_units = ["Pa"]
    return m


def describe(m):
    """the facts `_module_check` looks at, read off the Python object"""
    d = {"present": [a for a in ATTRS if hasattr(m, a)],
         "model_key": getattr(m, "model_key", ""),
         "keys": list(getattr(m, "parameter_keys", [])),
         "names": list(getattr(m, "parameter_names", [])),
         "units": list(getattr(m, "parameter_units", [])),
         "anc_keys": list(getattr(m, "parameter_anc_keys", [])),
         "anc_units": list(getattr(m, "parameter_anc_units", []))}
    try:
        d["defaults"] = list(m.get_parameter_defaults().keys())
    except Exception:
        d["defaults"] = []
    try:
        d["args"] = list(inspect.signature(m.model_func).parameters.keys())
    except Exception:
        d["args"] = []
    return d


def mutants(rng, n_random):
    """(label, module) – all single-fault mutants of the valid module plus random double faults"""
    import lmfit
    out = [("valid", base_module("mut_valid")), ("valid_anc", base_module("mut_valid_anc", anc=True))]
    for anc in (False, True):
        tag = "anc" if anc else "plain"
        for a in ATTRS:
            m = base_module(f"mut_{tag}_del_{a}", anc)
            if hasattr(m, a) and a != "model_key":
                delattr(m, a)
                out.append((f"{tag}:delete {a}", m))
    m = base_module("mut_nokey")
    del m.model_key
    out.append(("plain:delete model_key", m))
    for lst in ("parameter_keys", "parameter_names", "parameter_units"):
        m = base_module(f"mut_short_{lst}")
        setattr(m, lst, getattr(m, lst)[:-1])
        out.append((f"shorten {lst}", m))
        m = base_module(f"mut_long_{lst}")
        setattr(m, lst, getattr(m, lst) + ["extra"])
        out.append((f"lengthen {lst}", m))
        m = base_module(f"mut_perm_{lst}")
        l = getattr(m, lst)
        setattr(m, lst, [l[1], l[0]] + l[2:])
        out.append((f"swap first two of {lst}", m))
    m = base_module("mut_dupname")
    m.parameter_names = ["SAME", "SAME"] + m.parameter_names[2:]
    out.append(("duplicate name", m))
    m = base_module("mut_space")
    m.parameter_units = ["Pa ", "m", "", "m", "N"]
    out.append(("space in unit", m))
    m = base_module("mut_space_anc", anc=True)
    m.parameter_anc_units = [" Pa"]
    out.append(("space in anc unit", m))

    def defaults_with(order):
        def f():
            from nanite.model import model_hertz_paraboloidal as src
            p0 = src.get_parameter_defaults()
            p = lmfit.Parameters()
            for k in order:
                p.add(k, value=p0[k].value if k in p0 else 1.0)
            return p
        return f
    keys = ["E", "R", "nu", "contact_point", "baseline"]
    for label, order in [("defaults reordered", ["R", "E", "nu", "contact_point", "baseline"]),
                         ("defaults short", keys[:-1]), ("defaults long", keys + ["more"]),
                         ("defaults renamed", ["E", "R", "nu", "cp", "baseline"])]:
        m = base_module("mut_" + label.replace(" ", "_"))
        m.get_parameter_defaults = defaults_with(order)
        out.append((label, m))

    def f_swapped(E, delta, R, nu, contact_point=0, baseline=0):
        return delta

    def f_later_swapped(delta, R, E, nu, contact_point=0, baseline=0):
        # (legitimate: only a warning; the wrappers call by keyword)
        return delta
    late = ["E", "R", "contact_point", "nu", "baseline"]
    m = base_module("mut_defaults_reordered_late")
    m.get_parameter_defaults = defaults_with(late)
    out.append(("defaults reordered late", m))
    m = base_module("mut_sig_order_then_defaults_late")
    m.model_func = f_later_swapped
    m.get_parameter_defaults = defaults_with(late)
    out.append(("func args reordered + defaults reordered late", m))
    m = base_module("mut_sig_order_then_keys_late")
    m.model_func = f_later_swapped
    m.parameter_keys = late
    out.append(("func args reordered + parameter_keys reordered late", m))
    m = base_module("mut_sig_order_only")
    m.model_func = f_later_swapped
    out.append(("func args reordered", m))

    def f_short(delta, E, R):
        return delta

    def f_long(delta, E, R, nu, contact_point=0, baseline=0, extra=1):
        return delta
    for label, f in [("func args swapped", f_swapped), ("func args short", f_short),
                     ("func args long", f_long)]:
        m = base_module("mut_" + label.replace(" ", "_"))
        m.model_func = f
        out.append((label, m))
    m = base_module("mut_own_residual")
    m.residual = lambda params, delta, force, weight_cp=5e-7: force
    out.append(("own residual", m))
    m = base_module("mut_own_model")
    m.model = lambda params, delta: delta
    out.append(("own model", m))
    # random double faults
    singles = list(out)
    for i in range(n_random):
        (l1, m1), (l2, m2) = rng.sample(singles[2:], 2)
        m = base_module(f"mut_rand_{i}", anc=hasattr(m1, "compute_ancillaries"))
        for src_m in (m1, m2):
            ref = base_module("ref", anc=hasattr(src_m, "compute_ancillaries"))
            for a in ATTRS:
                if a == "model_key":
                    continue
                if hasattr(ref, a) and not hasattr(src_m, a) and hasattr(m, a):
                    delattr(m, a)
                elif hasattr(src_m, a) and (not hasattr(ref, a) or getattr(src_m, a) is not getattr(ref, a)) \
                        and a not in ("compute_ancillaries",):
                    if isinstance(getattr(src_m, a), list) and hasattr(ref, a) \
                            and getattr(src_m, a) == getattr(ref, a):
                        continue
                    setattr(m, a, getattr(src_m, a))
        out.append((f"double: {l1} + {l2}", m))
    return out


def impl_register(m):
    """register on the real registry; returns canonical outcome string"""
    from nanite import model
    from nanite.model import core
    with warnings.catch_warnings(record=True) as ws:
        warnings.simplefilter("always")
        try:
            model.register_model(m)
            res = "ok"
        except core.ModelError as e:
            return "err " + type(e).__name__
        except BaseException as e:  # noqa
            return "err other:" + type(e).__name__
    wu = any("`parameter_units` should not" in str(w.message) for w in ws)
    wa = any("`parameter_anc_units` should not" in str(w.message) for w in ws)
    wn = sum(1 for w in ws if "same order as in 'parameter_keys'" in str(w.message))
    return f"ok warn_units={str(wu).lower()} warn_anc_units={str(wa).lower()} warn_args={wn}"


SHIPPED = None


def our_keys():
    from nanite import model
    return sorted(k for k in model.models_available if k not in SHIPPED)


def impl_entry(key):
    from nanite import model
    md = model.models_available.get(key)
    if md is None:
        return "none"
    rd = getattr(md.residual, "__name__", "") == "default_residuals_wrapper"
    mdl = getattr(md.model, "__name__", "") == "default_modeling_wrapper"
    return (f"residual_default={str(rd).lower()} model_default={str(mdl).lower()} "
            f"anc=[{', '.join(md.get_anc_parm_keys())}]")


MODEL_FILE = '''import lmfit
import numpy as np
{extra}

def get_parameter_defaults():
    params = lmfit.Parameters()
    params.add("E", value=3e3, min=0)
    params.add("R", value=10e-6, min=0, vary=False)
    params.add("nu", value=.5, min=0, max=0.5, vary=False)
    params.add("contact_point", value=0)
    params.add("baseline", value=0)
    return params


def hertz_paraboloidal(delta, E, R, nu, contact_point=0, baseline=0):
    """doc"""
    aa = 4/3 * E/(1-nu**2)*np.sqrt(R)
    root = contact_point-delta
    pos = root > 0
    bb = np.zeros_like(delta)
    bb[pos] = (root[pos])**(3/2)
    return aa*bb + baseline


model_doc = hertz_paraboloidal.__doc__
model_func = hertz_paraboloidal
model_key = "{key}"
model_name = "file model {key}"
parameter_keys = ["E", "R", "nu", "contact_point", "baseline"]
parameter_names = {names}
parameter_units = ["Pa", "m", "", "m", "N"]
valid_axes_x = ["tip position"]
valid_axes_y = ["force"]
'''

GOOD_NAMES = '["Young\'s Modulus", "Tip Radius", "Poisson\'s Ratio", "Contact Point", "Force Baseline"]'


def run_sequences(ctx, nseq, tdir):
    """random register/deregister/load histories; returns (lines for the driver, impl outputs)"""
    from nanite import model
    from nanite.model import core
    rng = ctx.rng
    lines, impl_out, descr = [], [], []
    uid = [0]
    for s in range(nseq):
        lines.append({"op": "reset"})
        for k in our_keys():
            model.models_available.pop(k)
        impl_out.append("ok")
        descr.append("reset")
        live = []
        for _ in range(rng.randint(2, 7)):
            r = rng.random()
            path0 = list(sys.path)
            dwb0 = sys.dont_write_bytecode
            reg0 = {k: id(v) for k, v in model.models_available.items()}
            if r < 0.35:
                kind = rng.choice(["valid", "valid", "anc", "dup", "short", "nofunc", "samekey"])
                # (a valid module, or a faulty one, may carry the key of a model that is already registered)
                collide = live and (kind == "samekey" or (kind in ("dup", "short", "nofunc") and rng.random() < 0.5))
                key = rng.choice(live) if collide else f"seq{s}_{len(lines)}"
                m = base_module(key, anc=(kind == "anc"))
                if kind == "dup":
                    m.parameter_names = ["X", "X"] + m.parameter_names[2:]
                if kind == "short":
                    m.parameter_units = m.parameter_units[:-1]
                if kind == "nofunc":
                    del m.model_func
                desc_m = describe(m)
                got = impl_register(m)
                lines.append({"op": "register", "desc": desc_m})
                if got.startswith("ok") and key not in live:
                    live.append(key)
                descr.append(f"register {kind} {key}" + (" (key already registered)" if collide else ""))
            elif r < 0.6:
                key = rng.choice(live) if (live and rng.random() < 0.7) else "never_registered"
                try:
                    model.deregister_model(types.SimpleNamespace(model_key=key))
                    got = "ok"
                    live.remove(key)
                except KeyError:
                    got = "err KeyError"
                except BaseException as e:  # noqa
                    got = "err other:" + type(e).__name__
                lines.append({"op": "deregister", "key": key})
                descr.append(f"deregister {key}")
            else:
                uid[0] += 1
                kind = rng.choice(["good", "good", "syntax", "missing", "importerr", "badmodel", "raises"])
                d = tdir / f"d{uid[0]}"
                d.mkdir()
                stem = f"verifmodel_{ctx.seed}_{uid[0]}"
                key = f"file{s}_{uid[0]}"
                f = d / (stem + ".py")
                desc = None
                if kind == "good":
                    f.write_text(MODEL_FILE.format(key=key, names=GOOD_NAMES, extra=""))
                elif kind == "badmodel":
                    f.write_text(MODEL_FILE.format(key=key, names='["A", "A", "B", "C", "D"]', extra=""))
                elif kind == "syntax":
                    f.write_text("def broken(:\n  pass\n")
                elif kind == "importerr":
                    f.write_text(MODEL_FILE.format(key=key, names=GOOD_NAMES,
                                                   extra="import module_that_does_not_exist_verif"))
                elif kind == "raises":
                    f.write_text(MODEL_FILE.format(key=key, names=GOOD_NAMES,
                                                   extra="raise RuntimeError('boom')"))
                onpath = rng.random() < 0.4
                if onpath:
                    sys.path.insert(rng.randint(0, len(sys.path)), str(d))
                    path0 = list(sys.path)
                reg = rng.random() < 0.6
                with warnings.catch_warnings():
                    warnings.simplefilter("ignore")
                    try:
                        md = model.load_model_from_file(f, register=reg)
                        got = "ok warn_units=false warn_anc_units=false warn_args=0"
                        desc = describe(md.module)
                        if reg and key not in live:
                            live.append(key)
                    except core.ModelError as e:
                        got = "err " + type(e).__name__
                        if kind == "badmodel":
                            desc = describe(sys.modules[stem])
                    except BaseException as e:  # noqa
                        got = "err other:" + type(e).__name__
                lines.append({"op": "load", "dir": str(d), "desc": desc, "register": reg})
                descr.append(f"load {kind} onpath={onpath} register={reg}")
                if onpath:
                    # harness cleanup of its own insertion, after the observation below
                    pass
            unchanged = (sys.path == path0 and sys.dont_write_bytecode == dwb0)
            impl_out.append(f"{got} keys=[{', '.join(our_keys())}] path_unchanged={str(unchanged).lower()}")
            if not unchanged:
                ctx.violation("syspath-changed:" + descr[-1].split()[0] + ":" + descr[-1].split()[1],
                              f"{descr[-1]}: sys.path / dont_write_bytecode not left as they were",
                              {"history": descr[-6:], "observed": {"before": path0[-4:],
                                                                   "after": sys.path[-4:]}})
            sys.path[:] = [p for p in sys.path if not p.startswith(str(tdir))]
            sys.dont_write_bytecode = dwb0
            # oracle: every rejection is a model error (KeyError for unknown deregistration)
            if got.startswith("err other"):
                ctx.violation("non-model-error:" + descr[-1].split()[0] + ":" + got,
                              f"{descr[-1]} raised {got[4:]} instead of a model error",
                              {"history": descr[-6:], "observed": got})
            if got.startswith("err") and sorted(live) != our_keys():
                ctx.violation("registry-changed-on-reject", f"{descr[-1]} was rejected but the registry changed",
                              {"history": descr[-6:], "observed": our_keys(), "expected": sorted(live)})
            if got.startswith("err") and reg0 != {k: id(v) for k, v in model.models_available.items()}:
                ctx.violation("registry-changed-on-reject", f"{descr[-1]} was rejected but the registry entries changed",
                              {"history": descr[-6:], "observed": sorted(set(reg0) ^ set(model.models_available))})
            if not got.startswith("err") and sorted(live) != our_keys():
                ctx.violation("registry-keys", f"after {descr[-1]} the registry keys are not as expected",
                              {"history": descr[-6:], "observed": our_keys(), "expected": sorted(live)})
    for k in our_keys():
        model.models_available.pop(k)
    return lines, impl_out, descr


def oracle_file_equals_shipped(ctx, tdir):
    """a model loaded from a copy of a shipped file behaves like the shipped one"""
    from nanite import model
    rng = np.random.default_rng(ctx.seed)
    for mk in ["hertz_para", "hertz_cone", "sneddon_spher_approx"]:
        md0 = model.models_available[mk]
        src = pathlib.Path(inspect.getsourcefile(md0.module)).read_text()
        d = tdir / ("copy_" + mk)
        d.mkdir()
        stem = f"verifcopy_{ctx.seed}_{mk}"
        f = d / (stem + ".py")
        f.write_text(src.replace(f'model_key = "{mk}"', f'model_key = "{mk}_copy"'))
        md = model.load_model_from_file(f, register=True)
        try:
            ok = md.model_key in model.models_available
            p = md.get_parameter_defaults()
            p0 = md0.get_parameter_defaults()
            p["contact_point"].set(value=1e-7)
            p0["contact_point"].set(value=1e-7)
            for _ in range(5):
                x = np.sort(rng.uniform(-2e-6, 2e-6, 50))
                if rng.random() < 0.5:
                    x = x[::-1]
                y = rng.normal(0, 1e-9, 50)
                a, b_ = md.model(p, x), md0.model(p0, x)
                ra, rb = md.residual(p, x, y, 5e-7), md0.residual(p0, x, y, 5e-7)
                ctx.case({"oracle": "file-vs-shipped", "model": mk}, nontrivial=f"fs:{mk}:{_}",
                         bucket="oracle=file-vs-shipped")
                if not (np.array_equal(a, b_) and np.array_equal(ra, rb)):
                    ok = False
            if md.parameter_names != md0.parameter_names or md.parameter_units != md0.parameter_units \
                    or md.get_anc_parm_keys() != md0.get_anc_parm_keys():
                ok = False
            if not ok:
                ctx.violation(f"file-model-differs:{mk}",
                              f"a copy of the shipped {mk} loaded from a file behaves differently",
                              {"input": {"model": mk}})
        finally:
            model.deregister_model(md)


def oracle_anc_keys(ctx):
    """get_anc_parm_keys = common keys + the model's own, for every model, before / during / after a custom model
    with own ancillaries is registered, queried repeatedly and deregistered"""
    from nanite import model
    from nanite.model import core
    common = list(core.ANCILLARY_COMMON.keys())

    def snapshot():
        out = {}
        for k, md in model.models_available.items():
            own = list(getattr(md.module, "parameter_anc_keys", [])) if md.has_module_ancillaries else []
            out[k] = (list(md.get_anc_parm_keys()), common + own)
        return out
    hist = ["snapshot"]
    bad = [(k, a, b_) for k, (a, b_) in snapshot().items() if a != b_]
    m = base_module("anc_keys_model", anc=True)
    with warnings.catch_warnings():
        warnings.simplefilter("ignore")
        md = model.register_model(m)
        try:
            for i in range(3):
                hist.append(f"query {i} with the custom model registered")
                bad += [(k, a, b_) for k, (a, b_) in snapshot().items() if a != b_]
                try:
                    for k in md.get_anc_parm_keys():
                        md.get_parm_name(k), md.get_parm_unit(k)
                except BaseException as e:  # noqa
                    bad.append((m.model_key, f"name/unit lookup raises {e!r}", None))
        finally:
            model.deregister_model(md)
    hist.append("after deregistration")
    bad += [(k, a, b_) for k, (a, b_) in snapshot().items() if a != b_]
    ctx.case({"oracle": "ancillary keys"}, nontrivial="anc-keys", bucket="oracle=ancillary-keys")
    if bad:
        k, a, b_ = bad[0]
        ctx.violation("ancillary-keys-inconsistent", f"get_anc_parm_keys of '{k}' = {a}, expected {b_} (common keys + "
                      "its own) in the history " + " -> ".join(hist), {"history": hist, "observed": a, "expected": b_})


def oracle_ancillaries(ctx):
    """ancillary values whose key matches a fit parameter seed its initial value unless NaN;
    also compared with the Lean `seed`"""
    from nanite import model
    from curves import synth
    idnt = synth(n_app=80, n_ret=40, with_tip=True)
    # (NaN comes in many objects: the numpy constant, a Python float, numpy scalars of either width, a computed one)
    with np.errstate(all="ignore"):
        computed_nan = np.float64(np.inf) - np.float64(np.inf)
    nans = [np.nan, float("nan"), np.float64("nan"), np.float32("nan"), computed_nan]
    cases = [{"E": 1234.0}, {"E": np.nan}, {"baseline": 0.0, "E": 77.0}, {"contact_point": 0.0},
             {"contact_point": 5e-7, "unrelated": 3.0}, {"R": 2e-6, "nu": 0.25}, {},
             {"E": float("nan")}, {"E": np.float64("nan"), "R": np.float32("nan")},
             {"contact_point": computed_nan, "E": np.float64(88.0)}]
    rng = ctx.rng
    for _ in range(6):
        c = {}
        for k in rng.sample(["E", "R", "nu", "contact_point", "baseline", "other"], rng.randint(1, 4)):
            # (values inside the parameter bounds; lmfit clips anything else)
            c[k] = rng.choice([0.0, rng.choice(nans), 0.25, 0.5] if k == "nu" else
                              [0.0, rng.choice(nans), 1.0, 5.0, 250.0])
        cases.append(c)
    lines, expect = [], []
    for n, anc in enumerate(cases):
        m = base_module(f"anc_model_{n}")
        # (the module's function may hand back more than it declares - helper entries, a fit-parameter name - and
        #  in another order: only the declared keys, in declared order, are the model's ancillaries)
        undeclared = {"helper_points": 17.0, "alpha": 3.0} if n % 2 else {}
        if n % 4 == 1 and "R" not in anc:
            undeclared["R"] = 5e-6
        m.compute_ancillaries = (lambda a, u: (lambda fd: {**u, **dict(reversed(list(a.items())))}))(anc, undeclared)
        m.parameter_anc_keys = list(anc.keys())
        m.parameter_anc_names = ["Anc " + k for k in anc]
        m.parameter_anc_units = ["" for k in anc]
        with warnings.catch_warnings():
            warnings.simplefilter("ignore")
            md = model.register_model(m)
            try:
                defaults = m.get_parameter_defaults()
                p = idnt.get_initial_fit_parameters(model_key=m.model_key, common_ancillaries=False)
                got = {k: p[k].value for k in p}
                # the ancillary dictionary: common keys + exactly the declared own keys, in that order
                idnt.fit_properties["model_key"] = m.model_key
                akeys = list(md.compute_ancillaries(idnt).keys())
                want_keys = list(md.get_anc_parm_keys())
                if akeys != want_keys:
                    ctx.violation("ancillary-dict-keys", f"compute_ancillaries returns the keys {akeys}; the model declares "
                                  f"{want_keys} (common keys + its own, in order)",
                                  {"input": {"declared": list(anc.keys()), "module_returns": list(undeclared) +
                                             list(reversed(list(anc.keys())))}, "observed": akeys, "expected": want_keys})
                # names and units: a fit-parameter key keeps the fit parameter's label and unit even when an
                # ancillary of the same key exists; other ancillary keys carry their own
                for kk in list(m.parameter_keys) + list(anc.keys()):
                    if kk in m.parameter_keys:
                        wn = m.parameter_names[m.parameter_keys.index(kk)]
                        wu = m.parameter_units[m.parameter_keys.index(kk)]
                    else:
                        wn, wu = "Anc " + kk, ""
                    gn, gu = md.get_parm_name(kk), md.get_parm_unit(kk)
                    if (gn, gu) != (wn, wu) or (model.get_parm_name(m.model_key, kk), model.get_parm_unit(m.model_key, kk)) \
                            != (wn, wu):
                        ctx.violation(f"parameter-label:{kk}", f"name / unit of '{kk}' are reported as ({gn!r}, {gu!r}), the "
                                      f"model declares ({wn!r}, {wu!r})", {"input": {"key": kk, "ancillary_keys": list(anc.keys())},
                                                                          "observed": [gn, gu], "expected": [wn, wu]})
                        break
            finally:
                model.deregister_model(md)
                idnt.fit_properties.clear()
        for k in defaults:
            exp = anc[k] if (k in anc and not np.isnan(anc[k])) else defaults[k].value
            if got[k] != exp:
                ctx.violation(f"ancillary-seed:{k}={anc.get(k)!r}",
                              f"ancillary {k}={anc.get(k)!r} did not seed the initial parameter "
                              f"(got {got[k]!r}, expected {exp!r})",
                              {"input": {"ancillaries": {a: repr(v) for a, v in anc.items()}},
                               "observed": got[k], "expected": exp})
        ctx.case({"oracle": "ancillary", "anc": {a: repr(v) for a, v in anc.items()}},
                 nontrivial=("anc:" + json.dumps({a: repr(v) for a, v in anc.items()}, sort_keys=True))
                 if anc else None, bucket="oracle=ancillary-seed")
        # model side: integer-coded values (nan -> null); common ancillary max_indent is NaN here
        code = {}

        def enc(v):
            if isinstance(v, float) and np.isnan(v):
                return None
            return code.setdefault(v, len(code) + 1000)
        params = [[k, enc(float(defaults[k].value))] for k in defaults]
        lines.append({"op": "seed", "params": params,
                      "anc": [["max_indent", None]] + [[k, enc(float(v))] for k, v in anc.items()]})
        inv = {v: k for k, v in code.items()}
        expect.append("[" + ", ".join(
            f"({k}, {code[float(got[k])] if float(got[k]) in code else 'X'})" for k in defaults) + "]")
    return lines, expect


_USE_CURVE = []


def usable_oracle(ctx, label, key, m):
    from nanite import model
    import curves
    if not _USE_CURVE:
        c_ = curves.synth(n_app=120, n_ret=60, noise=1e-11, seed=5)
        with warnings.catch_warnings():
            warnings.simplefilter("ignore")
            c_.apply_preprocessing(["compute_tip_position", "correct_tip_offset"])
        _USE_CURVE.append(c_)
    idnt = _USE_CURVE[0]
    bad = []
    with warnings.catch_warnings():
        warnings.simplefilter("ignore")
        try:
            akeys = list(model.get_anc_parm_keys(key))
        except BaseException as e:  # noqa
            akeys = []
            bad.append(f"get_anc_parm_keys raises {type(e).__name__}: {e}")
        for ak in akeys:
            for fn_ in (model.get_parm_name, model.get_parm_unit):
                try:
                    fn_(key, ak)
                except BaseException as e:  # noqa
                    bad.append(f"{fn_.__name__}({ak!r}) raises {type(e).__name__}: {e}")
        try:
            anc = model.compute_anc_parms(idnt, key)
            missing = [ak for ak in akeys if ak not in anc]
            if missing:
                bad.append(f"compute_anc_parms lacks the advertised keys {missing}")
        except BaseException as e:  # noqa
            # (a compute_ancillaries function of the module may fail by itself - that is the module's business;
            # a failure inside the library's own dispatch is not)
            if not hasattr(m, "compute_ancillaries") or type(e).__name__ in ("AttributeError",):
                bad.append(f"compute_anc_parms raises {type(e).__name__}: {e}")
    if bad:
        ctx.violation("accepted-model-unusable:" + label.split(" + ")[0],
                      f"mutant '{label}' was registered, but " + "; ".join(bad[:3]),
                      {"input": {"mutant": label, "desc": describe(m)}, "observed": bad})


def run(ctx):
    global SHIPPED
    ctx.trusted = TRUST_COMMON + [
        "hand-written model lean/Nanite/Model/Registry.lean of _module_check/_module_autocomplete/"
        "register/deregister/load_model_from_file/ancillary seeding (tied by mutant and sequence "
        "correspondence)",
        "tools/py2lean: attribute lists taken from the AST of _module_check; ANCILLARY_COMMON keys",
        "Python's import system (module cache by stem, bytecode) is not modelled"]
    ctx.rule = ("every single-fault mutant of a valid model module (delete each attribute, shorten/"
                "lengthen/permute each list, duplicate name, spaces in units, reorder/short/long/renamed "
                "defaults, model_func argument faults, with/without ancillaries) plus random double faults, "
                "registered on the real registry and described to the Lean model; random register/"
                "deregister/load_model_from_file histories (valid, syntactically broken, missing, failing "
                "import, invalid model; directory already on sys.path or not); non-trivial = distinct "
                "mutant or history step that is not a reset")
    ok_gen = ctx.gen(["modelattrs"])
    ctx.build(MODS, clean=(ctx.tier == "thorough"))
    ctx.grep_audit()
    if ctx.tier == "thorough":
        ctx.leanchecker(["Nanite.Props.C18", "Nanite.Witness.C18"])
    from nanite import model
    from nanite.model import core
    SHIPPED = set(model.models_available)
    tdir = pathlib.Path(tempfile.mkdtemp(prefix="verif_c18_"))
    try:
        # (a) mutants
        muts = mutants(ctx.rng, 40 if ctx.tier == "quick" else 600)
        lines, impl_out, labels = [], [], []
        for label, m in muts:
            before = our_keys()
            desc_m = describe(m)   # before registration (autocomplete adds attributes)
            got = impl_register(m)
            after = our_keys()
            lines.append({"op": "reset"})
            impl_out.append("ok")
            labels.append("reset")
            lines.append({"op": "register", "desc": desc_m})
            key = getattr(m, "model_key", "")
            impl_out.append(got + f" keys=[{key if got.startswith('ok') else ''}] path_unchanged=true")
            labels.append(label)
            ctx.case({"mutant": label, "impl": got}, nontrivial="mut:" + label,
                     bucket=["stream=mutants", "impl=" + got.split(" warn")[0]])
            if got.startswith("err other"):
                ctx.violation(f"non-model-error:register:{label.split(' + ')[0]}",
                              f"registering mutant '{label}' raised {got[4:]} instead of a model error",
                              {"input": {"mutant": label, "desc": describe(m)}, "observed": got})
            # complete and consistent: the keys of get_parameter_defaults are parameter_keys, in order
            try:
                pk = list(getattr(m, "parameter_keys"))
                dk = list(m.get_parameter_defaults().keys())
                inconsistent = pk != dk
            except BaseException:  # noqa
                inconsistent = None
            if inconsistent and got.startswith("ok"):
                ctx.violation("inconsistent-model-accepted", f"mutant '{label}' was registered although its "
                              f"parameter_keys {pk} and the keys of get_parameter_defaults {dk} differ",
                              {"input": {"mutant": label, "parameter_keys": pk, "defaults": dk}, "observed": got})
                model.models_available.pop(getattr(m, "model_key", ""), None)
            if got.startswith("err") and after != before:
                ctx.violation("registry-changed-on-reject", f"mutant '{label}' rejected but registry changed",
                              {"input": {"mutant": label}})
            if got.startswith("ok"):
                lines.append({"op": "entry", "key": key})
                impl_out.append(impl_entry(key))
                labels.append("entry " + label)
                # "accepts only complete, consistent models": what was accepted can be used - the ancillary keys it
                # advertises can be named and computed, the initial parameters obtained
                usable_oracle(ctx, label, key, m)
                model.models_available.pop(key, None)
        # (b) sequences
        l2, o2, d2 = run_sequences(ctx, 60 if ctx.tier == "quick" else 1200, tdir)
        for d in d2:
            if d != "reset":
                ctx.case({"history-step": d}, nontrivial=None, bucket="stream=sequences:" + d.split()[0])
        ctx.nontrivial.update(f"seq:{i}:{d}" for i, d in enumerate(d2) if d != "reset")
        lines += l2
        impl_out += o2
        labels += d2
        # (c) ancillaries
        oracle_anc_keys(ctx)
        l3, o3 = oracle_ancillaries(ctx)
        lines += l3
        impl_out += o3
        labels += ["seed"] * len(l3)
        out = ctx.driver("C18", lines) if ok_gen else None
        if out is not None:
            for lab, a, b_, ln in zip(labels, impl_out, out, lines):
                if a != b_:
                    ctx.disagree({"step": lab, "line": ln if len(json.dumps(ln)) < 600 else lab}, a, b_)
        oracle_file_equals_shipped(ctx, tdir)
        # failing import: documented error and import path as it was
        path0 = list(sys.path)
        for name, content in [("missing", None), ("syntax", "def x(:\n"), ("raises", "raise ValueError(1)\n")]:
            f = tdir / f"verif_bad_{ctx.seed}_{name}.py"
            if content is not None:
                f.write_text(content)
            try:
                model.load_model_from_file(f)
                got = "ok"
            except core.ModelImportError:
                got = "ModelImportError"
            except BaseException as e:  # noqa
                got = type(e).__name__
            ctx.case({"oracle": "import-error", "file": name}, nontrivial="imp:" + name,
                     bucket="oracle=import-error")
            if got != "ModelImportError" or sys.path != path0:
                ctx.violation(f"import-error:{name}:{got}",
                              f"loading a {name} model file gave {got} (expected ModelImportError) or "
                              "changed sys.path", {"input": {"file": name}, "observed": got})
    finally:
        for k in our_keys():
            model.models_available.pop(k)
        sys.path[:] = [p for p in sys.path if not p.startswith(str(tdir))]
        shutil.rmtree(tdir, ignore_errors=True)


def replay(ctx, path):
    run(ctx)
    return ctx.finish()
