"""C17 – rating features: theorems about lean/Nanite/Model/Features.lean (scale independence for every
homogeneous filter, ranges, name ordering), tied to nanite.rate.features by running the real feature code
in-process on integer-valued stub datasets and the Lean model at exact rationals on the same arrays (with
scipy's Gaussian weights handed over as data), plus the property oracle on fitted synthetic and recorded
curves, force scale factors, retract perturbations and unfitted / unsuccessful states."""
import hashlib
import itertools
import json
import math
import random
import pathlib
import warnings

import numpy as np

from core import TRUST_COMMON
import fitlib
from fitlib import q, qf

MODS = ["Nanite.Props.C17", "Nanite.Audit.C17"]
FRACTION = ["feat_con_apr_flatness", "feat_con_apr_size"]
SIGNED = ["feat_con_cp_curvature"]
FIT_FREE = ["feat_bin_size"]
WRAP = {
    "feat_con_apr_sum": lambda v: math.log(1 + v),
    "feat_con_bln_slope": lambda v: math.log(1 + abs(v)) / 10,
    "feat_con_bln_variation": lambda v: math.log(1 + v) / 5,
    "feat_con_cp_curvature": lambda v: math.log(1 + abs(v)) * (1 if v > 0 else -1 if v < 0 else 0) / 4,
    "feat_con_cp_magnitude": lambda v: v,
    "feat_con_idt_monotony": lambda v: math.log(1 + v) / 10,
    "feat_con_idt_sum": lambda v: math.log(1 + v) * 5,
    "feat_con_idt_sum_75perc": lambda v: math.log(1 + v) / 8,
    "feat_con_idt_spike_area": lambda v: math.log(1 + v) * 20,
    "feat_con_idt_maxima_75perc": lambda v: math.log(1 + v) * 2,
    "feat_con_apr_flatness": lambda v: v,
    "feat_con_apr_size": lambda v: v,
}
MODELLED = sorted(list(WRAP) + ["feat_bin_cp_position", "feat_bin_size", "feat_bin_apr_spikes_count"])


def gauss_weights(sigma):
    """scipy.ndimage.gaussian_filter1d kernel (truncate=4.0, order 0)"""
    r = int(4.0 * sigma + 0.5)
    x = np.arange(-r, r + 1)
    phi = np.exp(-0.5 / (sigma * sigma) * x ** 2)
    return phi / phi.sum()


class Param:
    def __init__(self, v):
        self.value = v


class Stub:
    """the attributes IndentationFeatures reads from a dataset"""

    def __init__(self, x, y, fit, seg, cp, success=True):
        self.cols = {"tip position": np.asarray(x, dtype=float), "force": np.asarray(y, dtype=float),
                     "fit": np.asarray(fit, dtype=float), "segment": np.asarray(seg)}
        self.fit_properties = {"success": success, "params_fitted": {"contact_point": Param(cp)},
                               "x_axis": "tip position", "y_axis": "force"}
        self.metadata = {}

    def __getitem__(self, k):
        return self.cols[k]

    def __contains__(self, k):
        return k in self.cols


def stub_case(rng, force_kind=None, n_override=None):
    """integer-valued approach segment (x decreasing), a model-like force, a 'fit' that deviates from it
    by trends, bumps and spikes; a retract segment of junk"""
    n = rng.choice([30, 60, 90, 140, 220])
    if n_override:
        n = n_override
    x = np.arange(n, 0, -1, dtype=float) * rng.choice([1, 3]) - rng.choice([0, 7, 40])
    cp_i = int(n * rng.uniform(0.15, 0.85))
    if rng.random() < 0.25:
        # contact point next to either end of the segment (degenerate index arithmetic of the 75 % features)
        cp_i = rng.choice([0, 1, 2, n - 1, n - 2, n - 3, n - 4, n - 6])
    hover = rng.random() < 0.3
    if hover:
        # a rigid substrate: the tip position saturates at the surface and hovers there (not monotonic any more)
        # while the force keeps rising; the contact point lies at that level, after the deepest sample
        k_ = rng.randint(4, max(5, n // 6))
        # (deflection noise of very different size - but the approach still ends below where it started)
        sc_ = rng.choice([s_ for s_ in (1.0, 20.0, 400.0, 8000.0) if 2.0 * s_ < (x[0] - x[-k_ - 1])] or [1.0])
        x[-k_:] = x[-k_ - 1] - sc_ + sc_ * np.array([rng.choice([0.0, 0.5, 1.0, 1.5]) for _ in range(k_)])
        x[-k_] = x[-k_ - 1] - 2.0 * sc_               # the deepest sample comes first
        cp_i = n - 1 - rng.randint(0, max(0, k_ - 3))
    cp = float(x[cp_i]) + rng.choice([0.0, 0.5, -0.5])
    d = np.clip(cp - x, 0, None)
    amp = rng.choice([200.0, 4000.0])
    fit = np.round(amp * (d / max(d.max(), 1)) ** rng.choice([1.0, 1.5, 2.0]))
    noise = np.array([rng.choice([0, 0, 1, -1, 2, -3]) for _ in range(n)], dtype=float)
    y = fit + noise * rng.choice([0, 1, 5])
    kind = rng.choice(["plain", "spikes", "tilt", "bump", "decreasing", "flat", "drop-at-end", "ringing"])
    if force_kind:
        kind = force_kind
    if kind == "ringing":
        # an electronic ringing artefact in the indentation part: one sample dips (or jumps) while its neighbours on
        # both sides overshoot in the other direction
        same_ = rng.random() < 0.5            # neighbours overshoot by the amplitude of the dip itself
        if rng.random() < 0.6:
            y = fit.copy()                    # an otherwise perfect fit: the artefact is all there is in the residuals
        a0 = rng.choice([-1, 1]) * rng.choice([30.0, 120.0, 600.0])
        for _ in range(rng.randint(1, 4)):
            c0 = rng.randrange(min(cp_i + 3, n - 3), n - 2) if cp_i + 3 < n - 2 else rng.randrange(2, n - 2)
            y[c0] += a0
            for o_ in (1, 2):
                y[c0 - o_] -= a0 * (1.0 if same_ else rng.choice([0.5, 0.75, 1.0]))
                y[c0 + o_] -= a0 * (1.0 if same_ else rng.choice([0.5, 0.75, 1.0]))
    elif kind == "spikes":
        for _ in range(rng.randint(1, 8)):
            y[rng.randrange(n)] += rng.choice([-1, 1]) * rng.choice([30, 200])
    elif kind == "tilt":
        y = y + np.round(np.arange(n) * rng.choice([0.5, -0.25, 2]))
    elif kind == "bump":
        c0 = rng.randrange(n)
        y = y + np.round(40 * np.exp(-0.5 * ((np.arange(n) - c0) / 6.0) ** 2))
    elif kind == "decreasing":
        y = np.round(amp - amp * np.arange(n) / n) + noise
    elif kind == "drop-at-end":
        # break-through / clipped sample: the approach does not end at its maximal force
        y[-1] = rng.choice([0.0, -5.0, -40.0])
        if rng.random() < 0.5:
            y[-2] = 0.0
    elif kind == "flat":
        # constant positive force (a force that never exceeds zero is outside the property)
        y = np.zeros(n) + 5.0
        if rng.random() < 0.5:
            fit = np.zeros(n)
    nret = rng.choice([0, 10, min(40, n)])
    xs = np.concatenate([x, x[::-1][:nret] + 0.0])
    ys = np.concatenate([y, np.array([rng.choice([0, 1e6, -50]) for _ in range(nret)], dtype=float)])
    fs = np.concatenate([fit, np.full(nret, np.nan)])
    seg = np.concatenate([np.zeros(n), np.ones(nret)]).astype(np.uint8)
    return {"kind": kind + ("+hover" if hover else ""), "n": n, "cp": cp}, Stub(xs, ys, fs, seg, cp), (x, y, fit, cp)


def feature_names():
    from nanite.rate.features import IndentationFeatures
    return IndentationFeatures.get_feature_names()


def fitted_curve(rng, big=False):
    """a fitted synthetic Indentation (shipped model + noise / spikes / tilt)"""
    mk = rng.choice(fitlib.MODELS)
    p = fitlib.truth_params(mk, rng)
    n_app = rng.choice([700, 1200] if big else [120, 300, 650])
    noise = rng.choice([0, 1e-11, 1e-10, 5e-10])
    idnt = fitlib.synth_curve(mk, p, rng, n_app=n_app, n_ret=rng.choice([60, 300]), noise=noise,
                              seed=rng.randrange(1 << 30), tilt=rng.choice([0, 0, 2e-5]))
    kind = rng.choice(["plain", "plain", "spikes", "adhesion"])
    f = np.array(idnt["force"], copy=True)
    if kind == "spikes":
        for _ in range(rng.randint(1, 6)):
            f[rng.randrange(n_app)] += rng.choice([-1, 1]) * rng.uniform(0.05, 0.5) * f.max()
    elif kind == "adhesion":
        seg = np.array(idnt["segment"])
        f[seg == 1] -= 0.3 * f.max() * np.exp(-np.linspace(0, 6, int(np.sum(seg == 1))))
    idnt._raw_data["force"] = f
    idnt.reset_data()
    meta = {"model": mk, "n_app": n_app, "noise": noise, "kind": kind,
            "fit_segment": rng.choice([0, 0, 0, "approach", 1, "retract"])}
    with warnings.catch_warnings():
        warnings.simplefilter("ignore")
        idnt.fit_model(model_key=mk, params_initial=None, preprocessing=["compute_tip_position", "correct_tip_offset"],
                       range_x=rng.choice([(0, 0), (0, 0), (-1e-6, 5e-7)]), range_type="absolute",
                       segment=meta["fit_segment"])
    return idnt, meta


def snapshot(idnt):
    import histlib
    return {c: histlib.digest(idnt[c]) for c in idnt.columns}, \
        {k: repr(v)[:200] for k, v in idnt.fit_properties.items() if k not in ("params_initial", "params_fitted")}, \
        [(n, p.value) for n, p in idnt.fit_properties.get("params_fitted", {}).items()] \
        if "params_fitted" in idnt.fit_properties else None


def features(idnt, **kw):
    from nanite.rate.features import IndentationFeatures
    with warnings.catch_warnings():
        warnings.simplefilter("ignore")
        with np.errstate(all="ignore"):
            return IndentationFeatures.compute_features(idnt, ret_names=True, **kw)


def same(a, b_, exact):
    if np.isnan(a) and np.isnan(b_):
        return True
    if exact:
        return a == b_
    return math.isclose(a, b_, rel_tol=1e-7, abs_tol=1e-9)


def judge_values(ctx, meta, names, vals, ymax_pos, rep):
    for n, v in zip(names, vals):
        if np.isinf(v):
            ctx.violation(f"not-finite:{n}", f"{n} = {v!r} (neither NaN nor finite)", rep)
        if np.isnan(v):
            continue
        if n.startswith("feat_bin_") and v not in (0.0, 1.0):
            ctx.violation(f"binary-not-0-1:{n}", f"{n} = {v!r}", rep)
        if n in FRACTION and not (0.0 <= v <= 1.0):
            ctx.violation(f"fraction-out-of-range:{n}", f"{n} = {v!r} is not in [0, 1]", rep)
        if n.startswith("feat_con_") and n not in FRACTION + SIGNED and ymax_pos and v < 0:
            ctx.violation(f"magnitude-negative:{n}", f"{n} = {v!r} < 0 although the approach force reaches positive "
                          "values", rep)


def oracle_curve(ctx, idnt, meta):
    from nanite.rate.features import IndentationFeatures
    rng = ctx.rng
    allnames = feature_names()
    rep = {"input": {"curve": meta}}
    before = snapshot(idnt)
    try:
        vals, names = features(idnt)
    except BaseException as e:  # noqa
        ctx.violation(f"raises:{type(e).__name__}", f"compute_features raises {type(e).__name__}: {str(e)[:120]} on a "
                      f"curve with fit success={idnt.fit_properties.get('success')}", rep)
        return
    if snapshot(idnt) != before:
        ctx.violation("curve-modified", "compute_features changed the curve (columns or fit properties)", rep)
    if list(names) != sorted(allnames):
        ctx.violation("names-not-sorted", f"default feature order {list(names)} is not the sorted list of names", rep)
    seg0 = np.array(idnt["segment"]) == 0
    ymax_pos = bool(np.max(np.array(idnt["force"])[seg0]) > 0)
    fitted = bool(idnt.fit_properties.get("success", False))
    ctx.case({**meta, "fitted": fitted}, nontrivial=json.dumps(meta, sort_keys=True, default=str),
             bucket=["curve=" + meta.get("kind", "?"), "fitted=" + str(fitted)])
    judge_values(ctx, meta, names, vals, ymax_pos, rep)
    # the size feature is a property of the approach segment alone, whatever segment was fitted
    napr = int(np.sum(seg0))
    vs = dict(zip(names, vals)).get("feat_bin_size")
    if vs is not None and not np.isnan(vs) and bool(vs) != (napr >= 600):
        ctx.violation("size-feature-not-from-approach-segment", f"feat_bin_size = {vs!r} for an approach segment of "
                      f"{napr} points (fitted segment: {idnt.fit_properties.get('segment')})", rep)
    if not fitted:
        for n, v in zip(names, vals):
            if n not in FIT_FREE and not np.isnan(v):
                ctx.violation(f"unfitted-not-nan:{n}", f"{n} = {v!r} although there is no successful fit "
                              f"(state: {meta.get('state', meta.get('kind'))})", rep)
        return
    # subsets / orders
    sub = rng.sample(allnames, rng.randint(1, len(allnames)))
    for wt in ("all", "binary", "continuous", ["continuous", "binary"], ["binary", "continuous"], ["continuous"]):
        try:
            v2, n2 = features(idnt, which_type=wt, names=list(sub))
        except BaseException as e:  # noqa
            ctx.violation(f"subset-raises:{type(e).__name__}", f"compute_features(which_type={wt}, names=subset) "
                          f"raises {e!r}", rep)
            continue
        types = [wt] if isinstance(wt, str) else wt
        pref = {"all": "feat_", "binary": "feat_bin_", "continuous": "feat_con_"}
        want = sorted(n for n in sub if any(n.startswith(pref[t]) for t in types))
        rep2 = {"input": {"curve": meta, "which_type": wt, "names": sub}, "expected": want, "observed": list(n2)}
        if wt == "all":
            if list(n2) != want and list(n2) == list(sub):
                ctx.violation("order-all-with-names", "compute_features(which_type='all', names=<unsorted list>) "
                              "returns the features in the order of the list, not sorted", rep2)
            elif list(n2) != want:
                ctx.violation("subset-names-wrong:all", f"which_type='all': names {list(n2)} != {want}", rep2)
        elif list(n2) != want:
            ctx.violation(f"subset-names-not-sorted:{wt}", f"compute_features(which_type={wt}, names=subset) returns "
                          f"{list(n2)}, expected the sorted requested names {want}", rep2)
        full = dict(zip(names, vals))
        for n, v in zip(n2, v2):
            if not same(v, full[n], exact=True):
                ctx.violation(f"subset-value-differs:{n}", f"{n} = {v!r} in a subset request but {full[n]!r} in the "
                              "full request", rep2)
    # scale factors (force and fit in place) and retract perturbation
    force0 = np.array(idnt["force"], copy=True)
    fit0 = np.array(idnt["fit"], copy=True)
    for a in (2.0 ** rng.randint(-30, 30), rng.choice([1e9, 1e-3, 3.7, rng.uniform(0.1, 50)])):
        idnt["force"] = force0 * a
        idnt["fit"] = fit0 * a
        v3, n3 = features(idnt)
        exact = math.log2(a).is_integer()
        for n, v, w in zip(names, vals, v3):
            if not same(v, w, exact):
                ctx.violation(f"not-scale-independent:{n}", f"{n} = {v!r} becomes {w!r} when force and fit are "
                              f"multiplied by {a!r}", {"input": {"curve": meta, "factor": a}, "expected": float(v),
                                                       "observed": float(w)})
    idnt["force"] = force0
    idnt["fit"] = fit0
    seg = np.array(idnt["segment"])
    if np.any(seg == 1):
        f2, t2 = force0.copy(), np.array(idnt["tip position"], copy=True)
        tip0 = t2.copy()
        f2[seg == 1] = f2[seg == 1] * 0.3 - 1e-9
        t2[seg == 1] = t2[seg == 1] + 3e-7
        fitr = fit0.copy()
        fitr[seg == 1] = 0.0
        idnt["force"], idnt["tip position"], idnt["fit"] = f2, t2, fitr
        v4, _ = features(idnt)
        for n, v, w in zip(names, vals, v4):
            if not same(v, w, exact=True):
                ctx.violation(f"depends-on-retract:{n}", f"{n} = {v!r} becomes {w!r} when only the retract segment is "
                              "changed", {"input": {"curve": meta}, "expected": float(v), "observed": float(w)})
        idnt["force"], idnt["tip position"], idnt["fit"] = force0, tip0, fit0
    # "features depend only on the approach segment, its fit and the fitted contact point" - on their CURRENT
    # values: after an in-place change of the approach force, compute_features equals the feature methods
    # evaluated now (and differs from the values before, for the features that read the force)
    from nanite.rate.features import IndentationFeatures
    app = np.where(seg == 0)[0]
    if app.size > 20:
        f5 = force0.copy()
        c0 = app[int(0.7 * app.size)]
        f5[app] = f5[app] + 0.25 * float(np.nanmax(np.abs(force0))) * np.exp(-0.5 * ((app - c0) / (0.05 * app.size)) ** 2)
        idnt["force"] = f5
        v5, n5 = features(idnt)
        inst = IndentationFeatures(idnt)
        with warnings.catch_warnings(), np.errstate(all="ignore"):
            warnings.simplefilter("ignore")
            direct = [float(getattr(inst, n)()) for n in n5]
        for n, v, w in zip(n5, v5, direct):
            if not same(v, w, exact=True):
                ctx.violation(f"stale-after-data-change:{n}", f"after an in-place change of the approach force "
                              f"compute_features returns {n} = {v!r}, the feature evaluated on the current data is {w!r}",
                              {"input": {"curve": meta, "edit": "gaussian bump of 25 % F_max added to the approach force"},
                               "expected": float(w), "observed": float(v)})
                break
        idnt["force"] = force0


def unfitted_states(ctx):
    """every unfitted / unsuccessful state: fit-dependent features NaN, no exception"""
    rng = ctx.rng
    mk = "hertz_para"
    p = fitlib.truth_params(mk, rng)
    states = []
    idnt = fitlib.synth_curve(mk, p, rng, n_app=200, n_ret=80, noise=1e-11)
    states.append(("fresh", idnt))
    idnt = fitlib.synth_curve(mk, p, rng, n_app=200, n_ret=80, noise=1e-11)
    idnt.apply_preprocessing(["compute_tip_position", "correct_tip_offset"])
    states.append(("preprocessed-only", idnt))
    for name, kw in (("too-few-points", {"range_x": (1e-3, 2e-3), "range_type": "absolute"}),
                     ("narrow-relative-cp", {"range_x": (-4e-9, 0), "range_type": "relative cp"}),
                     ("narrow-absolute", {"range_x": (-1e-12, 1e-12), "range_type": "absolute"})):
        idnt = fitlib.synth_curve(mk, p, rng, n_app=200, n_ret=80, noise=1e-11)
        with warnings.catch_warnings():
            warnings.simplefilter("ignore")
            try:
                idnt.fit_model(model_key=mk, preprocessing=["compute_tip_position", "correct_tip_offset"], **kw)
            except BaseException:  # noqa
                pass
        if not idnt.fit_properties.get("success", False):
            states.append((name, idnt))
    # a successful fit followed by an unsuccessful one
    idnt = fitlib.synth_curve(mk, p, rng, n_app=200, n_ret=80, noise=1e-11)
    with warnings.catch_warnings():
        warnings.simplefilter("ignore")
        idnt.fit_model(model_key=mk, preprocessing=["compute_tip_position", "correct_tip_offset"])
        try:
            idnt.fit_model(range_x=(1e-3, 2e-3), range_type="absolute")
        except BaseException:  # noqa
            pass
    if not idnt.fit_properties.get("success", False):
        states.append(("success-then-failure", idnt))
    for name, idnt in states:
        oracle_curve(ctx, idnt, {"kind": "unfitted", "state": name})


def names_tie(ctx):
    """get_feature_names / compute_features order vs the Lean model, all which_type forms x name subsets"""
    from nanite.rate.features import IndentationFeatures
    import inspect
    rng = ctx.rng
    members = [m[0] for m in inspect.getmembers(IndentationFeatures, lambda a: inspect.isroutine(a))]
    allnames = IndentationFeatures.get_feature_names()
    types = ["all", "binary", "continuous"]
    forms = list(types) + [list(t) for k in (1, 2, 3) for t in itertools.permutations(types, k)] + \
        [["binary", "binary"], ["continuous", "all"]]
    lines, expect = [], []
    for wt in forms:
        subsets = [None, [], list(allnames)] + [rng.sample(allnames, rng.randint(1, 6)) for _ in range(3)] + \
            [[allnames[0], "feat_con_does_not_exist"]]
        for names in subsets:
            try:
                r = IndentationFeatures.get_feature_names(which_type=wt, names=names)
                got = ",".join(r)
            except ValueError:
                got = "ValueError"
            which = [wt] if isinstance(wt, str) else wt
            lines.append({"op": "names", "members": members, "which": which, "names": names, "is_all": wt == "all"})
            expect.append(({"which_type": wt, "names": names}, got))
            if got != "ValueError":
                if r != sorted(r):
                    ctx.violation("get_feature_names-not-sorted", f"get_feature_names(which_type={wt}, names={names}) "
                                  f"= {r} is not sorted", {"input": {"which_type": wt, "names": names}})
                rr, idx = IndentationFeatures.get_feature_names(which_type=wt, names=names, ret_indices=True)
                if len(set(rr)) == len(rr) and [allnames[i] for i in idx] != rr:
                    ctx.violation("indices-do-not-match-names", f"get_feature_names(which_type={wt}, names={names}, "
                                  f"ret_indices=True): indices {list(idx)} do not correspond to {rr}",
                                  {"input": {"which_type": wt, "names": names}})
                # the returned list belongs to the caller: editing it must not change what the next caller gets
                keep = list(r)
                r.reverse()
                r.append("feat_edited_by_caller")
                again = IndentationFeatures.get_feature_names(which_type=wt, names=names)
                if list(again) != keep:
                    ctx.violation("names-follow-caller-edit", f"get_feature_names(which_type={wt}, names={names}) "
                                  f"returns {list(again)} after the caller edited the list returned by the previous "
                                  f"call in place (first call: {keep})",
                                  {"input": {"which_type": wt, "names": names, "edit": "reverse + append"}})
                    del again[:]
                    again.extend(keep)
    out = ctx.driver("C17", lines)
    if out is not None:
        for (case, got), o in zip(expect, out):
            ctx.case({"tie": "names", **case}, nontrivial="names:" + json.dumps(case), bucket="tie=names")
            if got != o:
                ctx.disagree(case, got, o, "get_feature_names: implementation and Lean model differ")


def values_tie(ctx, count):
    from nanite.rate.features import IndentationFeatures
    rng = ctx.rng
    ws = {s: gauss_weights(s) for s in (1, 2, 5, 11)}
    lines, expect = [], []
    g_dir = random.Random(ctx.seed * 4099 + 3)
    for i in range(count + 6):
        if i < count:
            meta, stub, (x, y, fit, cp) = stub_case(rng)
        else:
            # directed: long, otherwise clean datasets with a ringing artefact (the spike features only respond once
            # the artefact stands out of the residual scatter of several hundred samples)
            meta, stub, (x, y, fit, cp) = stub_case(g_dir, force_kind="ringing", n_override=g_dir.choice([450, 700]))
        inst = IndentationFeatures(stub)
        base = {"op": "feat", "x": [q(v) for v in x], "y": [q(v) for v in y], "fit": [q(v) for v in fit], "cp": q(cp),
                **{f"w{s}": [q(v) for v in w] for s, w in ws.items()}}
        # the public entry point returns, for every dataset, what the feature methods give for THAT dataset
        with warnings.catch_warnings(), np.errstate(all="ignore"):
            warnings.simplefilter("ignore")
            try:
                cv, cn = IndentationFeatures.compute_features(stub, ret_names=True)
                dv = [float(getattr(inst, n_)()) for n_ in cn]
                bad_ = [(n_, a_, b_) for n_, a_, b_ in zip(cn, cv, dv) if not same(a_, b_, exact=True)]
            except BaseException:  # noqa   (reported by the per-feature loop below)
                bad_ = []
        if bad_:
            ctx.violation(f"compute_features-not-feature-method:{bad_[0][0]}", f"compute_features returns "
                          f"{bad_[0][0]} = {bad_[0][1]!r} but the feature evaluated on this dataset is {bad_[0][2]!r} "
                          f"(dataset #{i} of the run)", {"input": {**meta, "x": [float(t) for t in x],
                                                                   "y": [float(t) for t in y], "fit": [float(t) for t in fit],
                                                                   "dataset_number": i}})
        # "features depend only on the approach segment, its fit and the fitted contact point": twins of the dataset
        # that differ in something else - the geometrical correction factor the fit was made with, or the name of
        # the abscissa column (with an unrelated 'tip position' column next to it) - have the same features
        twins = []
        t1 = Stub(stub.cols["tip position"], stub.cols["force"], stub.cols["fit"], stub.cols["segment"], cp)
        t1.fit_properties["gcf_k"] = rng.choice([0.5, 0.3183098861837907, 2.0])
        twins.append(("gcf_k=%r" % t1.fit_properties["gcf_k"], t1))
        t2 = Stub(stub.cols["tip position"] * 3.0 + 1.0, stub.cols["force"], stub.cols["fit"], stub.cols["segment"], cp)
        t2.cols["height (measured)"] = stub.cols["tip position"]
        t2.fit_properties["x_axis"] = "height (measured)"
        twins.append(("x_axis='height (measured)' (+ unrelated tip position column)", t2))
        # ... or in the retract segment: a long retract ramp that reaches beyond both ends of the approach (the
        # contact point may lie outside the approach range but inside that of the retract)
        nret_ = 25
        span_ = float(np.ptp(x)) or 1.0
        xr_ = np.linspace(float(np.min(x)) - 0.5 * span_ - 3.0, float(np.max(x)) + 0.5 * span_ + 3.0, nret_)
        t3 = Stub(np.concatenate([x, xr_]), np.concatenate([y, np.linspace(float(np.max(y)), -20.0, nret_)]),
                  np.concatenate([fit, np.full(nret_, np.nan)]),
                  np.concatenate([np.zeros(len(x)), np.ones(nret_)]).astype(np.uint8), cp)
        twins.append(("a retract segment that reaches beyond both ends of the approach", t3))
        with warnings.catch_warnings(), np.errstate(all="ignore"):
            warnings.simplefilter("ignore")
            try:
                base_v, base_n = IndentationFeatures.compute_features(stub, ret_names=True)
            except BaseException:  # noqa
                base_v = None
            for tlabel, tw in (twins if base_v is not None else []):
                try:
                    tv, tn = IndentationFeatures.compute_features(tw, ret_names=True)
                    diff = [(n_, a_, b_) for n_, a_, b_ in zip(base_n, base_v, tv) if not same(a_, b_, exact=True)]
                except BaseException as e:  # noqa
                    diff = [("raises", repr(e), "")]
                if diff:
                    ctx.violation(f"depends-on-other-setting:{diff[0][0]}", f"the same approach segment, fit and contact "
                                  f"point with {tlabel}: {diff[0][0]} = {diff[0][2]!r} instead of {diff[0][1]!r}",
                                  {"input": {**meta, "twin": tlabel, "x": [float(t) for t in x], "y": [float(t) for t in y],
                                             "fit": [float(t) for t in fit]}})
            # the retract twin once more with the fitted contact point just outside the approach range (above its
            # first or below its last sample): against the same data without that retract ramp
            for cp_out in (float(np.max(x)) + 1.0, float(np.min(x)) - 1.0):
                pair = []
                for cols in (stub.cols, t3.cols):
                    st_ = Stub(cols["tip position"], cols["force"], cols["fit"], cols["segment"], cp_out)
                    try:
                        pair.append(IndentationFeatures.compute_features(st_, ret_names=True))
                    except BaseException as e:  # noqa
                        pair.append(repr(e))
                if isinstance(pair[0], str) or isinstance(pair[1], str):
                    diff = [] if isinstance(pair[0], str) and isinstance(pair[1], str) else \
                        [("raises", str(pair[0])[:80], str(pair[1])[:80])]
                else:
                    diff = [(n_, a_, b_) for n_, a_, b_ in zip(pair[0][1], pair[0][0], pair[1][0])
                            if not same(a_, b_, exact=True)]
                if diff:
                    ctx.violation(f"depends-on-retract:{diff[0][0]}", "the same approach segment and fit, contact point "
                                  f"{cp_out!r} outside the approach range, with and without a retract segment that covers it: "
                                  f"{diff[0][0]} = {diff[0][2]!r} instead of {diff[0][1]!r}",
                                  {"input": {**meta, "cp": cp_out, "x": [float(t) for t in x], "y": [float(t) for t in y],
                                             "fit": [float(t) for t in fit]}})
        # the same dataset in SI-like magnitudes (metres, newtons): the value clauses of the property once more, on the
        # public entry point (the integer-valued original keeps the model tie exact but saturates the logarithms)
        si = Stub(stub.cols["tip position"] * 1e-8, stub.cols["force"] * 1e-11, stub.cols["fit"] * 1e-11,
                  stub.cols["segment"], cp * 1e-8)
        with warnings.catch_warnings(), np.errstate(all="ignore"):
            warnings.simplefilter("ignore")
            try:
                sv, sn = IndentationFeatures.compute_features(si, ret_names=True)
            except BaseException:  # noqa
                sv = None
        if sv is not None and not meta["kind"].startswith("flat") and float(np.max(y)) > 0:
            judge_values(ctx, meta, list(sn), [float(v_) for v_ in sv], True,
                         {"input": {**meta, "scaled": "x * 1e-8, force and fit * 1e-11", "x": [float(t) for t in x],
                                    "y": [float(t) for t in y], "fit": [float(t) for t in fit]}})
        for name in MODELLED:
            with warnings.catch_warnings(), np.errstate(all="ignore"):
                warnings.simplefilter("ignore")
                try:
                    v = float(getattr(inst, name)())
                except BaseException as e:  # noqa
                    v = "exc:" + type(e).__name__
            lines.append({**base, "name": name})
            expect.append(({**meta, "feature": name, "x": [float(t) for t in x], "y": [float(t) for t in y],
                            "fit": [float(t) for t in fit]}, name, v))
    out = ctx.driver("C17", lines)
    if out is None:
        return
    for (case, name, v), o in zip(expect, out):
        ctx.case({"tie": name, "kind": case["kind"], "n": case["n"]},
                 nontrivial=hashlib.sha1(json.dumps(case, sort_keys=True).encode()).hexdigest(), bucket="tie=" + name)
        if isinstance(v, str):
            ctx.violation(f"feature-raises:{name}", f"{name} raises {v} on a fitted curve ({case['kind']}, "
                          f"{case['n']} points)", {"input": case})
            continue
        # the property's value clauses on this dataset (the approach force reaches positive values)
        if not case["kind"].startswith("flat") and max(case["y"]) > 0:
            judge_values(ctx, case, [name], [v], True, {"input": case})
        if o == "nan":
            # the model's NaN also stands for a division by zero (inf) - flagged by the oracle below
            if not (np.isnan(v) or np.isinf(v)):
                ctx.disagree(case, v, o, f"{name}: model gives NaN")
            # (an exactly constant force is degenerate input: only the tie is checked there)
            # (so is a force that never exceeds zero - e.g. a drop-at-end dataset whose only positive samples were
            # the ones zeroed: division by a maximal force of zero, outside the property like the constant force)
            if np.isinf(v) and not case["kind"].startswith("flat") and max(case["y"]) > 0:
                ctx.violation(f"not-finite:{name}", f"{name} = {v!r} on a fitted curve ({case['kind']})",
                              {"input": case})
            continue
        core = qf(o)
        try:
            want = WRAP[name](core) if name in WRAP else core
        except ValueError:
            want = float("nan")
        if np.isnan(v) or not math.isclose(v, want, rel_tol=1e-8, abs_tol=1e-10):
            ctx.disagree(case, v, want, f"{name}: implementation and Lean model (core {core!r}) differ")
            search_failing_input(ctx, name, case["kind"])


SEARCHED = set()


def search_failing_input(ctx, name, kind, budget=1500):
    """the tie with the Lean model broke for feature `name` on a dataset of this kind: look for a dataset of the same
    kind on which the PROPERTY fails on the implementation (value clauses; own random stream)"""
    from nanite.rate.features import IndentationFeatures
    if (name, kind) in SEARCHED:
        return
    SEARCHED.add((name, kind))
    g = random.Random(ctx.seed * 7717 + len(SEARCHED))
    tried = 0
    for _ in range(budget * 8):
        if kind.startswith("ringing"):
            meta, stub, (x, y, fit, cp) = stub_case(g, force_kind="ringing", n_override=g.choice([220, 450, 700]))
        else:
            meta, stub, (x, y, fit, cp) = stub_case(g)
        if meta["kind"] != kind:
            continue
        tried += 1
        if tried > budget:
            break
        if meta["kind"].startswith("flat") or float(np.max(y)) <= 0:
            continue
        with warnings.catch_warnings(), np.errstate(all="ignore"):
            warnings.simplefilter("ignore")
            try:
                v = float(getattr(IndentationFeatures(stub), name)())
            except BaseException:  # noqa
                continue
        before = len(ctx.violations) if hasattr(ctx, "violations") else None
        judge_values(ctx, meta, [name], [v], True,
                     {"input": {**meta, "x": [float(t) for t in x], "y": [float(t) for t in y],
                                "fit": [float(t) for t in fit], "feature": name, "found_by": "search after a broken tie"}})
        if before is not None and len(ctx.violations) > before:
            break
    ctx.dist[f"search-after-broken-tie:{name}:{kind}"] = tried


def run(ctx):
    ctx.trusted = TRUST_COMMON + [
        "hand-written model lean/Nanite/Model/Features.lean of all 15 features on an approach segment without NaN in the fit, and of get_feature_names / compute_features "
        "ordering; tied on every run by calling the real feature methods in-process on integer-valued stub datasets "
        "and the model at exact rationals on the same arrays",
        "library routines are parameters of the theorems: scipy.ndimage.gaussian_filter1d is assumed homogeneous "
        "(it is a fixed linear kernel - the driver instantiates it with scipy's own weights), np.std positively "
        "homogeneous and non-negative, np.linalg.lstsq = closed-form least squares, np.log applied outside",
        "binary64 evaluation (exact only for power-of-two factors) is runtime behaviour"]
    ctx.rule = ("fitted synthetic curves (5 shipped models x noise x spikes x adhesion x short / long segments x fit "
                "ranges) and recorded good / bad curves x {full request, random name subsets x 6 which_type forms, "
                "2 force scale factors, retract perturbation}; every unfitted / unsuccessful state; integer-valued stub "
                "datasets (plain, spikes, tilt, bump, decreasing, flat) x 15 features vs the Lean model; all "
                "which_type forms (strings, lists in every order, duplicates) x name subsets vs the Lean model; "
                "non-trivial = distinct (curve / arrays, request)")
    ctx.build(MODS, clean=(ctx.tier == "thorough"))
    ctx.grep_audit()
    if ctx.tier == "thorough":
        ctx.leanchecker(["Nanite.Props.C17"])
    names = feature_names()
    missing = [n for n in MODELLED if n not in names]
    extra = [n for n in names if n not in MODELLED]
    if missing or extra:
        ctx.broken.append({"kind": "model-out-of-date", "missing_in_code": missing, "not_modelled": extra})
    rng = ctx.rng
    for i in range(40 if ctx.tier == "quick" else 400):
        try:
            idnt, meta = fitted_curve(rng, big=(i % 3 == 0))
        except BaseException as e:  # noqa
            ctx.notes.append(f"curve generation failed: {e!r}")
            continue
        oracle_curve(ctx, idnt, meta)
    from nanite import poc
    data = pathlib.Path(poc.__file__).resolve().parents[2] / "tests" / "data"
    import nanite
    files = sorted(data.glob("fmt-jpk-fd_s*.jpk-force"))
    for fpath in (files if ctx.tier == "thorough" else files[:3] + files[-2:]):
        with warnings.catch_warnings():
            warnings.simplefilter("ignore")
            try:
                idnt = nanite.IndentationGroup(fpath)[0]
                idnt.fit_model(model_key="hertz_para", preprocessing=["compute_tip_position", "correct_tip_offset"])
            except BaseException as e:  # noqa
                ctx.notes.append(f"recorded curve {fpath.name}: {e!r}")
                continue
        oracle_curve(ctx, idnt, {"kind": "recorded", "file": fpath.name})
    unfitted_states(ctx)
    names_tie(ctx)
    values_tie(ctx, 40 if ctx.tier == "quick" else 400)


def replay(ctx, path):
    run(ctx)
    return ctx.finish()
