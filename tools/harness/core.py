"""Shared machinery of ./check: regeneration, lake build + axiom audit, Lean driver I/O,
correspondence bookkeeping, known-findings matching, evidence and replay writing.

Run under /venv/bin/python (nanite is an editable install pointing at /repo).
"""
import fcntl
import hashlib
import json
import os
import pathlib
import random
import re
import subprocess
import sys
import time
import traceback

VERIF = pathlib.Path(__file__).resolve().parents[2]
LEAN = VERIF / "lean"
EVID = VERIF / "evidence"
REPLAYS = VERIF / "replays"
CORPUS = VERIF / "corpus"
ALLOWED_AXIOMS = {"propext", "Classical.choice", "Quot.sound"}
FORBIDDEN = re.compile(
    r"\bsorry\b|\badmit\b|^axiom |native_decide|bv_decide|implemented_by|unsafe |maxHeartbeats 0")

sys.path.insert(0, str(VERIF / "tools"))


def canon(obj):
    return json.dumps(obj, sort_keys=True, default=str)


def sha(obj):
    return hashlib.sha256(canon(obj).encode()).hexdigest()[:16]


class Ctx:
    def __init__(self, pid, tier, seed):
        self.pid = pid
        self.tier = tier
        self.seed = seed
        self.rng = random.Random(seed)
        self.t0 = time.time()
        self.broken = []            # proof / tie obligations that no longer check
        self.violations = []        # concrete failing inputs found on the implementation
        self.theorems = {}          # name -> axioms
        self.obligations = 0
        self.discharged = 0
        self.checker_cmds = []
        self.trusted = []
        self.assumptions = []
        self.regenerated = {}
        self.evaluations = 0
        self.nontrivial = set()
        self.samples = []
        self.rule = ""
        self.exhaustive = False
        self.extra = {}
        self.disagreements = 0
        self.dist = {}
        self.notes = []

    # ---------------------------------------------------------------- generation
    def gen(self, which):
        from py2lean import gen
        try:
            info = gen.write_all(which)
            for k in ("files", "sources"):
                self.regenerated.setdefault(k, {}).update(info[k])
            self.regenerated.setdefault("changed", []).extend(info["changed"])
            return True
        except gen.TranslateError as e:
            self.broken.append({"kind": "translator", "detail": str(e)})
            return False
        except Exception as e:  # importing nanite may itself fail after an edit
            self.broken.append({"kind": "translator",
                                "detail": "".join(traceback.format_exception_only(type(e), e))})
            return False

    # ---------------------------------------------------------------- lean
    def _lake(self, args, timeout=3000):
        with open(LEAN / ".lock", "w") as lk:
            fcntl.flock(lk, fcntl.LOCK_EX)
            p = subprocess.run(["lake"] + args, cwd=LEAN, capture_output=True, text=True,
                               timeout=timeout)
        return p.returncode, p.stdout + p.stderr

    def build(self, modules, clean=False):
        """lake build the property's modules, parse `#print axioms`, audit."""
        cmd = "cd lean && lake build " + " ".join(modules)
        self.checker_cmds.append(cmd)
        if clean:
            for m in modules:
                rel = m.replace(".", "/")
                for ext in (".olean", ".ilean", ".trace", ".olean.hash", ".ilean.hash"):
                    f = LEAN / ".lake/build/lib/lean" / (rel + ext)
                    if f.exists():
                        f.unlink()
        try:
            rc, out = self._lake(["build"] + modules)
        except subprocess.TimeoutExpired:
            print("INFRA: lake build timed out")
            sys.exit(2)
        audit_mods = [m for m in modules if ".Audit." in m]
        # a no-op build replays the recorded info messages, so axioms are always present
        thms = {}
        for m in re.finditer(r"'([^']+)' (depends on axioms: \[([^\]]*)\]|does not depend on any axioms)",
                             out):
            name = m.group(1)
            ax = [a.strip() for a in (m.group(3) or "").split(",") if a.strip()]
            thms[name] = ax
        self.theorems.update(thms)
        self.obligations += max(len(thms), self._count_audit_lines(audit_mods))
        if rc != 0:
            errs = re.findall(r"error: (.*?)(?=\n(?:error|warning|info|✖|✔|ℹ|⚠|Some required)|\Z)", out,
                              flags=re.S)
            self.broken.append({"kind": "build", "modules": modules,
                                "detail": [e.strip()[:1500] for e in errs[:6]] or out[-3000:]})
        bad = {n: a for n, a in thms.items() if not set(a) <= ALLOWED_AXIOMS}
        if bad:
            self.broken.append({"kind": "audit", "detail": {"axioms outside the allowed set": bad}})
        if re.search(r"declaration uses `?sorry", out):
            self.broken.append({"kind": "audit", "detail": "a declaration uses sorry"})
        if rc == 0:
            self.discharged += len([n for n in thms if n not in bad])
        return rc == 0

    def _count_audit_lines(self, audit_mods):
        n = 0
        for m in audit_mods:
            f = LEAN / (m.replace(".", "/") + ".lean")
            if f.exists():
                n += len(re.findall(r"^#print axioms", f.read_text(), flags=re.M))
        return n

    def grep_audit(self):
        hits = []
        for f in sorted((LEAN / "Nanite").rglob("*.lean")) + sorted((LEAN / "Drivers").glob("*.lean")):
            in_block = False
            for i, line in enumerate(f.read_text().splitlines(), 1):
                s = line
                # strip comments (line comments and simple block comments)
                if in_block:
                    if "-/" in s:
                        in_block = False
                        s = s.split("-/", 1)[1]
                    else:
                        continue
                if "/-" in s:
                    pre, rest = s.split("/-", 1)
                    if "-/" in rest:
                        s = pre + rest.split("-/", 1)[1]
                    else:
                        in_block = True
                        s = pre
                s = s.split("--", 1)[0]
                if FORBIDDEN.search(s):
                    hits.append(f"{f.relative_to(LEAN)}:{i}: {line.strip()[:120]}")
        if hits:
            self.broken.append({"kind": "audit", "detail": {"forbidden tokens": hits}})
        self.extra["grep_audit_hits"] = hits
        return hits

    def leanchecker(self, modules):
        cmd = "cd lean && lake env leanchecker " + " ".join(modules)
        self.checker_cmds.append(cmd)
        try:
            rc, out = self._lake(["env", "leanchecker"] + modules, timeout=3000)
        except subprocess.TimeoutExpired:
            print("INFRA: leanchecker timed out")
            sys.exit(2)
        self.extra["leanchecker"] = {"rc": rc, "tail": out[-400:]}
        if rc != 0:
            self.broken.append({"kind": "audit", "detail": {"leanchecker": out[-1500:]}})
        return rc == 0

    def driver(self, name, lines, timeout=1800):
        """pipe JSON lines through `lake env lean --run Drivers/<name>.lean`; returns output lines
        or None when the driver itself does not run (recorded as broken)."""
        inp = "\n".join(l if isinstance(l, str) else json.dumps(l) for l in lines) + "\n"
        try:
            p = subprocess.run(["lake", "env", "lean", "--run", f"Drivers/{name}.lean"], cwd=LEAN,
                               input=inp, capture_output=True, text=True, timeout=timeout)
        except subprocess.TimeoutExpired:
            print("INFRA: Lean driver timed out")
            sys.exit(2)
        out = p.stdout.splitlines()
        if p.returncode != 0 or len(out) != len(lines):
            self.broken.append({"kind": "driver", "driver": name,
                                "detail": (p.stderr or p.stdout)[-1500:],
                                "lines_in": len(lines), "lines_out": len(out)})
            return None
        return out

    # ---------------------------------------------------------------- bookkeeping
    def case(self, case, nontrivial=None, bucket=None):
        """register one explored case; `nontrivial` is a hashable key when the case is
        non-trivial by the property's rule (distinct keys are counted)."""
        self.evaluations += 1
        if nontrivial is not None:
            self.nontrivial.add(nontrivial if isinstance(nontrivial, str) else sha(nontrivial))
        if bucket is not None:
            for b in (bucket if isinstance(bucket, (list, tuple)) else [bucket]):
                self.dist[b] = self.dist.get(b, 0) + 1
        if len(self.samples) < 6 and (self.evaluations in (1, 2, 3) or self.rng.random() < 0.01):
            self.samples.append(case)

    def disagree(self, case, impl, model, what="model and implementation differ"):
        self.disagreements += 1
        if self.disagreements <= 20:
            self.broken.append({"kind": "correspondence", "what": what, "case": case,
                                "implementation": impl, "model": model})
            d = CORPUS / self.pid
            d.mkdir(parents=True, exist_ok=True)
            # corpus is only extended outside registered runs (VERIF_SAVE_CORPUS=1)
            if os.environ.get("VERIF_SAVE_CORPUS"):
                (d / f"dis-{sha(case)}.json").write_text(canon({"case": case}))

    def violation(self, signature, what, replay):
        """a concrete input / history on which the *implementation* fails the property"""
        self.violations.append({"signature": signature, "what": what, "replay": replay})

    # ---------------------------------------------------------------- finish
    def finish(self):
        known = json.loads((VERIF / "known_findings.json").read_text())
        kf = {k["signature"]: k for k in known.get("findings", []) if k["property"] == self.pid}
        lines = []
        seen_known = {}
        new = {}
        for v in self.violations:
            if v["signature"] in kf:
                seen_known.setdefault(v["signature"], v)
            else:
                new.setdefault(v["signature"], v)
        REPLAYS.mkdir(exist_ok=True)
        nviol = 0
        for sig, v in seen_known.items():
            lines.append(f"KNOWN-FINDING: property={self.pid} {kf[sig]['what']}")
        for n, (sig, v) in enumerate(new.items()):
            if n >= 5:
                break
            path = REPLAYS / f"{self.pid}-{self.seed}-{n}.json"
            path.write_text(json.dumps({
                "property": self.pid, "kind": "failing-input", "signature": sig,
                "what": v["what"], "broken": self.broken[:5], **v["replay"],
                "cmd": f"./check {self.pid} --replay {path.relative_to(VERIF)}"}, indent=1,
                default=str))
            lines.append(f"VIOLATION property={self.pid} replay={path.relative_to(VERIF)}")
            nviol += 1
        if self.broken and not new:
            path = REPLAYS / f"{self.pid}-{self.seed}-broken.json"
            path.write_text(json.dumps({
                "property": self.pid, "kind": "no-failing-input-found",
                "broken": self.broken[:20],
                "searched": {"evaluations": self.evaluations,
                             "distinct_nontrivial": len(self.nontrivial)},
                "cmd": f"./check {self.pid} --tier {self.tier}"}, indent=1, default=str))
            lines.append(f"VIOLATION property={self.pid} replay={path.relative_to(VERIF)} "
                         "no-failing-input-found")
            nviol += 1
        wall = time.time() - self.t0
        ev = {
            "property_id": self.pid, "tier": self.tier, "seed": self.seed, "level": "proof",
            "coverage": {
                "obligations": max(self.obligations, 1),
                "discharged": self.discharged,
                "checker_cmd": " && ".join(self.checker_cmds) or "none",
                "trusted_base": self.trusted,
                "theorems": self.theorems,
                "regenerated": self.regenerated,
                "evaluations": self.evaluations,
                "distinct_nontrivial": len(self.nontrivial),
                "rule": self.rule,
                "samples": self.samples[:6],
                "exhaustive": self.exhaustive,
                "input_distribution": self.dist,
                "correspondence_disagreements": self.disagreements,
                "broken": self.broken[:10],
                "known_findings_seen": sorted(seen_known),
                "notes": self.notes,
                **self.extra,
            },
            "assumptions": self.assumptions,
            "wall_s": round(wall, 2),
            "violations": nviol,
        }
        EVID.mkdir(exist_ok=True)
        (EVID / f"{self.pid}.json").write_text(json.dumps(ev, indent=1, default=str))
        for l in lines:
            print(l)
        print(f"{self.pid} tier={self.tier} seed={self.seed}: theorems {self.discharged}/"
              f"{max(self.obligations, 1)} evaluations={self.evaluations} "
              f"nontrivial={len(self.nontrivial)} disagreements={self.disagreements} "
              f"known={len(seen_known)} violations={nviol} wall={wall:.1f}s")
        return 1 if nviol else 0


TRUST_COMMON = [
    "Lean 4.33 kernel (thorough tier: re-checked with leanchecker)",
    "axioms allowed in property theorems: propext, Classical.choice, Quot.sound; no native_decide, "
    "no bv_decide, no sorry, no own axioms (audited on every run by #print axioms and grep)",
    "CPython/numpy semantics of list, dict, sorted and element-wise arithmetic",
]
