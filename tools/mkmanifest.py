#!/usr/bin/env python3
"""Writes MANIFEST.json from the table below (run after adding a property check)."""
import json
import pathlib

VERIF = pathlib.Path(__file__).resolve().parents[1]

# id -> (level text, level note, technique, design_ref)
CLAIMED = {
    "C14": (
        "Machine-checked Lean 4 proof over a hand model of autosort/check_order/apply with the "
        "requirement table regenerated from the live PREPROCESSORS on every run: general theorems for "
        "any table and any list (check_order/apply acceptance characterisations, autosort returns a "
        "checked permutation) and, for the shipped table, `decide +kernel` over all 1957 selections "
        "lifted to every duplicate-free list by an inductive membership lemma. The model is tied to "
        "the code by exhaustive correspondence (all selections x autosort/check/apply) on every run.",
        "Trusted: Lean kernel, axioms propext/Classical.choice/Quot.sound, the table dump, the "
        "hand model (exhaustively compared), CPython list semantics.",
        "Lean 4 proof (induction + decide +kernel over the regenerated table) + exhaustive "
        "model/implementation correspondence", "DESIGN.md §5 C14"),
    "C12": (
        "Machine-checked Lean 4 proof about a hand model of obj2bytes/_hash (the bytes fed to MD5): the "
        "length-prefixed list framing is injective (hence lists, parameter attributes, dictionaries and "
        "the whole pre-image are injective in their item encodings: changing a single setting, entry, "
        "attribute or data sample changes the pre-image), dictionary encoding is independent of insertion "
        "order (sorted keys, proved with a total-order argument), the two documented don't-cares are "
        "exactly what is ignored; key list regenerated from FP_DEFAULT. Tied to the code by byte-exact "
        "comparison of the md5 pre-image captured inside IndentationFitter._hash.",
        "Trusted: Lean kernel, standard axioms, MD5 collision resistance, injectivity of str(float(x)), the "
        "harness' atom encoding, hand model (byte-exact sampled correspondence).",
        "Lean 4 proof (induction, injectivity of netstring framing, sorted-permutation uniqueness) + "
        "byte-exact pre-image correspondence", "DESIGN.md §5 C12"),
    "C18": (
        "Machine-checked Lean 4 proof about a hand model of _module_check/_module_autocomplete/register/"
        "deregister/load_model_from_file and ancillary seeding: acceptance iff well-formed, missing "
        "attribute => incomplete-model error, every rejection leaves registry/import path/bytecode flag "
        "unchanged, register/deregister touch exactly their key, the import path is restored after every "
        "operation sequence (induction over histories); attribute lists regenerated from the AST of "
        "_module_check. Tied by correspondence on all single-fault mutants and random histories. Partial: "
        "Python's import system is not modelled.",
        "Trusted: Lean kernel, standard axioms, hand model (mutant + history correspondence), AST extraction "
        "of the attribute lists; import machinery is runtime.",
        "Lean 4 proof (decision-logic characterisation, invariant by induction over operation histories) + "
        "mutant/history correspondence", "DESIGN.md §5 C18"),
    "C19": (
        "Machine-checked Lean 4 proof about a hand model of the profile store (Profile.__init__/__getitem__ "
        "with write-through/__setitem__/get_fit_params): for every history of new-object/read/write "
        "operations the value read for a key is the last value written (induction over histories), reads and "
        "new objects change no effective value, invalid fit-parameter keys are refused, fit parameters are the "
        "model defaults overridden by exactly the stored entries; the two transformed setup answers (range "
        "type renaming, independent interval bounds) always yield a profile the fitter accepts. Defaults "
        "regenerated from cli.profile.DEFAULTS. Partial: legacy parsing, input(), JSON text round-trip, the "
        "batch fit and statistics.tsv are explored on the implementation, not proved.",
        "Trusted: Lean kernel, standard axioms, hand model (history correspondence on real profile files), "
        "DEFAULTS dump; JSON/float round-trip and the batch run are runtime.",
        "Lean 4 proof (invariant by induction over operation histories) + history correspondence + scripted "
        "setup/legacy/batch-fit oracles", "DESIGN.md §5 C19"),
    "C16": (
        "Machine-checked Lean 4 proof about a hand model of save_hdf5/load_hdf5 in which a save is the ordered "
        "list of primitive HDF5 writes and a failure may be injected after ANY number of them: the container "
        "stays loadable after every prefix of every save (invariant proved for all containers, curves and "
        "fault indices), all ratings of other curves are loaded unchanged (grow-only), a different fit for a "
        "stored curve is refused and changes nothing, re-saving keeps the columns, and a saved curve loads "
        "back with its columns and user fields. Tied by comparing real HDF5 dumps and load results after "
        "every operation with faults injected at write indices (h5py calls wrapped). Partial: durability "
        "under process kill, HDF5 bytes and np.allclose are runtime.",
        "Trusted: Lean kernel, standard axioms, hand model (dump correspondence under fault injection), "
        "'same fit' as digest equality, h5py/HDF5.",
        "Lean 4 proof (invariant over all prefixes of the write sequence; refinement of load) + fault-injection "
        "correspondence on real containers", "DESIGN.md §5 C16"),
    "C04": (
        "Machine-checked Lean 4 proof over an arbitrary linearly ordered field about hand models of "
        "compute_contact_point_weights/residual/_fit: weights in [0,1], zero exactly at the contact point, one "
        "exactly from the weighting distance on, linear in between; after a successful _fit the 'fit' column is "
        "the model at the reported parameters on the (k-scaled) segment and NaN elsewhere, 'fit residuals' is "
        "the weighted difference, chi-square is the sum of squared residuals over the used points; too few "
        "points => success False and NaN columns. Tied by correspondence at exact rationals on random fits. "
        "Partial: fixed/bounded/expression parameters are lmfit guarantees, explored by the oracle.",
        "Trusted: Lean kernel, standard axioms, hand models (sampled correspondence at exact rationals within an "
        "explicit rounding budget), lmfit; ordered-field theorems do not transfer to IEEE doubles.",
        "Lean 4 proof over an ordered field (Mathlib) + exact-rational correspondence + implementation oracle",
        "DESIGN.md §5 C04"),
    "C05": (
        "Machine-checked Lean 4 proof over an arbitrary linearly ordered field about a hand model of the range "
        "logic of IndentationFitter.fit/_fit: a point is used iff it belongs to the requested segment and lies in "
        "the closed interval spanned by the two bounds (zero width = whole segment, inverted intervals "
        "normalised, other segment never), relative-cp intervals are anchored at the previous pass' contact point, "
        "xmin/xmax are the extreme used abscissae in uncorrected units for every k>0, the plateau scan grid has n "
        "points from xmin to xmin/20 and is strictly increasing. Tied by exact-rational correspondence with the "
        "'fit range' column (per-pass contact points recorded from lmfit). Partial: convergence of the passes "
        "and the plateau detection are explored by the oracle.",
        "Trusted: Lean kernel, standard axioms, hand model (sampled exact correspondence), lmfit, scipy.signal.",
        "Lean 4 proof over an ordered field (Mathlib) + exact-rational mask correspondence + implementation oracle",
        "DESIGN.md §5 C05"),
    "C13": (
        "Machine-checked Lean 4 proof, for EVERY model function g (the quantifier over user programs), about a "
        "hand model of model_direction_agnostic and the default residual: the wrapper fails only on an empty "
        "abscissa, g always receives approach-ordered data (first >= last), the output has the abscissa's shape "
        "for length-preserving g, point-wise g is evaluated point by point in the caller's order, reversing the "
        "abscissa reverses the output, and the default residual is (data - model) x weights. Tied by exact "
        "correspondence with deliberately order-sensitive harness models registered in the real registry. "
        "Partial: translation/baseline/linearity/monotonicity/continuity are theorems only for the regenerated "
        "shipped model functions (Props/C02); for user models they are monitored by the contract oracle. The "
        "default weighting distances of the three residual entry points and the declared value / limits of every "
        "shipped parameter are regenerated from source; that they agree, that every declared interval is non-empty "
        "and holds its default, and that the layer thickness has a positive lower limit are kernel-evaluated "
        "theorems over that table (Props/C13Defaults).",
        "Trusted: Lean kernel, standard axioms, hand model (exact sampled correspondence), numpy slicing.",
        "Lean 4 proof (quantified over all model functions) + exact correspondence + contract oracle on every "
        "registered model", "DESIGN.md §5 C13"),
    "C02": (
        "Machine-checked Lean 4 proof over the reals about model functions that are REGENERATED from the Python "
        "AST of the five shipped model_func bodies on every run: each equals its documented closed form for all "
        "parameters and abscissae, is exactly the baseline outside contact, obeys translation / baseline / "
        "modulus-linearity laws, the power-law models scale as C11 needs, the paraboloid is monotone in depth, "
        "and the four coefficients of the truncated sphere series are the Taylor coefficients of the exact "
        "Sneddon solution (power-series identity mod u^5 checked by kernel computation on the coefficients "
        "extracted from the same AST). The translator is validated every run by executing its Float rendering "
        "against numpy. Partial: the 1e-4 series error bound up to depth R and floating-point round-off are "
        "measured on grids, not proved.",
        "Trusted: Lean kernel, standard axioms (Mathlib reals), the AST translator (validated against numpy "
        "within 16 ulp), the hand-written documented formulas (constants cross-checked with the live docstrings).",
        "Lean 4 proof about definitions regenerated from source (translator) + Float-rendering validation + "
        "formula/series oracle", "DESIGN.md §5 C02"),
    "C11": (
        "Machine-checked Lean 4 proof: for an abstract power law with a multiplicative depth function (over any "
        "ordered field) the k-scaled fitting problem at (E', k cp, b) IS the k=1 problem at (E' pw k, cp, b): "
        "model values, residuals, chi-square for every mask, the fitted curve and the least-squares minimisers "
        "correspond, so reported contact point and baseline are unchanged and the modulus is multiplied by "
        "k^-p; the three shipped power-law model functions, REGENERATED from source, are proved to have exactly "
        "this scaling (p = 3/2, 2, 2 over the reals); xmin/xmax in measured units (C05). Partial: that lmfit "
        "reaches the corresponding minimiser for both k is explored by paired fits (k vs 1), which also check "
        "that every optimiser call starts at k x cp0 and that the caller's parameters are untouched.",
        "Trusted: Lean kernel, standard axioms, translator (validated in C02), fitter model (correspondence in "
        "C04/C05), lmfit convergence (explored).",
        "Lean 4 proof (algebraic equivalence of the two least-squares problems; instantiation at regenerated "
        "models) + paired-fit oracle", "DESIGN.md §5 C11"),
    "C01": (
        "Machine-checked Lean 4 proof (any ordered field, any sampling and mask): the generating parameters have "
        "zero residual, every least-squares minimiser of exact data reproduces the data on all used points, and "
        "for power-law models zero residual on two non-contact and two contact abscissae forces (E', cp', b') = "
        "(E, cp, b) - identifiability and uniqueness of the minimiser; instantiated over the reals at the "
        "REGENERATED hertz_para / hertz_cone / hertz_pyr3s model functions. So a reported chi-square of ~0 can "
        "only be the generating parameters, and nanite's glue (masks C05, k-scaling C11, weights C04) cannot move "
        "the minimiser. Partial: convergence of lmfit from the stated basin, the precision reached and the noise "
        "clause are explored by recovery runs on ground truth generated from the documented formulas "
        "(independently of the library); identifiability of the series sphere and of the layered model and the "
        "weighted case are not proved.",
        "Trusted: Lean kernel, standard axioms, translator (validated in C02), lmfit/scipy optimisers (explored); "
        "the basin and tolerances are stated in the evidence.",
        "Lean 4 proof (identifiability / uniqueness of the least-squares minimiser) + recovery runs on "
        "independently generated ground truth", "DESIGN.md §5 C01"),
    "C03": (
        "Machine-checked Lean 4 proof about a hand object model of FitProperties/Indentation (provenance "
        "semantics: every visible result carries the pipeline and settings it was computed with; all numerics "
        "free): by induction over EVERY finite history of apply_preprocessing, fit_model(**any kwargs, incl. ones "
        "that raise part-way), direct setting edits and ratings, visible results and fit columns belong to the data "
        "columns as they are and the settings as stored (never to other settings); a repeated fit with unchanged "
        "settings computes nothing and changes nothing; together with C06's invariant, results are those of the "
        "stored pipeline and stored settings (fresh-copy equivalence, partial: histories without direct edits of the "
        "two preprocessing settings - recorded finding with a Lean witness). Tied by history correspondence and by "
        "comparison with a fresh object (bytes of columns, parameters, hash).",
        "Trusted: Lean kernel, standard axioms, hand model (history correspondence), determinism of numpy/lmfit for "
        "equal inputs (observed). Parameter sets with extra user parameters are outside the model.",
        "Lean 4 proof (invariant by induction over operation histories) + history correspondence + fresh-object "
        "oracle", "DESIGN.md §5 C03"),
    "C06": (
        "Machine-checked Lean 4 proof on the same object model: a rejected preprocessing request is never "
        "remembered (not reported, data reset, rejected again with the same error), an accepted one leaves exactly "
        "the columns of that pipeline, re-applying it is a no-op, and for every history (without direct edits of "
        "the stored pipeline - recorded finding) the data columns are those of the pipeline the curve reports; "
        "acceptance = C14's order rules + option errors from the live tables. Tied by history correspondence and "
        "column digests against a fresh curve, incl. all ordered pairs of requests through both routes.",
        "Trusted: Lean kernel, standard axioms, hand model (history correspondence), bit-identical determinism of "
        "the numerical steps (observed by digest comparison).",
        "Lean 4 proof (invariant over histories) + history/pair correspondence with column digests", "DESIGN.md §5 C06"),
    "C09": (
        "Machine-checked Lean 4 proof: the rating decision table over an ordered field with NaN (failed binary "
        "criterion => 0, undefined continuous feature => -1, otherwise the regressor; without a fit -1 or 0), the "
        "range theorem for averaging tree ensembles (a convex combination of responses in [0,10] lies in [0,10]), "
        "and on the object model the soundness of the rating cache (a cached value is returned only while fit "
        "provenance, regressor, training set, feature selection and LDA flag are unchanged; 'none' bypasses it; "
        "re-preprocessing clears it). Tied by history correspondence (whether a rater was constructed). Partial: "
        "scikit-learn numerics, totality on all state classes, determinism across objects/processes and equality "
        "with the standalone rater are explored by the oracle.",
        "Trusted: Lean kernel, standard axioms, hand models, scikit-learn (explored).",
        "Lean 4 proof (decision logic, convexity, cache invariant) + history correspondence + state-class oracle",
        "DESIGN.md §5 C09"),
    "C10": (
        "The Lean object model of C03/C06 is value-semantic (it contains no references), so its machine-checked "
        "theorems (results current for every history, columns a function of the stored pipeline) hold for every "
        "history of argument VALUES; that the implementation behaves like this model when callers edit previously "
        "passed or returned lists, nested option dictionaries, parameter sets and name lists in place and pass them "
        "again is established by history correspondence with in-place edit operations, a before/after snapshot of "
        "every argument of every call, a fresh-object comparison, and API probes. Partial: the theorem content "
        "specific to C10 is the refinement to a reference-free model; mutation of numpy arrays is only monitored.",
        "Trusted: Lean kernel, standard axioms, hand model; the tie carries the weight for this property.",
        "Lean 4 proof about a reference-free model + correspondence under in-place edits + argument-mutation monitor",
        "DESIGN.md §5 C10"),
    "C07": (
        "Machine-checked Lean 4 proof over an ordered field, for every curve, about a hand model of the six "
        "preprocessing steps, find_turning_point and smooth_axis_monotone: tip position = height + force/k at every "
        "index; force-offset and tip-offset corrections shift their column by a constant with zero mean pre-contact "
        "force / zero tip position at the contact index; slope correction leaves data outside the region untouched, "
        "vanishes at the reference index (no jump), is the fitted line up to a constant and - with the least-squares "
        "line - leaves zero baseline trend; the segment column has a single switch at the first farthest point; "
        "whenever smooth_axis_monotone returns, the result is strictly monotonic and as long as the input (window "
        "doubling + tie breaking incl. the end-of-array branch, by an invariant over loop iterations). Tied by "
        "executing the model at exact rationals on integer-valued curves step by step. Partial: lmfit's linear fit "
        "is replaced by the closed-form least-squares line (measured), rounding, the farthest-point location on "
        "lagged curves and termination on real data are explored by the oracle.",
        "Trusted: Lean kernel, standard axioms, hand model (sampled exact correspondence), lmfit LinearModel = "
        "least squares (measured to 1e-6), scipy median_filter mode=nearest semantics as modelled.",
        "Lean 4 proof over an ordered field (loop invariants for the smoothing) + exact-rational step-by-step "
        "correspondence + property oracle on synthetic and recorded curves x all option values",
        "DESIGN.md §5 C07"),
    "C08": (
        "Machine-checked Lean 4 proof over an ordered field, for every force array, about a hand model of "
        "compute_poc, the approach clipping and all six estimators (threshold, Frechet, gradient incl. the moving "
        "average with reflect boundary and np.gradient; the three fit-based estimators with the optimiser as a "
        "parameter): every estimate is unchanged under force -> a*force + b (a > 0), is NaN or a valid index, "
        "degenerate data (empty / constant clipped part) give NaN, and compute_poc then returns the centre of the "
        "clipped data - always a valid index of a non-empty array. Tied by running the model at exact rationals on "
        "integer-valued arrays and by recording the arrays handed to lmfit.minimize. Partial: binary64 rounding for "
        "factors that are not powers of two and for offsets ('within one sample'), the determinism of the optimiser "
        "and the stated accuracy fractions on noise-free model curves are explored by the oracle, not proved.",
        "Trusted: Lean kernel, standard axioms, hand model (exact sampled correspondence on integer-valued arrays), "
        "lmfit/Nelder-Mead as an uninterpreted deterministic function, numpy argmax/argmin first-index semantics.",
        "Lean 4 proof over an ordered field (optimiser as parameter) + exact-rational correspondence + recorded "
        "optimiser inputs + property oracle on grids, degenerate arrays and recorded curves",
        "DESIGN.md §5 C08"),
    "C17": (
        "Machine-checked Lean 4 proof over an ordered field, for every approach segment, about a hand model of all "
        "15 rating features and of get_feature_names / compute_features: each modelled feature is unchanged "
        "when force and fit are multiplied by a common positive factor (for every Gaussian filter that is "
        "homogeneous and every positively homogeneous standard deviation - the assumed behaviour of the library "
        "routines), fraction-type features lie in [0, 1], the logarithm arguments of the magnitude-type features are "
        "non-negative when the maximal approach force is positive, a zero denominator gives NaN; names come out "
        "sorted for every which_type form and are exactly the requested members of the requested types. Tied by "
        "calling the real feature methods in-process on integer-valued stub datasets and the model at exact rationals "
        "on the same arrays (scipy's Gaussian weights as data), and all which_type forms x name subsets. Partial: "
        "NaN inside a partially fitted segment, binary64 evaluation, independence of the "
        "retract segment and the unfitted states are explored by the oracle, not proved.",
        "Trusted: Lean kernel, standard axioms, hand model (sampled exact correspondence), gaussian_filter1d "
        "homogeneous, np.std positively homogeneous, lstsq = least squares, log wrappers outside the model.",
        "Lean 4 proof over an ordered field (library routines as parameters with stated behaviour) + exact-rational "
        "correspondence on stub datasets + property oracle on fitted / unfitted curves",
        "DESIGN.md §5 C17"),
    "C15": (
        "Machine-checked Lean 4 proof over an ordered field, for every matrix shape and every NaN/+-inf pattern, "
        "about a hand model of load_training_set (after the files were read) and compute_sample_weight: with "
        "remove_nan the result contains no NaN, with replace_inf no infinity (each becomes +-2 x the largest finite "
        "magnitude of its column; the all-NaN and the no-finite-entry branches are characterised), rows stay paired "
        "with their responses and are exactly the rows passing the NaN filter in their original order, finite "
        "entries are never altered, zero-rated NaNs are imputed only from zero-rated references; sample weights are "
        "non-negative, sum to one and give every rating class present the same total; responses outside 0..10 "
        "(unrated samples) have weight exactly zero and do not disturb the others (Props/C15Mixed). Tied by exact-rational "
        "correspondence through real training-set directories. Partial: text format (%.2e), file reading and the "
        "export order are runtime (explored by an export/import round trip).",
        "Trusted: Lean kernel, standard axioms, hand model (exact sampled correspondence), numpy mean/nanmax "
        "semantics on inf/NaN as modelled, np.loadtxt/savetxt.",
        "Lean 4 proof over an ordered field with extended values + exact-rational correspondence via real files",
        "DESIGN.md §5 C15"),
    "C20": (
        "Machine-checked Lean 4 proof, for every list of files and every map, about a hand model of load_data, "
        "IndentationGroup.append and the quantitative map: the loaded list is the concatenation of the files' curves "
        "(one object per curve, file order); the progress values handed to the callback are non-decreasing, inside "
        "[0, 1] and end at 1 whenever every file reader reports non-decreasing values in [0, 1] (ordered field, any "
        "number of files); a group refuses exactly the curves with neither a spring constant nor a tip position; the "
        "map holds at each pixel the current value (contact point x 1e9, modulus, rating) of the last curve recorded "
        "there and NaN where there is no curve, no successful fit or no rating, and a refit changes only that pixel. "
        "Tied by recording the raw progress values of the real readers and the maps of real groups and executing the "
        "model on the same data. Partial: the afmformats readers, find_data order, HDF5/zip I/O, the Indentation "
        "class of the returned objects, enumerations and the warnings are observed by the oracle, not proved.",
        "Trusted: Lean kernel, standard axioms, hand model (sampled exact correspondence), afmformats readers as "
        "parameters (their progress monotonicity is measured on every run).",
        "Lean 4 proof (induction over the file list; fold over the curves of a map) + correspondence on recorded "
        "reader progress and real maps + property oracle on recorded files, synthetic folders and in-memory maps",
        "DESIGN.md §5 C20"),
}

PENDING_REASON = "check not built yet in this round (planned, see DESIGN.md §8); not claimed until its machinery exists"


def main():
    props = [json.loads(l) for l in (VERIF / "properties.jsonl").read_text().splitlines() if l.strip()]
    checks = []
    na = []
    for p in props:
        pid = p["id"]
        if pid in CLAIMED:
            text, note, tech, ref = CLAIMED[pid]
            checks.append({
                "property_id": pid,
                "quick_cmd": f"./check {pid} --tier quick",
                "thorough_cmd": f"./check {pid} --tier thorough",
                "evidence_file": f"/verif/evidence/{pid}.json",
                "replay_cmd_template": f"./check {pid} --replay {{path}}",
                "engine": "lean4-model+correspondence",
                "level_claimed": {"category": "proof", "text": text, "design_ref": ref},
                "level_note": note,
                "technique": tech,
            })
        else:
            na.append({"property_id": pid, "reason": PENDING_REASON})
    man = {
        "version": 1,
        "setup_cmd": "./check --setup",
        "hooks": {
            "guard": "NANITE_VERIF",
            "enable": "no source hooks: nanite is an editable install of /repo; the harness wraps module "
                      "attributes (lmfit.minimize, hashlib.md5, builtins.input, h5py writes) in-process; "
                      "./check exports NANITE_VERIF=1 for uniformity",
            "baseline_off_cmd": "cd /repo && /venv/bin/python -m pytest -ra -q -p no:cacheprovider "
                                "--timeout=900 --continue-on-collection-errors",
            "source_commits": [],
            "add_only": True,
        },
        "engines": [{
            "name": "lean4-model+correspondence",
            "path": "lean/ tools/",
            "serves_properties": sorted(CLAIMED),
            "kind_free_text": "Lean 4 models and theorems (lake project lean/), tables and model "
                              "functions regenerated from /repo by tools/py2lean, hand models tied by a "
                              "differential correspondence harness (tools/harness) through a JSON line "
                              "protocol to `lake env lean --run Drivers/*.lean`",
        }],
        "checks": checks,
        "not_applicable": na,
        "notes": "Single entry point ./check <id> --tier quick|thorough; exit 0/1, 2 = infrastructure "
                 "timeout. known_findings.json lists recorded findings and fixed defects.",
    }
    (VERIF / "MANIFEST.json").write_text(json.dumps(man, indent=1) + "\n")
    print("claimed:", sorted(CLAIMED), "not_applicable:", [n["property_id"] for n in na])


if __name__ == "__main__":
    main()
