import sys, warnings, tempfile, pathlib; sys.path.insert(0,'/verif/tools/harness')
warnings.simplefilter("ignore")
import h5py, numpy as np
import nanite
from nanite.rate import io as rio
td=pathlib.Path(tempfile.mkdtemp())
jpk="/repo/tests/data/fmt-jpk-fd_spot3-0192.jpk-force"
def fitted(model="hertz_para"):
    i=nanite.IndentationGroup(jpk)[0]
    i.apply_preprocessing(["compute_tip_position","correct_force_offset","correct_tip_offset"])
    i.fit_model(model_key=model)
    return i
a=fitted(); 
h5=td/"r.h5"
jpk2="/repo/tests/data/fmt-jpk-fd_single_bad_2017-01-16_1.jpk-force"
b=nanite.IndentationGroup(jpk2)[0]
b.apply_preprocessing(["compute_tip_position","correct_force_offset","correct_tip_offset"]); b.fit_model()
rio.save_hdf5(h5,b,3,"u","c")
print("loaded", len(rio.load_hdf5(h5)))
import shutil
orig=h5py.Group.create_dataset
bad=0
base=td/"base.h5"; shutil.copy(h5,base)
for j in range(1,8):
    shutil.copy(base,h5)
    cnt=[0]
    def cd(self,*a_,**k):
        cnt[0]+=1
        if cnt[0]==j: raise OSError("injected")
        return orig(self,*a_,**k)
    h5py.Group.create_dataset=cd
    try:
        rio.save_hdf5(h5,a,5,"u","c"); r="saved"
    except OSError: r="failed"
    h5py.Group.create_dataset=orig
    try:
        n=len(rio.load_hdf5(h5))
    except BaseException as e:
        n=repr(e); bad+=1
    try:
        rio.save_hdf5(h5,a,5,"u","c"); n2=len(rio.load_hdf5(h5))
    except BaseException as e:
        n2=repr(e); bad+=1
    print(j, r, n, "retry:", n2)
rio.save_hdf5(h5,a,5,"u","c"); print("final", len(rio.load_hdf5(h5)))
c=fitted("hertz_cone")
try:
    rio.save_hdf5(h5,c,1,"u","c"); print("different fit ACCEPTED")
except ValueError as e: print("refused")
sys.exit(bad)
