import Lean.Data.Json
import Nanite.Model.Poc
import Mathlib.Algebra.Order.Field.Rat
open Lean Nanite.Poc

def parseQ (s : String) : ℚ :=
  match s.splitOn "/" with
  | [n] => (n.toInt?.getD 0 : ℚ)
  | [n, d] => mkRat (n.toInt?.getD 0) (d.toNat?.getD 1)
  | _ => 0

def showQ (q : ℚ) : String := if q.den == 1 then toString q.num else toString q.num ++ "/" ++ toString q.den

def showIdx : Option Nat → String
  | none => "nan"
  | some k => toString k

/-- relative distance of the closest filtered-gradient sample to the threshold (0 = no data) -/
def gzMargin (c : ℚ) (f : List ℚ) : String :=
  let n := f.length
  let fs := max 5 (n / 100)
  let y := uniformFilter fs f
  match argmax y with
  | none => "none"
  | some am =>
    let grad := (gradient y).take (am - 10)
    if grad.length ≤ 50 then "none" else
    let gradn := uniformFilter fs grad
    match lmax gradn, lmax (gradn.map (fun g => |g|)) with
    | some mx, some amx =>
      if amx = 0 then "zero" else
      match lmin (gradn.map (fun g => |g - c * mx| / amx)) with
      | some m => showQ m
      | none => "none"
    | _, _ => "none"

def step (line : String) : String :=
  match Json.parse line with
  | .error _ => "bad-json"
  | .ok j =>
    let force : List ℚ := match j.getObjVal? "force" with
      | .ok (.arr a) => a.toList.map (fun x => parseQ (x.getStr?.toOption.getD "0"))
      | _ => []
    let qk (k : String) : ℚ := parseQ ((j.getObjValAs? String k).toOption.getD "0")
    match (j.getObjValAs? String "op").toOption with
    | some "poc" =>
      let est : Option (List ℚ → Option Nat) := match (j.getObjValAs? String "method").toOption with
        | some "deviation_from_baseline" => some devBaseline
        | some "frechet_direct_path" => some (frechet (qk "s") (qk "c"))
        | some "gradient_zero_crossing" => some (gradZero (qk "c01"))
        | _ => none
      match est with
      | none => "bad-method"
      | some e => "clip=" ++ toString (clip force).length ++ " est=" ++ showIdx (e (clip force)) ++
          " poc=" ++ toString (computePoc e force)
    | some "margin" => gzMargin (qk "c01") (clip force)
    | some "norm" =>
      match normalise (clip force) with
      | none => "none"
      | some y => "x0=" ++ showIdx (frechet (qk "s") (qk "c") (clip force)) ++ " y=" ++ ",".intercalate (y.map showQ)
    | _ => "bad-op"

partial def loop (h : IO.FS.Stream) : IO Unit := do
  let line ← h.getLine
  if line.isEmpty then return ()
  IO.println (step line)
  loop h

def main : IO Unit := do loop (← IO.getStdin)
