import Lean.Data.Json
import Nanite.Model.Features
import Mathlib.Algebra.Order.Field.Rat
open Lean Nanite.Poc Nanite.Preproc Nanite.Features

def parseQ (s : String) : ℚ :=
  match s.splitOn "/" with
  | [n] => (n.toInt?.getD 0 : ℚ)
  | [n, d] => mkRat (n.toInt?.getD 0) (d.toNat?.getD 1)
  | _ => 0

def showQ (q : ℚ) : String := if q.den == 1 then toString q.num else toString q.num ++ "/" ++ toString q.den
def showO : Option ℚ → String
  | some v => showQ v
  | none => "nan"
def showB : Option Bool → String
  | some true => "1"
  | some false => "0"
  | none => "nan"

/-- `correlate1d(l, w, mode="reflect")` for an odd-length symmetric kernel -/
def convReflect (w : List ℚ) (l : List ℚ) : List ℚ :=
  let r : Nat := (w.length - 1) / 2
  (List.range l.length).map fun (i : Nat) =>
    ((List.range w.length).map fun (k : Nat) =>
      w.getD k 0 * l.getD (reflectIdx l.length (Int.ofNat i + Int.ofNat k - Int.ofNat r)) 0).sum

/-- square root to 30 decimal digits -/
def sqrtQ (v : ℚ) : ℚ :=
  if v ≤ 0 then 0 else
  let scale : Nat := 10 ^ 60
  let n : Nat := (v * scale).floor.toNat
  mkRat (Nat.sqrt n) (10 ^ 30)

def sdQ (l : List ℚ) : ℚ :=
  if l.length = 0 then 0 else
  let m := mean l
  sqrtQ (mean (l.map fun v => (v - m) ^ 2))

def step (line : String) : String :=
  match Json.parse line with
  | .error _ => "bad-json"
  | .ok j =>
    let arr (k : String) : List ℚ := match j.getObjVal? k with
      | .ok (.arr a) => a.toList.map (fun x => parseQ (x.getStr?.toOption.getD "0"))
      | _ => []
    let strs (k : String) : Option (List String) := match j.getObjVal? k with
      | .ok (.arr a) => some (a.toList.map (fun x => x.getStr?.toOption.getD ""))
      | _ => none
    let qk (k : String) : ℚ := parseQ ((j.getObjValAs? String k).toOption.getD "0")
    match (j.getObjValAs? String "op").toOption with
    | some "feat" =>
      let x := arr "x"
      let y := arr "y"
      let fit := arr "fit"
      let cp := qk "cp"
      let E : Ext ℚ := { gauss := fun s l => convReflect (arr ("w" ++ toString s)) l, sd := sdQ }
      match (j.getObjValAs? String "name").toOption with
      | some "feat_bin_cp_position" => showB (binCpPosition x cp)
      | some "feat_bin_size" => showB (some (binSize y))
      | some "feat_bin_apr_spikes_count" => showB (binSpikesCount E x y fit cp)
      | some "feat_con_apr_size" => showQ (aprSize x cp)
      | some "feat_con_apr_sum" => showO (aprSumCore x y fit cp)
      | some "feat_con_idt_sum" => showO (idtSumCore x y fit cp)
      | some "feat_con_idt_sum_75perc" => showO (idtSum75Core x y fit cp)
      | some "feat_con_cp_magnitude" => showO (cpMagnitude x y fit cp)
      | some "feat_con_bln_variation" => showO (blnVariationCore x y fit cp)
      | some "feat_con_cp_curvature" => showO (cpCurvatureCore x y cp)
      | some "feat_con_bln_slope" => showO (blnSlopeCore x y fit cp)
      | some "feat_con_apr_flatness" => showO (aprFlatness E x y fit cp)
      | some "feat_con_idt_monotony" => showO (idtMonotonyCore E x y cp)
      | some "feat_con_idt_spike_area" => showO (idtSpikeAreaCore E x y fit cp)
      | some "feat_con_idt_maxima_75perc" => showO (idtMaxima75Core E x y fit cp)
      | _ => "not-modelled"
    | some "names" =>
      let members := (strs "members").getD []
      let which : List FType := ((strs "which").getD []).map fun s =>
        if s == "binary" then FType.binary else if s == "continuous" then FType.continuous else FType.all
      let isAll := (j.getObjValAs? Bool "is_all").toOption.getD false
      let r := if (j.getObjValAs? Bool "compute").toOption.getD false
        then computeOrder members which isAll (strs "names") else featureNames members which (strs "names")
      match r with
      | some l => ",".intercalate l
      | none => "ValueError"
    | _ => "bad-op"

partial def loop (h : IO.FS.Stream) : IO Unit := do
  let line ← h.getLine
  if line.isEmpty then return ()
  IO.println (step line)
  loop h

def main : IO Unit := do loop (← IO.getStdin)
