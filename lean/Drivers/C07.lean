import Lean.Data.Json
import Nanite.Model.Preproc
import Mathlib.Algebra.Order.Field.Rat
open Lean Nanite.Poc Nanite.Preproc

def parseQ (s : String) : ℚ :=
  match s.splitOn "/" with
  | [n] => (n.toInt?.getD 0 : ℚ)
  | [n, d] => mkRat (n.toInt?.getD 0) (d.toNat?.getD 1)
  | _ => 0

def showQ (q : ℚ) : String := if q.den == 1 then toString q.num else toString q.num ++ "/" ++ toString q.den
def showL (l : List ℚ) : String := ",".intercalate (l.map showQ)

def step (line : String) : String :=
  match Json.parse line with
  | .error _ => "bad-json"
  | .ok j =>
    let arr (k : String) : List ℚ := match j.getObjVal? k with
      | .ok (.arr a) => a.toList.map (fun x => parseQ (x.getStr?.toOption.getD "0"))
      | _ => []
    let qk (k : String) : ℚ := parseQ ((j.getObjValAs? String k).toOption.getD "0")
    let nk (k : String) : Nat := (j.getObjValAs? Nat k).toOption.getD 0
    match (j.getObjValAs? String "op").toOption with
    | some "tip" => showL (computeTip (qk "k") (arr "h") (arr "f"))
    | some "force_offset" =>
        let f := arr "f"
        "idp=" ++ toString (computePoc devBaseline f) ++ " out=" ++ showL (correctForceOffset f)
    | some "tip_offset" => showL (tipOffset (nk "cpid") (arr "tip"))
    | some "turn" => match turningPoint (arr "tip") (arr "f") (nk "idp") with
        | some k => toString k
        | none => "none"
    | some "split" => match devBaseline (arr "f") with
        | none => "none"
        | some idp => if idp = 0 then "none" else
          match turningPoint (arr "tip") (arr "f") idp with
          | some k => "idp=" ++ toString idp ++ " turn=" ++ toString k
          | none => "none"
    | some "slope" =>
        let region := match (j.getObjValAs? String "region").toOption with
          | some "approach" => Region.approach
          | some "all" => Region.all
          | _ => Region.baseline
        let tip := arr "tip"
        let f := arr "f"
        let xs := arr "xs"
        let bl := (List.zip xs f).take (slopeIdp tip)
        "idp=" ++ toString (slopeIdp tip) ++ " m=" ++ showQ (olsSlope bl) ++ " c=" ++ showQ (olsIntercept bl) ++
          " out=" ++ showL (correctSlope region (qk "m") (qk "c") xs tip f)
    | some "ols" =>
        -- closed-form least squares of y on g (used by ./check C01: fixed-contact-point fits)
        let ps := List.zip (arr "g") (arr "y")
        "m=" ++ showQ (olsSlope ps) ++ " c=" ++ showQ (olsIntercept ps)
    | some "smooth" => match smoothMonotone (nk "w") (nk "maxiter") (arr "d") with
        | some s => showL s
        | none => "none"
    | _ => "bad-op"

partial def loop (h : IO.FS.Stream) : IO Unit := do
  let line ← h.getLine
  if line.isEmpty then return ()
  IO.println (step line)
  loop h

def main : IO Unit := do loop (← IO.getStdin)
