import Lean.Data.Json
import Nanite.Model.Fitter
import Mathlib.Algebra.Order.Field.Rat
open Lean Nanite.Residual Nanite.Fitter

def parseQ (s : String) : ℚ :=
  match s.splitOn "/" with
  | [n] => (n.toInt?.getD 0 : ℚ)
  | [n, d] => mkRat (n.toInt?.getD 0) (d.toNat?.getD 1)
  | _ => 0

def showQ (q : ℚ) : String := if q.den == 1 then toString q.num else toString q.num ++ "/" ++ toString q.den

def qs (j : Json) (k : String) : List ℚ :=
  match j.getObjVal? k with
  | .ok (.arr a) => a.toList.map (fun x => parseQ (x.getStr?.toOption.getD "0"))
  | _ => []

def bs (j : Json) (k : String) : List Bool :=
  match j.getObjVal? k with
  | .ok (.arr a) => a.toList.map (fun x => x.getBool?.toOption.getD false)
  | _ => []

def q1 (j : Json) (k : String) : ℚ := parseQ ((j.getObjValAs? String k).toOption.getD "0")
def qopt (j : Json) (k : String) : Option ℚ :=
  match j.getObjVal? k with
  | .ok v => if v.isNull then none else some (parseQ (v.getStr?.toOption.getD "0"))
  | _ => none

def showL (l : List ℚ) : String := "[" ++ ",".intercalate (l.map showQ) ++ "]"
def showO (l : List (Option ℚ)) : String :=
  "[" ++ ",".intercalate (l.map (fun o => match o with | some q => showQ q | none => "nan")) ++ "]"
def showOQ (o : Option ℚ) : String := match o with | some q => showQ q | none => "none"

def cumsum : List ℚ → List ℚ
  | [] => []
  | x :: xs => x :: (cumsum xs).map (· + x)

def step (line : String) : String :=
  match Json.parse line with
  | .error _ => "bad-json"
  | .ok j =>
    match (j.getObjValAs? String "op").toOption with
    | some "weights" => showL ((qs j "xs").map (cpWeight (q1 j "cp") (q1 j "wd")))
    | some "mask" => toString (maskAbs (bs j "seg") (qs j "xs") (q1 j "a") (q1 j "b"))
    | some "fitout" =>
        let xs := qs j "xs"
        let k := q1 j "k"
        let table := (xs.map (k * ·)).zip (qs j "mvals")
        let model : ℚ → ℚ := fun x => match table.find? (fun p => p.1 == x) with
          | some p => p.2
          | none => 0
        let o := fitOut model (q1 j "cpk") (qopt j "wd") k ((j.getObjValAs? Nat "nv").toOption.getD 0)
          (bs j "seg") (bs j "used") xs (qs j "ys")
        s!"success={o.success} fit={showO o.fit} res={showO o.res} chi={showOQ o.chiSqr} xmin={showOQ o.xmin} xmax={showOQ o.xmax}"
    | some "grid" => showL (plateauGrid (q1 j "xmin") ((j.getObjValAs? Nat "n").toOption.getD 0))
    | some "wrap" =>
        let d := qs j "delta"
        let g : List ℚ → List ℚ := match (j.getObjValAs? String "g").toOption with
          | some "cumsum" => cumsum
          | some "square" => List.map (fun x => x * x)
          | some "index" => fun l => l.zipIdx.map (fun p => p.1 * (p.2 : ℚ))
          | _ => id
        match wrap g d with
        | some r => showL r
        | none => "err IndexError"
    | _ => "bad-op"

partial def loop (h : IO.FS.Stream) : IO Unit := do
  let line ← h.getLine
  if line.isEmpty then return ()
  IO.println (step line)
  loop h

def main : IO Unit := do loop (← IO.getStdin)
