import Lean.Data.Json
import Nanite.Model.TrainingSet
import Mathlib.Algebra.Order.Field.Rat
open Lean Nanite.TrainingSet

def parseQ (s : String) : ℚ :=
  match s.splitOn "/" with
  | [n] => (n.toInt?.getD 0 : ℚ)
  | [n, d] => mkRat (n.toInt?.getD 0) (d.toNat?.getD 1)
  | _ => 0

def showQ (q : ℚ) : String := if q.den == 1 then toString q.num else toString q.num ++ "/" ++ toString q.den

def toExt (j : Json) : Ext ℚ :=
  match j.getStr? with
  | .ok "nan" => .nan
  | .ok "inf" => .pinf
  | .ok "-inf" => .ninf
  | .ok s => .fin (parseQ s)
  | _ => .nan

def showExt : Ext ℚ → String
  | .fin x => showQ x
  | .nan => "nan"
  | .pinf => "inf"
  | .ninf => "-inf"

def step (line : String) : String :=
  match Json.parse line with
  | .error _ => "bad-json"
  | .ok j =>
    match (j.getObjValAs? String "op").toOption with
    | some "load" =>
        let rows : List (List (Ext ℚ)) := match j.getObjVal? "rows" with
          | .ok (.arr a) => a.toList.map (fun r => match r with | .arr b => b.toList.map toExt | _ => [])
          | _ => []
        let resp : List ℚ := match j.getObjVal? "resp" with
          | .ok (.arr a) => a.toList.map (fun x => parseQ (x.getStr?.toOption.getD "0"))
          | _ => []
        let b (k : String) := (j.getObjValAs? Bool k).toOption.getD true
        match loadClean (b "impute") (b "rm") (b "ri") ((j.getObjValAs? Nat "m").toOption.getD 0) rows resp with
        | .error _ => "err ValueError"
        | .ok r => "ok rows=[" ++ ";".intercalate (r.rows.map (fun row => ",".intercalate (row.map showExt))) ++
            "] resp=[" ++ ",".intercalate (r.resp.map showQ) ++ "]"
    | some "weights" =>
        let ys : List Int := match j.getObjVal? "ys" with
          | .ok (.arr a) => a.toList.map (fun x => x.getInt?.toOption.getD 0)
          | _ => []
        "[" ++ ",".intercalate ((sampleWeight (K := ℚ) ys).map showQ) ++ "]"
    | _ => "bad-op"

partial def loop (h : IO.FS.Stream) : IO Unit := do
  let line ← h.getLine
  if line.isEmpty then return ()
  IO.println (step line)
  loop h

def main : IO Unit := do loop (← IO.getStdin)
