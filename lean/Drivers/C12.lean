import Lean.Data.Json
import Nanite.Model.Hash
open Lean Nanite.Hash

def hexVal (c : Char) : Nat :=
  if '0' ≤ c ∧ c ≤ '9' then c.toNat - 48 else if 'a' ≤ c ∧ c ≤ 'f' then c.toNat - 87 else 0

def unhex (s : String) : Bytes :=
  let rec go : List Char → Bytes
    | a :: b :: rest => (hexVal a * 16 + hexVal b) :: go rest
    | _ => []
  go s.toList

def hexDigit (n : Nat) : Char := if n < 10 then Char.ofNat (48 + n) else Char.ofNat (87 + n)
def tohex (b : Bytes) : String :=
  String.ofList (b.flatMap (fun x => [hexDigit (x / 16), hexDigit (x % 16)]))

def getHex (j : Json) : Bytes := match j.getStr? with | .ok s => unhex s | _ => []

instance : Inhabited PV := ⟨.none⟩

partial def toPV (j : Json) : PV :=
  if j.isNull then .none else
  match j.getObjVal? "s" with
  | .ok v => .str (getHex v)
  | _ =>
  match j.getObjVal? "t" with
  | .ok v => .tok (getHex v)
  | _ =>
  match j.getObjVal? "a" with
  | .ok v => .arr (getHex v)
  | _ =>
  match j.getObjVal? "l" with
  | .ok (.arr a) => .list (a.toList.map toPV)
  | _ =>
  match j.getObjVal? "d" with
  | .ok (.arr a) => .dict (a.toList.map (fun kv =>
      match kv with
      | .arr #[k, v] => (getHex k, toPV v)
      | _ => ([], .none)))
  | _ =>
  match j.getObjVal? "p" with
  | .ok (.arr #[v, mx, mn, vy, ex, nm]) =>
      .param (getHex v) (getHex mx) (getHex mn) (getHex vy)
        (if ex.isNull then Option.none else some (getHex ex)) (getHex nm)
  | _ => .none

def step (line : String) : String :=
  match Json.parse line with
  | .error _ => "bad-json"
  | .ok j =>
    match (j.getObjValAs? String "op").toOption with
    | some "enc" => tohex (enc (toPV (j.getObjValD "v")))
    | some "pre" =>
        let items := match j.getObjVal? "items" with
          | .ok (.arr a) => a.toList.map (fun kv =>
              match kv with
              | .arr #[k, v] => ((k.getStr?.toOption.getD ""), toPV v)
              | _ => ("", PV.none))
          | _ => []
        let ed := (j.getObjValAs? Bool "edelta").toOption.getD false
        tohex (hashPre (toPV (j.getObjValD "pre")) (toPV (j.getObjValD "opts"))
          (getHex (j.getObjValD "x")) (getHex (j.getObjValD "y")) { items := items, edelta := ed })
    | _ => "bad-op"

partial def loop (h : IO.FS.Stream) : IO Unit := do
  let line ← h.getLine
  if line.isEmpty then return ()
  IO.println (step line)
  loop h

def main : IO Unit := do loop (← IO.getStdin)
