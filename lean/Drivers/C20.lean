import Lean.Data.Json
import Nanite.Model.Loading
import Mathlib.Algebra.Order.Field.Rat
open Lean Nanite.Loading

def parseQ (s : String) : ℚ :=
  match s.splitOn "/" with
  | [n] => (n.toInt?.getD 0 : ℚ)
  | [n, d] => mkRat (n.toInt?.getD 0) (d.toNat?.getD 1)
  | _ => 0

def showQ (q : ℚ) : String := if q.den == 1 then toString q.num else toString q.num ++ "/" ++ toString q.den

def optQ (j : Json) (k : String) : Option ℚ :=
  match j.getObjVal? k with
  | .ok (.str s) => some (parseQ s)
  | _ => none

def step (line : String) : String :=
  match Json.parse line with
  | .error _ => "bad-json"
  | .ok j =>
    match (j.getObjValAs? String "op").toOption with
    | some "progress" =>
      let files : List (List ℚ) := match j.getObjVal? "files" with
        | .ok (.arr a) => a.toList.map fun f => match f with
          | .arr b => b.toList.map fun x => parseQ (x.getStr?.toOption.getD "0")
          | _ => []
        | _ => []
      ",".intercalate ((progress files).map showQ)
    | some "load" =>
      let files : List (List String) := match j.getObjVal? "files" with
        | .ok (.arr a) => a.toList.map fun f => match f with
          | .arr b => b.toList.map fun x => x.getStr?.toOption.getD ""
          | _ => []
        | _ => []
      ",".intercalate (loadData files)
    | some "append" =>
      toString (accepts ((j.getObjValAs? Bool "k").toOption.getD false) ((j.getObjValAs? Bool "tip").toOption.getD false))
    | some "qmap" =>
      let cs : List (Curve ℚ) := match j.getObjVal? "curves" with
        | .ok (.arr a) => a.toList.map fun c =>
          { xi := (c.getObjValAs? Nat "xi").toOption.getD 0, yi := (c.getObjValAs? Nat "yi").toOption.getD 0,
            fit := match optQ c "cp", optQ c "E" with
              | some cp, some e => some (cp, e)
              | _, _ => none,
            rating := optQ c "rating" }
        | _ => []
      let f := match (j.getObjValAs? String "feature").toOption with
        | some "fit: contact point" => Feature.contactPoint
        | some "fit: Young's modulus" => Feature.youngsModulus
        | _ => Feature.rating
      let xn := (j.getObjValAs? Nat "xn").toOption.getD 0
      let yn := (j.getObjValAs? Nat "yn").toOption.getD 0
      let g := mapGrid f cs
      ";".intercalate ((List.range yn).map fun y => ",".intercalate ((List.range xn).map fun x =>
        match g x y with
        | some v => showQ v
        | none => "nan"))
    | _ => "bad-op"

partial def loop (h : IO.FS.Stream) : IO Unit := do
  let line ← h.getLine
  if line.isEmpty then return ()
  IO.println (step line)
  loop h

def main : IO Unit := do loop (← IO.getStdin)
