import Lean.Data.Json
import Nanite.Model.Profile
import Nanite.Gen.Profile
import Nanite.Model.Legacy
open Lean Nanite.Profile

partial def toJV (j : Json) : JV :=
  match j.getObjVal? "s" with
  | .ok v => .s (v.getStr?.toOption.getD "")
  | _ =>
  match j.getObjVal? "n" with
  | .ok v => .n (v.getStr?.toOption.getD "")
  | _ =>
  match j.getObjVal? "b" with
  | .ok v => .b (v.getBool?.toOption.getD false)
  | _ =>
  match j.getObjVal? "l" with
  | .ok (.arr a) => .l (a.toList.map toJV)
  | _ =>
  match j.getObjVal? "d" with
  | .ok (.arr a) => .d (a.toList.map (fun kv => match kv with
      | .arr #[k, v] => (k.getStr?.toOption.getD "", toJV v)
      | _ => ("", .s "")))
  | _ => .s "?"

def sortKV (l : List (String × String)) : List (String × String) :=
  (l.toArray.qsort (fun a b => a.1 < b.1)).toList

partial def showJV : JV → String
  | .s x => "s:" ++ x
  | .n t => "n:" ++ t
  | .b x => "b:" ++ toString x
  | .l xs => "[" ++ ", ".intercalate (xs.map showJV) ++ "]"
  | .d kv => "{" ++ ", ".intercalate ((sortKV (kv.map (fun p => (p.1, showJV p.2)))).map
      (fun p => p.1 ++ "=" ++ p.2)) ++ "}"

def showFile (f : File) : String :=
  "{" ++ ", ".intercalate ((sortKV (f.map (fun p => (p.1, showJV p.2)))).map
      (fun p => p.1 ++ "=" ++ p.2)) ++ "}"

def showOut : Out → String
  | .unit => "unit"
  | .val v => "val " ++ showJV v
  | .keyErr => "err KeyError"
  | .valueErr => "err ValueError"
  | .params ps => "params " ++ ", ".intercalate (ps.map (fun p => p.1 ++ "=" ++ showJV p.2.1 ++ "/" ++ toString p.2.2))

def D := Nanite.Gen.Profile.defaults

partial def loop (h : IO.FS.Stream) (f : File) : IO Unit := do
  let line ← h.getLine
  if line.isEmpty then return ()
  match Json.parse line with
  | .error _ => IO.println "bad-json"; loop h f
  | .ok j =>
    let str (k : String) := (j.getObjValAs? String k).toOption.getD ""
    match (j.getObjValAs? String "op").toOption with
    | some "reset" => IO.println "ok"; loop h []
    | some "new" => let (f', o) := step D f .new; IO.println (showOut o); loop h f'
    | some "get" => let (f', o) := step D f (.get (str "k")); IO.println (showOut o); loop h f'
    | some "set" =>
        let (f', o) := step D f (.set (str "k") (toJV (j.getObjValD "v"))); IO.println (showOut o); loop h f'
    | some "fitparams" =>
        let md := match j.getObjVal? "md" with
          | .ok (.arr a) => a.toList.map (fun e => match e with
              | .arr #[n, v, vy] => (n.getStr?.toOption.getD "", toJV v, vy.getBool?.toOption.getD false)
              | _ => ("", .s "", false))
          | _ => []
        let (f', o) := step D f (.fitParams md); IO.println (showOut o); loop h f'
    | some "legacy" =>
        -- {"op":"legacy","lines":[...],"floats":[tokens Python's float() accepts]}
        let strs (k : String) : List String := match j.getObjVal? k with
          | .ok (.arr a) => a.toList.map (fun e => e.getStr?.toOption.getD "")
          | _ => []
        let floats := (strs "floats").map String.toList
        let isFloat (t : List Char) : Bool := floats.contains t
        match Nanite.Legacy.rawDict ((strs "lines").map String.toList) with
        | none => IO.println "err ValueError"
        | some d =>
            let out := d.map (fun kv =>
              (String.ofList kv.1, match Nanite.Legacy.typed Nanite.Gen.Profile.legacyKind isFloat kv.1 kv.2 with
                | .ok v => showJV v
                | .error .keyError => "err KeyError"
                | .error .indexError => "err IndexError"))
            IO.println ("{" ++ "; ".intercalate ((sortKV out).map (fun p => p.1 ++ " => " ++ p.2)) ++ "}")
        loop h f
    | some "file" => IO.println (showFile f); loop h f
    | some "range_type" => IO.println (storeRangeType (str "a")); loop h f
    | some "interval" =>
        let opt (k : String) := match j.getObjVal? k with
          | .ok v => if v.isNull then none else some (toJV v)
          | _ => none
        let r := storeInterval (toJV (j.getObjValD "cur0"), toJV (j.getObjValD "cur1")) (opt "left") (opt "right")
        IO.println (showJV r.1 ++ " " ++ showJV r.2); loop h f
    | _ => IO.println "bad-op"; loop h f

def main : IO Unit := do loop (← IO.getStdin) []
