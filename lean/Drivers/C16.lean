import Lean.Data.Json
import Nanite.Model.Container
open Lean Nanite.Container

def kvs (j : Json) (k : String) : List (String × String) :=
  match j.getObjVal? k with
  | .ok (.arr a) => a.toList.map (fun kv => match kv with
      | .arr #[x, y] => (x.getStr?.toOption.getD "", y.getStr?.toOption.getD "")
      | _ => ("", ""))
  | _ => []

def gs (j : Json) (k : String) : String := (j.getObjValAs? String k).toOption.getD ""

def sortS (l : List String) : List String := (l.toArray.qsort (· < ·)).toList

def showKV (l : List (String × String)) : String :=
  "{" ++ ", ".intercalate (sortS (l.map (fun p => p.1 ++ "=" ++ p.2))) ++ "}"

def dump (c : Cont) : String :=
  "data[" ++ ", ".intercalate ((sortS c.dataKeys).map (fun k =>
      match c.data k with
      | some d => k ++ ":" ++ d.tok ++ ":" ++ (d.path.getD "<nopath>")
      | none => k ++ ":<missing>")) ++ "] ana[" ++
  ", ".intercalate ((sortS c.anaKeys).map (fun k =>
      match c.ana k with
      | some g => k ++ " attrs" ++ showKV g.attrs ++ " dsets" ++ showKV g.dsets
      | none => k ++ ":<missing>")) ++ "]"

def errS : Err → String
  | .differentFit => "ValueError"
  | .injected => "Injected"
  | .keyErr => "KeyError"

partial def loop (h : IO.FS.Stream) (c : Cont) : IO Unit := do
  let line ← h.getLine
  if line.isEmpty then return ()
  match Json.parse line with
  | .error _ => IO.println "bad-json"; loop h c
  | .ok j =>
    match (j.getObjValAs? String "op").toOption with
    | some "reset" => IO.println "ok"; loop h empty
    | some "save" =>
        let cj := j.getObjValD "curve"
        let uj := j.getObjValD "user"
        let x : Curve := Curve.mk (gs cj "dhash") (gs cj "idd") (gs cj "enum") (gs cj "path") (gs cj "raw")
          (kvs cj "fitAttrs") (kvs cj "dsets")
        let u : User := User.mk (gs uj "comment") (gs uj "name") (gs uj "rate") (kvs uj "extra")
        let fault := match j.getObjVal? "fault" with
          | .ok v => if v.isNull then none else v.getNat?.toOption
          | _ => none
        let (c', o) := save c x u fault
        IO.println ((match o with | .ok _ => "ok" | .error e => "err " ++ errS e) ++ " " ++ dump c')
        loop h c'
    | some "load" =>
        IO.println (match load c with
          | .ok rs => "ok " ++ toString (sortS (rs.map (fun (r : Rating) => r.idd)))
          | .error e => "err " ++ errS e)
        loop h c
    | some "rated" => IO.println (toString (rated c (gs j "idd"))); loop h c
    | _ => IO.println "bad-op"; loop h c

def main : IO Unit := do loop (← IO.getStdin) empty
