import Lean.Data.Json
import Nanite.Model.Indent
open Lean Nanite.Indent

def toV (j : Json) : V :=
  if j.isNull then .none else
  match j.getObjVal? "t" with
  | .ok v => .tok (v.getStr?.toOption.getD "")
  | _ =>
  match j.getObjVal? "r" with
  | .ok (.arr #[t, lo, hi]) => .range (t.getBool?.toOption.getD false) (lo.getStr?.toOption.getD "") (hi.getStr?.toOption.getD "")
  | _ =>
  match j.getObjVal? "p" with
  | .ok (.arr #[m, .arr st]) => .params (m.getStr?.toOption.getD "") (st.toList.map (fun x => x.getStr?.toOption.getD ""))
  | _ =>
  match j.getObjVal? "s" with
  | .ok (.arr a) => .steps (a.toList.map (fun x => x.getNat?.toOption.getD 999))
  | _ => .none

def showV : V → String
  | .none => "None"
  | .tok s => s
  | .range t lo hi => (if t then "T(" else "L[") ++ lo ++ "," ++ hi ++ (if t then ")" else "]")
  | .params m _ => "params:" ++ ",".intercalate (paramNames m)
  | .steps l => "steps" ++ toString l

def toErr (j : Json) : Option Err :=
  match j.getStr? with
  | .ok "KeyError" => some .keyErr
  | .ok "ValueError" => some .valueErr
  | .ok "TypeError" => some .typeErr
  | .ok "FitKeyError" => some .fitKeyErr
  | .ok "FitDataError" => some .fitDataErr
  | _ => none

def errS : Err → String
  | .keyErr => "KeyError" | .valueErr => "ValueError" | .typeErr => "TypeError" | .fitKeyErr => "FitKeyError"
  | .fitDataErr => "FitDataError"

def optErrs (j : Json) : List (Option Err) :=
  match j.getObjVal? "optErr" with
  | .ok (.arr a) => a.toList.map toErr
  | _ => []

def kws (j : Json) : List (String × V) :=
  match j.getObjVal? "kw" with
  | .ok (.arr a) => a.toList.map (fun kv => match kv with
      | .arr #[k, v] => (k.getStr?.toOption.getD "", toV v)
      | _ => ("", .none))
  | _ => []

def gs (j : Json) (k : String) : String := (j.getObjValAs? String k).toOption.getD ""

def showPipe : Option Pipe → String
  | none => "raw"
  | some p => toString p.steps ++ p.opts

def obs (s : St) : String :=
  "res=" ++ toString s.res.isSome ++ " fitcols=" ++ toString s.fitCols.isSome ++ " cols=" ++ showPipe s.cols ++
  " scan=" ++ toString s.scan.isSome ++ " nfits=" ++ toString s.nfits ++ " nrates=" ++ toString s.nrates ++ " fp={" ++
  ", ".intercalate (Nanite.Gen.FitKeys.fpDefaultKeys.filterMap (fun k => (s.fp k).map (fun v => k ++ "=" ++ showV v))) ++ "}"

partial def loop (h : IO.FS.Stream) (d : Settings) (s : St) : IO Unit := do
  let line ← h.getLine
  if line.isEmpty then return ()
  match Json.parse line with
  | .error _ => IO.println "bad-json"; loop h d s
  | .ok j =>
    let fin (r : St × Except Err Unit) : IO Unit := do
      IO.println ((match r.2 with | .ok _ => "ok" | .error e => "err " ++ errS e) ++ " " ++ obs r.1)
      loop h d r.1
    match (j.getObjValAs? String "op").toOption with
    | some "defaults" =>
        let dk := kws j
        IO.println "ok"
        loop h (fun k => (dk.find? (fun p => p.1 == k)).map Prod.snd) s
    | some "new" => IO.println ("ok " ++ obs init); loop h d init
    | some "pp" =>
        let steps := match j.getObjVal? "steps" with
          | .ok (.arr a) => a.toList.map (fun x => x.getNat?.toOption.getD 999)
          | _ => []
        fin (step d s (.pp steps (gs j "opts") (optErrs j) ((j.getObjValAs? Bool "rd").toOption.getD false)))
    | some "fit" =>
        let gj := j.getObjValD "guess"
        let g : String → List String := fun m => match gj.getObjVal? m with
          | .ok (.arr a) => a.toList.map (fun x => x.getStr?.toOption.getD "")
          | _ => []
        fin (step d s (.fit (kws j) (optErrs j) g))
    | some "set" => fin (step d s (.set (gs j "key") (toV (j.getObjValD "value"))))
    | some "emod" => fin (step d s .emod)
    | some "rate" =>
        let r := rate s (gs j "r") (gs j "t") (gs j "n") (gs j "l")
        IO.println ("ok cached=" ++ toString r.2 ++ " " ++ obs r.1)
        loop h d r.1
    | _ => IO.println "bad-op"; loop h d s

def main : IO Unit := do loop (← IO.getStdin) (fun _ => none) init
