import Lean.Data.Json
import Nanite.Gen.Preproc
open Lean Nanite.Order Nanite.Gen.Preproc

def errStr : Err → String
  | .keyErr => "KeyError"
  | .valueErr => "ValueError"

def showRes : Except Err (List Nat) → String
  | .ok l => "ok " ++ toString l
  | .error e => "err " ++ errStr e

def showUnit : Except Err Unit → String
  | .ok _ => "ok"
  | .error e => "err " ++ errStr e

def getIds (j : Json) : List Nat :=
  match j.getObjVal? "ids" with
  | .ok (.arr a) => a.toList.map (fun x => (x.getNat?.toOption.getD 999))
  | _ => []

def step (line : String) : String :=
  match Json.parse line with
  | .error _ => "bad-json"
  | .ok j =>
    let ids := getIds j
    match (j.getObjValAs? String "op").toOption with
    | some "autosort" => showRes (autosort table ids)
    | some "autosort1" => showRes (autosort1 table ids)
    | some "check" => showUnit (checkOrder table ids)
    | some "apply" =>
        match autosort table table.steps with
        | .ok av => showUnit (applyOrder table av ids)
        | .error e => "err-available " ++ errStr e
    | some "available" => showRes (autosort table table.steps)
    | _ => "bad-op"

partial def loop (h : IO.FS.Stream) : IO Unit := do
  let line ← h.getLine
  if line.isEmpty then return ()
  IO.println (step line)
  loop h

def main : IO Unit := do loop (← IO.getStdin)
