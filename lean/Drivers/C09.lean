import Lean.Data.Json
import Nanite.Model.Pipeline
open Lean Nanite.Pipeline

/-- {"tree": bool, "scale": null|bool, "lda": null|bool, "reg": bool} -> step names -/
def step (line : String) : String :=
  match Json.parse line with
  | .error _ => "bad-json"
  | .ok j =>
    let ob (k : String) : Option Bool := match j.getObjVal? k with
      | .ok v => if v.isNull then none else v.getBool?.toOption
      | _ => none
    let b (k : String) : Bool := (ob k).getD false
    ",".intercalate ((steps (b "reg") (b "tree") (ob "scale") (ob "lda")).map showStep)

partial def loop (h : IO.FS.Stream) : IO Unit := do
  let line ← h.getLine
  if line.isEmpty then return ()
  IO.println (step line)
  loop h

def main : IO Unit := do loop (← IO.getStdin)
