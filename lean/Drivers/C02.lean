import Lean.Data.Json
import Nanite.Gen.ModelsF
open Lean Nanite.Gen.ModelsF

def fl (j : Json) : Float :=
  match j with
  | .num n => n.toFloat
  | .str "inf" => 1.0 / 0.0
  | .str "-inf" => -1.0 / 0.0
  | _ => 0.0 / 0.0

def args (j : Json) : Array Float :=
  match j.getObjVal? "args" with
  | .ok (.arr a) => a.map fl
  | _ => #[]

def step (line : String) : String :=
  match Json.parse line with
  | .error _ => "bad-json"
  | .ok j =>
    let a := args j
    let g (i : Nat) : Float := a.getD i 0.0
    let r : Option Float := match (j.getObjValAs? String "model").toOption with
      | some "hertz_para" => some (hertz_paraF (g 0) (g 1) (g 2) (g 3) (g 4) (g 5))
      | some "hertz_cone" => some (hertz_coneF (g 0) (g 1) (g 2) (g 3) (g 4) (g 5))
      | some "hertz_pyr3s" => some (hertz_pyr3sF (g 0) (g 1) (g 2) (g 3) (g 4) (g 5))
      | some "sneddon_spher_approx" => some (sneddon_spher_approxF (g 0) (g 1) (g 2) (g 3) (g 4) (g 5))
      | some "power_layer_clifford_2009" =>
          some (power_layer_clifford_2009F (g 0) (g 1) (g 2) (g 3) (g 4) (g 5) (g 6) (g 7) (g 8))
      | _ => none
    match r with
    | some v => toString v.toBits
    | none => "bad-model"

partial def loop (h : IO.FS.Stream) : IO Unit := do
  let line ← h.getLine
  if line.isEmpty then return ()
  IO.println (step line)
  loop h

def main : IO Unit := do loop (← IO.getStdin)
