import Lean.Data.Json
import Nanite.Model.Registry
open Lean Nanite.Registry

def strs (j : Json) (k : String) : List String :=
  match j.getObjVal? k with
  | .ok (.arr a) => a.toList.map (fun x => x.getStr?.toOption.getD "")
  | _ => []

def toDesc (j : Json) : Desc :=
  { present := strs j "present", modelKey := (j.getObjValAs? String "model_key").toOption.getD "",
    keys := strs j "keys", names := strs j "names", units := strs j "units",
    defaults := strs j "defaults", args := strs j "args", ancKeys := strs j "anc_keys",
    ancUnits := strs j "anc_units" }

def errStr : ModelErr → String
  | .incomplete => "ModelIncompleteError"
  | .implementation => "ModelImplementationError"
  | .importErr => "ModelImportError"
  | .keyErr => "KeyError"

def outStr : Out → String
  | .ok none => "ok"
  | .ok (some w) => s!"ok warn_units={w.units} warn_anc_units={w.ancUnits} warn_args={w.argOrder}"
  | .err e => "err " ++ errStr e

def sortStrs (l : List String) : List String := (l.toArray.qsort (· < ·)).toList

def showState (s : State) : String :=
  " keys=" ++ toString (sortStrs (s.reg.map Prod.fst)) ++
  " path_unchanged=" ++ toString (decide (s.interp = { path := ["<orig>"], dontWriteBytecode := false }))

def entryStr (e : Option Entry) : String :=
  match e with
  | none => "none"
  | some e => s!"residual_default={e.defaultResidual} model_default={e.defaultModel} anc={e.ancKeys}"

def toVals (j : Json) (k : String) : Vals :=
  match j.getObjVal? k with
  | .ok (.arr a) => a.toList.map (fun kv => match kv with
      | .arr #[n, v] => (n.getStr?.toOption.getD "", if v.isNull then none else v.getInt?.toOption)
      | _ => ("", none))
  | _ => []

def showVals (v : Vals) : String :=
  toString (v.map (fun p => (p.1, match p.2 with | some x => toString x | none => "nan")))

partial def loop (h : IO.FS.Stream) (s : State) : IO Unit := do
  let line ← h.getLine
  if line.isEmpty then return ()
  match Json.parse line with
  | .error _ => IO.println "bad-json"; loop h s
  | .ok j =>
    match (j.getObjValAs? String "op").toOption with
    | some "reset" =>
        IO.println "ok"
        loop h { reg := [], interp := { path := ["<orig>"], dontWriteBytecode := false } }
    | some "register" =>
        let (s', o) := step s (.register (toDesc (j.getObjValD "desc")))
        IO.println (outStr o ++ showState s'); loop h s'
    | some "deregister" =>
        let (s', o) := step s (.deregister ((j.getObjValAs? String "key").toOption.getD ""))
        IO.println (outStr o ++ showState s'); loop h s'
    | some "load" =>
        let m := j.getObjValD "desc"
        let (s', o) := step s (.load ((j.getObjValAs? String "dir").toOption.getD "")
          (if m.isNull then none else some (toDesc m))
          ((j.getObjValAs? Bool "register").toOption.getD false))
        IO.println (outStr o ++ showState s'); loop h s'
    | some "entry" =>
        IO.println (entryStr (lookup s.reg ((j.getObjValAs? String "key").toOption.getD ""))); loop h s
    | some "seed" => IO.println (showVals (seed (toVals j "params") (toVals j "anc"))); loop h s
    | _ => IO.println "bad-op"; loop h s

def main : IO Unit := do
  loop (← IO.getStdin) { reg := [], interp := { path := ["<orig>"], dontWriteBytecode := false } }
