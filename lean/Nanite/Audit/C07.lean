import Nanite.Props.C07
open Nanite.C07
#print axioms c07_tip_separation_length
#print axioms c07_tip_separation
#print axioms c07_force_offset_length
#print axioms c07_force_offset_constant
#print axioms c07_force_offset_mean_zero
#print axioms c07_force_offset_first_zero
#print axioms c07_tip_offset_length
#print axioms c07_tip_offset_zero_at_contact
#print axioms c07_tip_offset_constant
#print axioms c07_slope_length
#print axioms c07_slope_untouched
#print axioms c07_slope_no_jump
#print axioms c07_slope_linear
#print axioms c07_slope_baseline_region
#print axioms c07_slope_approach_region
#print axioms c07_ols_removes_trend
#print axioms c07_slope_removes_trend
#print axioms c07_segment_length
#print axioms c07_segment_single_switch
#print axioms c07_argmax_is_first_maximum
#print axioms c07_smooth_strictly_monotone
