import Nanite.Props.C13Defaults
open Nanite.C13D
#print axioms c13_default_weights_agree
#print axioms c13_default_weight_positive
#print axioms c13_table_denominators_positive
#print axioms c13_limits_nonempty
#print axioms c13_defaults_within_limits
#print axioms c13_thickness_limit_positive
#print axioms c13_radius_limit_is_zero
#print axioms c13_substrate_limit_is_zero
