import Nanite.Props.C10Order
open Nanite.C10Order
#print axioms sortKw_order_irrelevant
#print axioms kwGet_order_irrelevant
#print axioms c10_keyword_order_irrelevant
