import Nanite.Props.C14
import Nanite.Witness.C14
open Nanite.C14 Nanite.C14W
#print axioms c14_checkOrder_iff
#print axioms c14_apply_accepts_iff
#print axioms c14_apply_any_entry
#print axioms c14_unknown_rejected
#print axioms c14_autosort_perm
#print axioms c14_autosort_checked
#print axioms c14_all_selections_good
#print axioms c14_mem_selections
#print axioms c14_autosort_valid
#print axioms c14_autosort_fixes_valid
#print axioms c14_available_valid
#print axioms c14_counts
#print axioms c14w_single_pass_fails_174
#print axioms c14w_single_pass_example
