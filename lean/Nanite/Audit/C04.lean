import Nanite.Props.C04
open Nanite.C04
#print axioms c04_weights_range
#print axioms c04_weights_zero_iff
#print axioms c04_weights_one_iff
#print axioms c04_weights_linear
#print axioms c04_weights_off
#print axioms c04_truthy_zero
#print axioms c04_residual_weighted
#print axioms column_getElem
#print axioms c04_success_iff
#print axioms c04_fit_column
#print axioms c04_chisq
#print axioms c04_too_few_points
#print axioms c04_weights_monotone
#print axioms c04_weights_symmetric
#print axioms c04_weighted_sq_le
#print axioms c04_chisq_nonneg
#print axioms c04_chisq_weighted_le
