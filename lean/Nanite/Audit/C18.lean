import Nanite.Props.C18
import Nanite.Witness.C18
open Nanite.C18 Nanite.C18W
#print axioms c18_check_complete
#print axioms c18_missing_attr_model_error
#print axioms c18_rejected_unchanged
#print axioms c18_syspath_restored
#print axioms c18_import_error
#print axioms c18_dir_on_path_during_import
#print axioms c18_register_lookup
#print axioms c18_defaults
#print axioms c18_deregister_exact
#print axioms c18_ancillary_seed_keys
#print axioms c18_ancillary_seed_example
#print axioms c18w_remove_reorders
