import Nanite.Props.C19
import Nanite.Witness.C19
open Nanite.C19 Nanite.C19W
#print axioms c19_get_reports_eff
#print axioms c19_reads_do_not_change
#print axioms c19_new_does_not_change
#print axioms c19_get_after_set
#print axioms c19_invalid_key_refused
#print axioms c19_fit_params_exact
#print axioms c19_setup_range_type_fittable
#print axioms c19_setup_interval
#print axioms c19_defaults_keys
#print axioms c19w_right_bound_ignored
#print axioms c19w_relative_not_fittable
