import Nanite.Props.C16
import Nanite.Witness.C16
open Nanite.C16 Nanite.C16W
#print axioms c16_partial_save_loadable
#print axioms data_prefix_loadable
#print axioms save_loadable
#print axioms c16_grow_only
#print axioms loadKeys_ok
#print axioms c16_partial_save_safe
#print axioms c16_resave_different
#print axioms c16_resave_same_keeps_columns
#print axioms c16_resave_same_keeps_other_attrs
#print axioms c16_roundtrip
#print axioms c16w_partial_group_passed_old_test
