import Nanite.Props.C05
open Nanite.C05
#print axioms c05_mask_iff
#print axioms c05_zero_width
#print axioms c05_other_segment_excluded
#print axioms c05_relcp_anchor
#print axioms c05_xmin_xmax
#print axioms c05_plateau_grid_length
#print axioms c05_plateau_grid_first
#print axioms c05_plateau_grid_entry
#print axioms c05_plateau_grid_last
#print axioms c05_plateau_grid_monotone
#print axioms c05_plateau_lower_bound
#print axioms lmin_spec
#print axioms lmax_spec
#print axioms select_mem
#print axioms c05_xmin_xmax_extreme
