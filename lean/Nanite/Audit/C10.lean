import Nanite.Props.C03
import Nanite.Witness.C03
open Nanite.C03 Nanite.C03W
#print axioms c03_results_current
#print axioms c06_columns_function_of_pipeline_partial
#print axioms c03_fresh_equiv_partial
#print axioms c03w_direct_edit_of_preprocessing
