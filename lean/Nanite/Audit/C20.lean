import Nanite.Props.C20
open Nanite.C20
#print axioms c20_one_object_per_curve
#print axioms c20_file_order
#print axioms c20_append_precondition
#print axioms c20_refused_leaves_group
#print axioms c20_progress_monotone
#print axioms c20_progress_ends_at_one
#print axioms c20_pixel_value
#print axioms c20_value_at_own_pixel
#print axioms c20_feature_values
#print axioms c20_refit_is_local
