import Nanite.Props.C03Scan
open Nanite.C03Scan
#print axioms eff_idem
#print axioms c03_scan_current
#print axioms c03_scan_cached_noop
#print axioms c03_scan_error_keeps_state
#print axioms c03_scan_discarded_on_change
