import Nanite.Props.C01Real
open Nanite.C01
#print axioms c01_zero_residual_at_truth
#print axioms c01_minimiser_reproduces_data
#print axioms c01_identifiable_powerlaw
#print axioms c01_unique_minimiser
#print axioms c01_square_powerlaw
#print axioms c01_rpow32_powerlaw
#print axioms c01_hertz_para_is_plaw
#print axioms c01_hertz_cone_is_plaw
#print axioms c01_hertz_pyr3s_is_plaw
