import Nanite.Props.C19Legacy
open Nanite.C19Legacy
#print axioms strip_pad
#print axioms c19_legacy_split_first
#print axioms c19_legacy_no_equals
#print axioms c19_legacy_line
#print axioms c19_legacy_segment_approach
#print axioms c19_legacy_segment_retract
#print axioms c19_legacy_segment_other
#print axioms c19_legacy_later_wins
#print axioms c19_legacy_other_keys
#print axioms c19_legacy_str_verbatim
#print axioms c19_legacy_vary
#print axioms c19_legacy_str_roundtrip
#print axioms c19_legacy_file
#print axioms c19_legacy_file_rejects
