import Nanite.Props.C09Pipeline
open Nanite.C09Pipeline
#print axioms c09_explicit_lda_respected
#print axioms c09_explicit_scale_respected
#print axioms c09_default_pipeline
#print axioms c09_pipeline_shape
