import Nanite.Props.C15Mixed
open Nanite.C15
#print axioms c15_unrated_raw_weight_zero
#print axioms c15_unrated_weight_zero
#print axioms rawSum_pos_mixed
#print axioms c15_weights_nonneg_sum_one_mixed
