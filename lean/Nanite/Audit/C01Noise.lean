import Nanite.Props.C01Noise
open Nanite.C01Noise
#print axioms c01_ols_linear
#print axioms c01_exact_recovered
#print axioms c01_noise_proportional_fixed_cp_partial
#print axioms c01_ols_minimises
