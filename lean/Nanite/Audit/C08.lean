import Nanite.Props.C08
open Nanite.C08
#print axioms c08_clip_invariant
#print axioms c08_normalised_input_invariant
#print axioms c08_affine_invariant_deviation
#print axioms c08_affine_invariant_frechet
#print axioms c08_affine_invariant_gradient
#print axioms c08_affine_invariant_fit
#print axioms c08_compute_poc_invariant
#print axioms c08_index_valid_deviation
#print axioms c08_index_valid_frechet
#print axioms c08_index_valid_gradient
#print axioms c08_index_valid_fit
#print axioms c08_frechet_degenerate
#print axioms c08_clip_length
#print axioms c08_fallback_valid
#print axioms c08_fallback
#print axioms c08_six_estimators
#print axioms c08_deviation_exact_on_clean_curves
