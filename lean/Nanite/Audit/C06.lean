import Nanite.Props.C03
import Nanite.Witness.C03
open Nanite.C03 Nanite.C03W
#print axioms c06_rejected_not_remembered
#print axioms c06_accepted_columns
#print axioms c06_idempotent
#print axioms c06_columns_function_of_pipeline_partial
#print axioms c03w_direct_edit_of_preprocessing
