import Nanite.Props.C15
open Nanite.C15
#print axioms c15_aligned
#print axioms c15_no_nan
#print axioms c15_no_inf
#print axioms c15_finite_entries_unchanged
#print axioms c15_inf_rule
#print axioms c15_impute_rule
#print axioms c15_inf_error_branch
#print axioms c15_weights_nonneg_sum_one
#print axioms c15_class_total
