import Nanite.Props.C11
import Nanite.Props.C02
import Nanite.Witness.C11
open Nanite.C11
open Nanite.C11W
#print axioms c11_model_equiv
#print axioms c11_residual_equiv
#print axioms c11_chisq_equiv
#print axioms c11_minimisers_correspond
#print axioms c11_fit_curve_equal
#print axioms c11_noise_free_with_weights
#print axioms c11_initial_guess_measured
#print axioms c11_square_multiplicative
#print axioms c11_limits_equivalent
#print axioms c11_one_sided_limit_must_scale
#print axioms c11_limits_restored
#print axioms c11w_in_place_accumulates
-- the shipped power-law model functions (regenerated from source) have the scaling C11 relies on
open Nanite.C02 in
#print axioms c11_hertz_para_scaling
open Nanite.C02 in
#print axioms c11_hertz_cone_scaling
open Nanite.C02 in
#print axioms c11_hertz_pyr3s_scaling
