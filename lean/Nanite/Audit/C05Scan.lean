import Nanite.Props.C03Scan
open Nanite.C03Scan
#print axioms c05_scan_sample_count
