import Nanite.Props.C17
open Nanite.C17
#print axioms c17_apr_size_fraction
#print axioms c17_scale_apr_sum
#print axioms c17_nonneg_apr_sum
#print axioms c17_scale_idt_sum
#print axioms c17_nonneg_idt_sum
#print axioms c17_scale_idt_sum_75
#print axioms c17_nonneg_idt_sum_75
#print axioms c17_scale_cp_magnitude
#print axioms c17_nonneg_cp_magnitude
#print axioms c17_scale_bln_variation
#print axioms c17_nonneg_bln_variation
#print axioms c17_scale_cp_curvature
#print axioms c17_scale_bln_slope
#print axioms c17_scale_apr_flatness
#print axioms c17_apr_flatness_fraction
#print axioms c17_scale_idt_monotony
#print axioms c17_nonneg_idt_monotony
#print axioms c17_scale_spikes_count
#print axioms c17_scale_spike_area
#print axioms c17_nonneg_spike_area
#print axioms c17_scale_idt_maxima
#print axioms c17_nonneg_idt_maxima
#print axioms c17_force_free
#print axioms c17_names_sorted
#print axioms c17_names_mem
#print axioms c17_compute_order
