import Nanite.Props.C12
import Nanite.Witness.C12
open Nanite.C12 Nanite.C12W Nanite.Hash
#print axioms frames_inj
#print axioms c12_list_inj
#print axioms c12_list_single_entry
#print axioms c12_param_attrs
#print axioms c12_dict_order
#print axioms c12_dict_inj
#print axioms c12_pre_inj
#print axioms c12_data_single_sample
#print axioms c12_single_setting
#print axioms c12_ignores_nsamples
#print axioms c12_ignores_range_lo
#print axioms c12_range_matters_when_off
#print axioms c12_nsamples_matters_when_on
#print axioms c12_special_keys_exist
#print axioms c12_other_keys_enter
#print axioms c12w_concat_collision
