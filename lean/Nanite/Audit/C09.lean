import Nanite.Props.C09
open Nanite.C09 Nanite.C03
#print axioms c09_binary_fail
#print axioms c09_nan
#print axioms c09_otherwise
#print axioms c09_unfitted
#print axioms c09_tree_range
#print axioms c09_tree_range_unit
#print axioms c09_cache_sound
#print axioms c09_none_regressor
#print axioms c09_cache_reset_on_pp
#print axioms c09_repeat_cached
