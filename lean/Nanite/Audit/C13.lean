import Nanite.Props.C13
open Nanite.C13
#print axioms c13_wrap_eq
#print axioms c13_user_sees_approach_order
#print axioms c13_wrapper_shape
#print axioms c13_wrapper_pointwise
#print axioms c13_wrapper_total
#print axioms c13_wrapper_reverse_equivariant
#print axioms c13_default_residual
