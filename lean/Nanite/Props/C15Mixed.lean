import Nanite.Props.C15

/-! C15 / C09 – sample weights of a response list that also holds values outside the rating classes 0…10
(e.g. −1 for a curve that was not rated): such samples carry no weight at all, the rated ones are weighted as
before.  (Generalises `c15_weights_nonneg_sum_one` / `c15_class_total`, which assume every response in 0…10.) -/

namespace Nanite.C15
open Nanite.TrainingSet

variable {K : Type} [Field K] [LinearOrder K] [IsStrictOrderedRing K]

/-- a response outside 0…10 gets the raw weight zero … -/
theorem c15_unrated_raw_weight_zero (ys : List Int) (y : Int) (h : ¬ (0 ≤ y ∧ y ≤ 10)) :
    rawWeight (K := K) ys y = 0 := by
  unfold rawWeight
  simp [h]

/-- … and therefore the normalised weight zero, whatever the other responses are -/
theorem c15_unrated_weight_zero (ys : List Int) (w : K) (y : Int) (h : ¬ (0 ≤ y ∧ y ≤ 10))
    (hw : (y, w) ∈ ys.zip (sampleWeight (K := K) ys)) : w = 0 := by
  unfold sampleWeight at hw
  simp only [List.map_map] at hw
  have : ∀ (l : List Int) (f : Int → K) (p : Int × K), p ∈ l.zip (l.map f) → p.2 = f p.1 := by
    intro l f p hp
    induction l with
    | nil => simp at hp
    | cons x xs ih =>
      simp only [List.map_cons, List.zip_cons_cons, List.mem_cons] at hp
      rcases hp with rfl | hp
      · rfl
      · exact ih hp
  have h2 := this ys ((· / (ys.map (rawWeight (K := K) ys)).sum) ∘ rawWeight (K := K) ys) (y, w) hw
  simp only [Function.comp] at h2
  rw [h2, c15_unrated_raw_weight_zero ys y h, zero_div]

/-- with at least one rated sample the raw weights have a positive sum -/
theorem rawSum_pos_mixed (ys : List Int) (c : Int) (hc : c ∈ ys) (hr : 0 ≤ c ∧ c ≤ 10) :
    (0 : K) < (ys.map (rawWeight ys)).sum := by
  have hpos : (0 : K) < rawWeight ys c := by
    unfold rawWeight
    simp only [hr, and_self, ↓reduceIte]
    apply div_pos zero_lt_one
    have : 0 < ys.count c := List.count_pos_iff.mpr hc
    exact_mod_cast this
  have hmem : rawWeight (K := K) ys c ∈ ys.map (rawWeight ys) := List.mem_map.mpr ⟨c, hc, rfl⟩
  have hnn : ∀ x ∈ ys.map (rawWeight (K := K) ys), 0 ≤ x := by
    intro x hx
    obtain ⟨y, _, rfl⟩ := List.mem_map.mp hx
    exact rawWeight_nonneg ys y
  exact lt_of_lt_of_le hpos (List.single_le_sum hnn _ hmem)

/-- **sample weights are non-negative and sum to one as soon as one sample is rated** -/
theorem c15_weights_nonneg_sum_one_mixed (ys : List Int) (c : Int) (hc : c ∈ ys) (hr : 0 ≤ c ∧ c ≤ 10) :
    (∀ w ∈ sampleWeight (K := K) ys, 0 ≤ w) ∧ (sampleWeight (K := K) ys).sum = 1 := by
  have hpos := rawSum_pos_mixed (K := K) ys c hc hr
  constructor
  · intro w hw
    unfold sampleWeight at hw
    simp only [List.map_map, List.mem_map, Function.comp] at hw
    obtain ⟨y, _, rfl⟩ := hw
    exact div_nonneg (rawWeight_nonneg ys y) hpos.le
  · unfold sampleWeight
    simp only
    have : ∀ (l : List K) (d : K), (l.map (· / d)).sum = l.sum / d := by
      intro l d
      induction l with
      | nil => simp
      | cons x xs ih => simp [List.sum_cons, ih, add_div]
    rw [this, div_self hpos.ne']

/-- non-vacuity (ℚ): ratings 3, −1, 3, 7 -/
example : sampleWeight (K := ℚ) [3, -1, 3, 7] = [1/4, 0, 1/4, 1/2] := by
  unfold sampleWeight rawWeight
  norm_num [List.count_cons, List.count_nil]

end Nanite.C15
