/-
C13 – what the contract oracle presupposes about the REGENERATED defaults (tools/py2lean, `modeldefaults`):

* "default residuals equal data minus model times the contact-point weights": the three places that default the
  weighting distance (the residual a model gets when it defines none, `residuals.residual`,
  `compute_contact_point_weights`) name the same distance (`c13_default_weights_agree`), and it is positive;
* "parameters in bounds" is not vacuous: every declared interval is non-empty and contains the declared default
  (`c13_limits_nonempty`, `c13_defaults_within_limits`);
* the layer thickness - a divisor of the layered model - has a positive declared lower limit
  (`c13_thickness_limit_positive`).  The analogous statement for the tip radius and the substrate modulus is FALSE of
  the shipped defaults (`c13_radius_limit_is_zero`, `c13_substrate_limit_is_zero`): those are the recorded findings
  of `./check C13` (the models fail exactly there).

All by kernel evaluation over the regenerated table (finite quantifier: `decide`).
-/
import Nanite.Gen.ModelDefaults

namespace Nanite.C13D
open Nanite.Gen.ModelDefaults

/-- `a ≤ b` for exact fractions with positive denominators -/
def fle (a b : Frac) : Bool := decide (a.1 * (b.2 : Int) ≤ b.1 * (a.2 : Int))

/-- declared lower limit of a parameter of a shipped model (`none`: unbounded or unknown parameter) -/
def lowerOf (m p : String) : Option Frac :=
  (limits.find? (fun r => r.1 == m && r.2.1 == p)).bind (fun r => r.2.2.2.1)

theorem c13_default_weights_agree : weightWrapper = weightResidual ∧ weightResidual = weightFunction := by
  decide

theorem c13_default_weight_positive : 0 < weightFunction.1 ∧ 0 < weightFunction.2 := by decide

/-- every denominator of the table is positive (so `fle` is the order of the fractions) -/
theorem c13_table_denominators_positive :
    limits.all (fun r => decide (0 < r.2.2.1.2) &&
      (match r.2.2.2.1 with | some q => decide (0 < q.2) | none => true) &&
      (match r.2.2.2.2 with | some q => decide (0 < q.2) | none => true)) = true := by decide

theorem c13_limits_nonempty :
    limits.all (fun r => match r.2.2.2.1, r.2.2.2.2 with
      | some lo, some hi => fle lo hi
      | _, _ => true) = true := by decide

theorem c13_defaults_within_limits :
    limits.all (fun r =>
      (match r.2.2.2.1 with | some lo => fle lo r.2.2.1 | none => true) &&
      (match r.2.2.2.2 with | some hi => fle r.2.2.1 hi | none => true)) = true := by decide

theorem c13_thickness_limit_positive :
    (lowerOf "power_layer_clifford_2009" "t").any (fun q => decide (0 < q.1)) = true := by decide

/-- the recorded findings: these divisors may sit on a declared limit of zero -/
theorem c13_radius_limit_is_zero :
    lowerOf "sneddon_spher_approx" "R" = some (0, 1) := by decide

theorem c13_substrate_limit_is_zero :
    lowerOf "power_layer_clifford_2009" "E_S" = some (0, 1) := by decide

end Nanite.C13D
