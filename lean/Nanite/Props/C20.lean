import Nanite.Model.Loading
import Mathlib.Tactic.Ring
import Mathlib.Tactic.Linarith
import Mathlib.Tactic.Positivity
import Mathlib.Tactic.FieldSimp
/-!
# C20 – loading yields one object per recorded curve; maps put values at their pixel  (partial)
Proved about `Nanite.Model.Loading`, for every list of files and every map: the loaded list is the
concatenation of the files' curves (one object per curve, file order); the progress values handed to the
callback are non-decreasing and inside [0, 1] whenever each file reader reports non-decreasing values in
[0, 1]; a group accepts a curve iff it has a spring constant or a tip position; the map holds at each
pixel the current feature value of the last curve recorded at that pixel and NaN where there is none,
unfitted or unrated.  Not proved: the afmformats file readers (parameters), HDF5/zip I/O, warnings.
-/
set_option linter.unusedSectionVars false
namespace Nanite.C20
open Nanite.Loading
variable {K : Type} [Field K] [LinearOrder K] [IsStrictOrderedRing K]

/-! ## loading -/
/-- one object per recorded curve -/
theorem c20_one_object_per_curve {C : Type} (files : List (List C)) :
    (loadData files).length = (files.map List.length).sum := by
  simp [loadData, List.length_flatten]

/-- … in file order: the curves of every file appear contiguously, in their order, after the curves of
the earlier files -/
theorem c20_file_order {C : Type} (before : List (List C)) (file : List C) (after : List (List C)) :
    loadData (before ++ file :: after) = loadData before ++ file ++ loadData after := by
  simp [loadData]

/-- a group refuses exactly the curves that have neither a spring constant nor a tip position -/
theorem c20_append_precondition (k t : Bool) : accepts k t = false ↔ (k = false ∧ t = false) := by
  cases k <;> cases t <;> simp [accepts]

/-- a refused curve is not in the group afterwards; an accepted one is its last element -/
theorem c20_refused_leaves_group {C : Type} (g : List C) (c : C) (k t : Bool) :
    (accepts k t = false → groupAfter g c k t = g) ∧ (accepts k t = true → groupAfter g c k t = g ++ [c]) := by
  constructor <;> intro h <;> simp [groupAfter, appendCurve, h]

/-! ## progress -/
theorem progressFrom_bounds (M ii : Nat) (fs : List (List K)) (hM : ii + fs.length ≤ M) (hM0 : 0 < M)
    (h01 : ∀ f ∈ fs, ∀ x ∈ f, 0 ≤ x ∧ x ≤ 1) :
    ∀ v ∈ progressFrom M ii fs, (ii : K) / (M : K) ≤ v ∧ v ≤ 1 := by
  induction fs generalizing ii with
  | nil => simp [progressFrom]
  | cons f rest ih =>
    have hMpos : (0 : K) < (M : K) := by exact_mod_cast hM0
    intro v hv
    simp only [progressFrom, List.mem_append, List.mem_map] at hv
    rcases hv with ⟨x, hx, rfl⟩ | hv
    · obtain ⟨h0, h1⟩ := h01 f List.mem_cons_self x hx
      constructor
      · apply div_le_div_of_nonneg_right _ hMpos.le; linarith
      · rw [div_le_one hMpos]
        have : (ii : K) + 1 ≤ (M : K) := by
          have : ii + 1 ≤ M := by simp only [List.length_cons] at hM; omega
          exact_mod_cast this
        linarith
    · have := ih (ii + 1) (by simp only [List.length_cons] at hM; omega)
        (fun f' hf' => h01 f' (List.mem_cons_of_mem _ hf')) v hv
      refine ⟨le_trans ?_ this.1, this.2⟩
      apply div_le_div_of_nonneg_right _ hMpos.le
      push_cast; linarith

theorem progressFrom_sorted (M ii : Nat) (fs : List (List K)) (hM : ii + fs.length ≤ M) (hM0 : 0 < M)
    (h01 : ∀ f ∈ fs, ∀ x ∈ f, 0 ≤ x ∧ x ≤ 1) (hmono : ∀ f ∈ fs, f.Pairwise (· ≤ ·)) :
    (progressFrom M ii fs).Pairwise (· ≤ ·) := by
  induction fs generalizing ii with
  | nil => simp [progressFrom]
  | cons f rest ih =>
    have hMpos : (0 : K) < (M : K) := by exact_mod_cast hM0
    simp only [progressFrom]
    rw [List.pairwise_append]
    refine ⟨?_, ?_, ?_⟩
    · rw [List.pairwise_map]
      refine (hmono f List.mem_cons_self).imp ?_
      intro a b hab
      apply div_le_div_of_nonneg_right _ hMpos.le; linarith
    · exact ih (ii + 1) (by simp only [List.length_cons] at hM; omega)
        (fun f' hf' => h01 f' (List.mem_cons_of_mem _ hf')) (fun f' hf' => hmono f' (List.mem_cons_of_mem _ hf'))
    · intro a ha b hb
      simp only [List.mem_map] at ha
      obtain ⟨x, hx, rfl⟩ := ha
      have hb' := (progressFrom_bounds M (ii + 1) rest (by simp only [List.length_cons] at hM; omega) hM0
        (fun f' hf' => h01 f' (List.mem_cons_of_mem _ hf')) b hb).1
      refine le_trans ?_ hb'
      apply div_le_div_of_nonneg_right _ hMpos.le
      have := (h01 f List.mem_cons_self x hx).2
      push_cast; linarith

/-- **progress callbacks are non-decreasing within [0, 1]** for every number of files and every reader
that itself reports non-decreasing values in [0, 1] -/
theorem c20_progress_monotone (perFile : List (List K))
    (h01 : ∀ f ∈ perFile, ∀ x ∈ f, 0 ≤ x ∧ x ≤ 1) (hmono : ∀ f ∈ perFile, f.Pairwise (· ≤ ·)) :
    (progress perFile).Pairwise (· ≤ ·) ∧ ∀ v ∈ progress perFile, 0 ≤ v ∧ v ≤ 1 := by
  unfold progress
  cases hl : perFile.length with
  | zero =>
    have : perFile = [] := List.length_eq_zero_iff.mp hl
    subst this; simp [progressFrom]
  | succ n =>
    have h0 : 0 < n + 1 := Nat.succ_pos n
    constructor
    · exact progressFrom_sorted (n + 1) 0 perFile (by omega) h0 h01 hmono
    · intro v hv
      have := progressFrom_bounds (n + 1) 0 perFile (by omega) h0 h01 v hv
      refine ⟨le_trans ?_ this.1, this.2⟩
      simp

/-- the last file ends at exactly 1 when its reader ends at 1 -/
theorem c20_progress_ends_at_one (before : List (List K)) (last : List K) (hl : last.getLast? = some 1) :
    (progress (before ++ [last])).getLast? = some 1 := by
  unfold progress
  have key : ∀ (ii : Nat) (M : Nat) (bs : List (List K)), M = ii + bs.length + 1 →
      (progressFrom M ii (bs ++ [last])).getLast? = some 1 := by
    intro ii M bs
    induction bs generalizing ii with
    | nil =>
      intro hM
      simp only [List.nil_append, progressFrom, List.append_nil, List.getLast?_map, hl, Option.map_some]
      have : ((ii : K) + 1) = (M : K) := by rw [hM]; push_cast; simp
      have hMpos : (M : K) ≠ 0 := by
        have : 0 < M := by omega
        exact_mod_cast this.ne'
      rw [this, div_self hMpos]
    | cons b bs ih =>
      intro hM
      simp only [List.cons_append, progressFrom]
      have hrec := ih (ii + 1) (by simp only [List.length_cons] at hM; omega)
      rw [List.getLast?_append, hrec]
      simp
  exact key 0 _ before (by simp)

/-! ## quantitative maps -/
theorem foldl_mapGrid (f : Feature) (cs : List (Curve K)) (g : Nat → Nat → Option K) (x y : Nat) :
    (cs.foldl (fun g c => fun x y => if x = c.xi ∧ y = c.yi then featureValue f c else g x y) g) x y =
      match cs.reverse.find? (fun c => decide (x = c.xi ∧ y = c.yi)) with
      | some c => featureValue f c
      | none => g x y := by
  induction cs generalizing g with
  | nil => rfl
  | cons c rest ih =>
    rw [List.foldl_cons, ih, List.reverse_cons, List.find?_append]
    cases hfind : rest.reverse.find? (fun c => decide (x = c.xi ∧ y = c.yi)) with
    | some c' => simp
    | none =>
      simp only [Option.none_or, List.find?_cons, List.find?_nil]
      by_cases hc : x = c.xi ∧ y = c.yi
      · simp [hc]
      · simp [hc]

/-- **the map holds, at each pixel, the current feature value of the last curve recorded there – and
NaN where no curve was recorded** -/
theorem c20_pixel_value (f : Feature) (cs : List (Curve K)) (x y : Nat) :
    mapGrid f cs x y =
      match cs.reverse.find? (fun c => decide (x = c.xi ∧ y = c.yi)) with
      | some c => featureValue f c
      | none => none := by
  unfold mapGrid
  exact foldl_mapGrid f cs _ x y

/-- curves with distinct pixels: every curve's value is at its own pixel -/
theorem c20_value_at_own_pixel (f : Feature) (cs : List (Curve K))
    (hd : cs.Pairwise (fun a b => ¬(a.xi = b.xi ∧ a.yi = b.yi))) (c : Curve K) (hc : c ∈ cs) :
    mapGrid f cs c.xi c.yi = featureValue f c := by
  rw [c20_pixel_value]
  have hfind : cs.reverse.find? (fun c' => decide (c.xi = c'.xi ∧ c.yi = c'.yi)) = some c := by
    have hmem : c ∈ cs.reverse := List.mem_reverse.mpr hc
    have hd' : cs.reverse.Pairwise (fun a b => ¬(a.xi = b.xi ∧ a.yi = b.yi)) := by
      rw [List.pairwise_reverse]
      exact hd.imp (fun h => fun ⟨h1, h2⟩ => h ⟨h1.symm, h2.symm⟩)
    generalize cs.reverse = l at hmem hd'
    induction l with
    | nil => cases hmem
    | cons a r ih =>
      rw [List.find?_cons]
      rcases List.mem_cons.mp hmem with rfl | hm
      · simp
      · obtain ⟨ha, hr⟩ := List.pairwise_cons.mp hd'
        have : ¬(c.xi = a.xi ∧ c.yi = a.yi) := fun ⟨h1, h2⟩ => ha c hm ⟨h1.symm, h2.symm⟩
        simp only [this, decide_false]
        exact ih hm hr
  rw [hfind]

/-- unfitted curves give NaN for both fit features, unrated curves for the rating; fitted ones the
contact point in nm and the modulus in Pa -/
theorem c20_feature_values (c : Curve K) :
    (c.fit = none → featureValue .contactPoint c = none ∧ featureValue .youngsModulus c = none) ∧
    (c.rating = none → featureValue .rating c = none) ∧
    (∀ cp E, c.fit = some (cp, E) →
      featureValue .contactPoint c = some (cp * 1000000000) ∧ featureValue .youngsModulus c = some E) ∧
    (∀ r, c.rating = some r → featureValue .rating c = some r) := by
  refine ⟨?_, ?_, ?_, ?_⟩
  · intro h; simp [featureValue, h]
  · intro h; simp [featureValue, h]
  · intro cp E h; simp [featureValue, h]
  · intro r h; simp [featureValue, h]

/-- refitting / rerating a curve changes the map at its pixel only (the map is a function of the current
curve states: nothing is cached) -/
theorem c20_refit_is_local (f : Feature) (pre post : List (Curve K)) (c c' : Curve K)
    (hpix : c'.xi = c.xi ∧ c'.yi = c.yi) (x y : Nat) (hother : ¬(x = c.xi ∧ y = c.yi)) :
    mapGrid f (pre ++ c' :: post) x y = mapGrid f (pre ++ c :: post) x y := by
  rw [c20_pixel_value, c20_pixel_value]
  simp only [List.reverse_append, List.reverse_cons, List.find?_append, List.find?_cons, List.find?_nil]
  have h1 : decide (x = c.xi ∧ y = c.yi) = false := by simp [hother]
  have h2 : decide (x = c'.xi ∧ y = c'.yi) = false := by rw [hpix.1, hpix.2]; exact h1
  simp [h1, h2]

/-! non-vacuity -/
example : progress [[(0 : ℚ), 1/2, 1], [1/4, 1]] = [0, 1/4, 1/2, 5/8, 1] := by
  norm_num [progress, progressFrom]

end Nanite.C20
