import Nanite.Model.Features
import Nanite.Props.C08
import Nanite.Props.C07
import Mathlib.Data.String.Basic
import Mathlib.Tactic.Positivity
/-!
# C17 – rating features are well-defined, bounded and independent of force units  (partial)
Proved over any ordered field about `Nanite.Model.Features` (approach segment without NaN in the fit),
for every curve: each modelled feature is unchanged when force and fit are multiplied by a common
positive factor (for every Gaussian filter that is homogeneous and every standard deviation that is
positively homogeneous – the assumed behaviour of the library routines); fraction-type features lie in
[0, 1]; the arguments of the logarithms of the magnitude-type features are non-negative when the
maximal approach force is positive; names come out sorted and are exactly the requested names of the
requested types.
Not proved: `feat_con_idt_maxima_75perc` (not modelled), NaN handling inside a partially fitted
approach segment, the floating-point evaluation, the logarithm wrappers – explored by the oracle.
-/
set_option linter.unusedSectionVars false
namespace Nanite.C17
open Nanite.Poc Nanite.Preproc Nanite.Features
variable {K : Type} [Field K] [LinearOrder K] [IsStrictOrderedRing K]

/-- multiply every entry by `a` -/
def sc (a : K) (l : List K) : List K := l.map (a * ·)

/-- the assumed behaviour of the library routines -/
structure ExtOk (E : Ext K) : Prop where
  gauss_hom : ∀ (σ : Nat) (a : K) (l : List K), E.gauss σ (sc a l) = sc a (E.gauss σ l)
  sd_hom : ∀ (a : K) (l : List K), 0 < a → E.sd (sc a l) = a * E.sd l
  sd_nonneg : ∀ l : List K, 0 ≤ E.sd l

/-! ## scaling lemmas -/
@[simp] theorem sc_length (a : K) (l : List K) : (sc a l).length = l.length := by simp [sc]

theorem res_sc (a : K) (y fit : List K) : res (sc a y) (sc a fit) = sc a (res y fit) := by
  unfold res sc
  rw [List.zipWith_map, List.map_zipWith]
  congr 1
  funext f yi; ring

theorem diff_sc (a : K) (y fit : List K) :
    List.zipWith (fun yi f => yi - f) (sc a y) (sc a fit) = sc a (List.zipWith (fun yi f => yi - f) y fit) := by
  unfold sc
  rw [List.zipWith_map, List.map_zipWith]
  congr 1
  funext f yi; ring

theorem maskBy_sc (p : K → Bool) (a : K) (x v : List K) : maskBy p x (sc a v) = sc a (maskBy p x v) := by
  unfold maskBy sc
  induction x generalizing v with
  | nil => simp
  | cons x0 xs ih =>
    cases v with
    | nil => simp
    | cons v0 vs =>
      simp only [List.map_cons, List.zip_cons_cons, List.filter_cons]
      split
      · simp only [List.map_cons, ih]
      · exact ih vs

theorem maskBy_length (p : K → Bool) (a : K) (x v : List K) :
    (maskBy p x (sc a v)).length = (maskBy p x v).length := by
  rw [maskBy_sc, sc_length]

theorem sumAbs_sc (a : K) (ha : 0 < a) (l : List K) : sumAbs (sc a l) = a * sumAbs l := by
  unfold sumAbs sc
  induction l with
  | nil => simp
  | cons x xs ih =>
    simp only [List.map_cons, List.sum_cons] at ih ⊢
    rw [ih, abs_mul, abs_of_pos ha]; ring

theorem sum_sc (a : K) (l : List K) : (sc a l).sum = a * l.sum := by
  unfold sc
  induction l with
  | nil => simp
  | cons x xs ih => simp only [List.map_cons, List.sum_cons, ih]; ring

theorem sumAbs_nonneg (l : List K) : 0 ≤ sumAbs l := by
  unfold sumAbs
  induction l with
  | nil => simp
  | cons x xs ih => simp only [List.map_cons, List.sum_cons]; positivity

theorem lmax_sc (a : K) (ha : 0 < a) (l : List K) : lmax (sc a l) = (lmax l).map (a * ·) :=
  Nanite.C08.lmax_scale a ha l

theorem lmin_sc (a : K) (ha : 0 < a) (l : List K) : lmin (sc a l) = (lmin l).map (a * ·) := by
  have h : (fun x : K => a * x) = Nanite.C08.aff a 0 := by funext x; simp [Nanite.C08.aff]
  unfold sc; rw [h]; exact Nanite.C08.lmin_aff a 0 ha l

theorem argmax_sc (a : K) (ha : 0 < a) (l : List K) : argmax (sc a l) = argmax l := by
  have h : (fun x : K => a * x) = Nanite.C08.aff a 0 := by funext x; simp [Nanite.C08.aff]
  unfold sc; rw [h]; exact Nanite.C08.argmax_aff a 0 ha l

theorem gradient_sc (a : K) (l : List K) : gradient (sc a l) = sc a (gradient l) := by
  have h : (fun x : K => a * x) = Nanite.C08.aff a 0 := by funext x; simp [Nanite.C08.aff]
  have := Nanite.C08.gradient_aff a 0 l
  rw [← h] at this
  exact this

theorem mean_sc (a : K) (l : List K) : mean (sc a l) = a * mean l := by
  unfold mean; rw [sum_sc, sc_length]; ring

theorem take_sc (a : K) (n : Nat) (l : List K) : (sc a l).take n = sc a (l.take n) := by
  unfold sc; rw [List.map_take]

theorem drop_sc (a : K) (n : Nat) (l : List K) : (sc a l).drop n = sc a (l.drop n) := by
  unfold sc; rw [List.map_drop]

theorem pySlice_sc (a : K) (l : List K) (i j : Int) : pySlice (sc a l) i j = sc a (pySlice l i j) := by
  unfold pySlice
  simp only [sc_length, drop_sc, take_sc]

theorem countP_sc_pos (a : K) (ha : 0 < a) (l : List K) :
    countP (fun v => decide (v > 0)) (sc a l) = countP (fun v => decide (v > 0)) l := by
  unfold countP sc
  induction l with
  | nil => rfl
  | cons x xs ih =>
    have : decide (a * x > 0) = decide (x > 0) := by
      apply decide_eq_decide.mpr
      constructor
      · intro h; by_contra hc; have : x ≤ 0 := not_lt.mp hc; nlinarith
      · intro h; positivity
    simp only [List.map_cons, List.filter_cons, this]
    split <;> simp [ih]

theorem countP_sc_neg (a : K) (ha : 0 < a) (l : List K) :
    countP (fun v => decide (v < 0)) (sc a l) = countP (fun v => decide (v < 0)) l := by
  unfold countP sc
  induction l with
  | nil => rfl
  | cons x xs ih =>
    have : decide (a * x < 0) = decide (x < 0) := by
      apply decide_eq_decide.mpr
      constructor
      · intro h; by_contra hc; have : 0 ≤ x := not_lt.mp hc; nlinarith
      · intro h; nlinarith
    simp only [List.map_cons, List.filter_cons, this]
    split <;> simp [ih]

theorem filter_pos_sc (a : K) (ha : 0 < a) (l : List K) :
    (sc a l).filter (fun v => decide (v > 0)) = sc a (l.filter fun v => decide (v > 0)) := by
  unfold sc
  induction l with
  | nil => rfl
  | cons x xs ih =>
    have : decide (a * x > 0) = decide (x > 0) := by
      apply decide_eq_decide.mpr
      constructor
      · intro h; by_contra hc; have : x ≤ 0 := not_lt.mp hc; nlinarith
      · intro h; positivity
    simp only [List.map_cons, List.filter_cons, this]
    split <;> simp [ih]

theorem filter_neg_sc (a : K) (ha : 0 < a) (l : List K) :
    (sc a l).filter (fun v => decide (v < 0)) = sc a (l.filter fun v => decide (v < 0)) := by
  unfold sc
  induction l with
  | nil => rfl
  | cons x xs ih =>
    have : decide (a * x < 0) = decide (x < 0) := by
      apply decide_eq_decide.mpr
      constructor
      · intro h; by_contra hc; have : 0 ≤ x := not_lt.mp hc; nlinarith
      · intro h; nlinarith
    simp only [List.map_cons, List.filter_cons, this]
    split <;> simp [ih]

theorem divO_sc (a n d : K) (ha : a ≠ 0) : divO (a * n) (a * d) = divO n d := by
  unfold divO
  by_cases hd : d = 0
  · simp [hd]
  · have : a * d ≠ 0 := mul_ne_zero ha hd
    simp only [hd, this, ↓reduceIte]
    congr 1
    field_simp

theorem divO_nonneg (n d v : K) (h : divO n d = some v) (hn : 0 ≤ n) (hd : 0 ≤ d) : 0 ≤ v := by
  unfold divO at h
  split at h
  · cases h
  · injection h with h; rw [← h]; positivity

/-! ## features without library routines -/

/-- `feat_con_apr_size` is a fraction -/
theorem c17_apr_size_fraction (x : List K) (cp : K) (hne : x ≠ []) :
    0 ≤ aprSize x cp ∧ aprSize x cp ≤ 1 := by
  unfold aprSize countP
  have hn : (0 : K) < (x.length : K) := by
    have : 0 < x.length := List.length_pos_iff.mpr hne
    exact_mod_cast this
  have hle : ((x.filter fun v => decide (v > cp)).length : K) ≤ (x.length : K) := by
    exact_mod_cast List.length_filter_le _ _
  have h0 : (0 : K) ≤ ((x.filter fun v => decide (v > cp)).length : K) := Nat.cast_nonneg _
  constructor
  · rw [sub_nonneg, div_le_one hn]; exact hle
  · have : 0 ≤ ((x.filter fun v => decide (v > cp)).length : K) / (x.length : K) := div_nonneg h0 hn.le
    linarith

/-- `feat_con_apr_sum`: unchanged under a common positive factor … -/
theorem c17_scale_apr_sum (a : K) (ha : 0 < a) (x y fit : List K) (cp : K) :
    aprSumCore x (sc a y) (sc a fit) cp = aprSumCore x y fit cp := by
  unfold aprSumCore
  rw [lmax_sc a ha, res_sc, maskBy_sc, sumAbs_sc a ha]
  cases lmax y with
  | none => rfl
  | some ymax =>
    simp only [Option.map_some]
    rw [show (x.length : K) * (a * ymax) = a * ((x.length : K) * ymax) by ring, divO_sc _ _ _ ha.ne']

/-- … and its logarithm argument is non-negative when the approach force reaches positive values -/
theorem c17_nonneg_apr_sum (x y fit : List K) (cp v ymax : K) (hy : lmax y = some ymax) (hpos : 0 < ymax)
    (h : aprSumCore x y fit cp = some v) : 0 ≤ v := by
  unfold aprSumCore at h
  rw [hy] at h
  dsimp only at h
  cases hd : divO (sumAbs (maskBy (fun v => decide (v > cp)) x (res y fit))) ((x.length : K) * ymax) with
  | none => rw [hd] at h; cases h
  | some w =>
    rw [hd] at h
    injection h with h
    have h2 : (0 : K) ≤ (x.length : K) := Nat.cast_nonneg _
    have := divO_nonneg _ _ _ hd (sumAbs_nonneg _) (by positivity)
    rw [← h]; positivity

theorem c17_scale_idt_sum (a : K) (ha : 0 < a) (x y fit : List K) (cp : K) :
    idtSumCore x (sc a y) (sc a fit) cp = idtSumCore x y fit cp := by
  unfold idtSumCore
  dsimp only
  rw [lmax_sc a ha, lmin_sc a ha, diff_sc, maskBy_sc, sumAbs_sc a ha, sc_length]
  cases lmax y with
  | none => rfl
  | some ymax =>
    cases lmin y with
    | none => rfl
    | some ymin =>
      simp only [Option.map_some]
      split
      · rfl
      · have h1 : |a * ymax - a * ymin| / 2 = a * (|ymax - ymin| / 2) := by
          rw [← mul_sub, abs_mul, abs_of_pos ha]; ring
        have h2 : ∀ s n : K, a * s / n = a * (s / n) := by intro s n; ring
        rw [h1, h2, divO_sc _ _ _ ha.ne']

theorem c17_nonneg_idt_sum (x y fit : List K) (cp v : K) (h : idtSumCore x y fit cp = some v) : 0 ≤ v := by
  unfold idtSumCore at h
  dsimp only at h
  split at h
  · split at h
    · cases h
    · have h1 := sumAbs_nonneg (maskBy (fun v => decide (v < cp)) x (List.zipWith (fun yi f => yi - f) y fit))
      exact divO_nonneg _ _ _ h (by positivity) (by positivity)
  · cases h

theorem c17_scale_idt_sum_75 (a : K) (ha : 0 < a) (x y fit : List K) (cp : K) :
    idtSum75Core x (sc a y) (sc a fit) cp = idtSum75Core x y fit cp := by
  unfold idtSum75Core
  dsimp only
  rw [lmax_sc a ha, diff_sc, drop_sc, take_sc, sumAbs_sc a ha]
  cases lmax y with
  | none => rfl
  | some ymax =>
    simp only [Option.map_some]
    rw [mul_assoc a, divO_sc _ _ _ ha.ne']

theorem c17_nonneg_idt_sum_75 (x y fit : List K) (cp v ymax : K) (hy : lmax y = some ymax) (hpos : 0 < ymax)
    (h : idtSum75Core x y fit cp = some v) : 0 ≤ v := by
  unfold idtSum75Core at h
  dsimp only at h
  rw [hy] at h
  dsimp only at h
  cases hd : divO (sumAbs (((List.zipWith (fun yi f => yi - f) y fit).drop (idx75 x cp).1).take
      ((idx75 x cp).2 - (idx75 x cp).1)) * |x.getD (idx75 x cp).1 0 - x.getD (idx75 x cp).2 0|) ymax with
  | none => rw [hd] at h; cases h
  | some w =>
    rw [hd] at h
    injection h with h
    have h1 := sumAbs_nonneg (((List.zipWith (fun yi f => yi - f) y fit).drop (idx75 x cp).1).take
      ((idx75 x cp).2 - (idx75 x cp).1))
    have := divO_nonneg _ _ _ hd (by positivity) hpos.le
    rw [← h]; positivity

theorem c17_scale_cp_magnitude (a : K) (ha : 0 < a) (x y fit : List K) (cp : K) :
    cpMagnitude x (sc a y) (sc a fit) cp = cpMagnitude x y fit cp := by
  unfold cpMagnitude
  dsimp only
  rw [lmax_sc a ha, res_sc, pySlice_sc, sumAbs_sc a ha, sc_length]
  cases lmax y with
  | none => rfl
  | some ymax =>
    simp only [Option.map_some]
    rw [divO_sc _ _ _ ha.ne']

theorem c17_nonneg_cp_magnitude (x y fit : List K) (cp v ymax : K) (hy : lmax y = some ymax) (hpos : 0 < ymax)
    (h : cpMagnitude x y fit cp = some v) : 0 ≤ v := by
  unfold cpMagnitude at h
  dsimp only at h
  rw [hy] at h
  dsimp only at h
  split at h
  · cases h
  · cases hd : divO (sumAbs (pySlice (res y fit)
        (((argmin (x.map fun v => |v - cp|)).getD 0 : Nat) - ((countP (fun v => decide (v < cp)) x / 10 : Nat) : Int))
        (((argmin (x.map fun v => |v - cp|)).getD 0 : Nat) + ((countP (fun v => decide (v < cp)) x / 10 : Nat) : Int))))
        ymax with
    | none => rw [hd] at h; cases h
    | some w =>
      rw [hd] at h
      injection h with h
      have := divO_nonneg _ _ _ hd (sumAbs_nonneg _) hpos.le
      rw [← h]; positivity

theorem blnBaseline_sc (a : K) (r0 : List K) : blnBaseline (sc a r0) = sc a (blnBaseline r0) := by
  unfold blnBaseline
  rw [sc_length]
  split
  · rw [take_sc]
  · rfl

theorem c17_scale_bln_variation (a : K) (ha : 0 < a) (x y fit : List K) (cp : K) :
    blnVariationCore x (sc a y) (sc a fit) cp = blnVariationCore x y fit cp := by
  unfold blnVariationCore
  dsimp only
  rw [lmax_sc a ha, res_sc, maskBy_sc, blnBaseline_sc, sc_length]
  cases lmax y with
  | none => rfl
  | some ymax =>
    simp only [Option.map_some, take_sc, drop_sc, mean_sc]
    split
    · rw [← mul_sub, abs_mul, abs_of_pos ha, divO_sc _ _ _ ha.ne']
    · rfl

theorem c17_nonneg_bln_variation (x y fit : List K) (cp v ymax : K) (hy : lmax y = some ymax) (hpos : 0 < ymax)
    (h : blnVariationCore x y fit cp = some v) : 0 ≤ v := by
  unfold blnVariationCore at h
  dsimp only at h
  rw [hy] at h
  dsimp only at h
  split at h
  · generalize hr : blnBaseline (maskBy (fun v => decide (v > cp)) x (res y fit)) = r at h
    cases hd : divO |mean (r.take 10) - mean (r.drop (r.length - 10))| ymax with
    | none => rw [hd] at h; cases h
    | some w =>
      rw [hd] at h
      injection h with h
      have := divO_nonneg _ _ _ hd (abs_nonneg _) hpos.le
      rw [← h]; positivity
  · cases h

theorem linspace_sc (a lo hi : K) (n : Nat) : linspace (a * lo) (a * hi) n = sc a (linspace lo hi n) := by
  unfold linspace sc
  rw [List.map_map]
  apply List.map_congr_left
  intro i _
  simp only [Function.comp]
  ring

theorem zipWith_sub_sc (a : K) (u v : List K) :
    List.zipWith (fun p q => p - q) (sc a u) (sc a v) = sc a (List.zipWith (fun p q => p - q) u v) := by
  unfold sc
  rw [List.zipWith_map, List.map_zipWith]
  congr 1
  funext p q; ring

theorem c17_scale_cp_curvature (a : K) (ha : 0 < a) (x y : List K) (cp : K) :
    cpCurvatureCore x (sc a y) cp = cpCurvatureCore x y cp := by
  unfold cpCurvatureCore
  dsimp only
  rw [argmax_sc a ha, pySlice_sc, lmin_sc a ha, lmax_sc a ha, lmax_sc a ha, sc_length]
  split
  · cases lmin (pySlice y _ _) with
    | none => rfl
    | some lo =>
      cases lmax (pySlice y _ _) with
      | none => rfl
      | some hi =>
        cases lmax y with
        | none => rfl
        | some ymax =>
          simp only [Option.map_some]
          rw [linspace_sc, zipWith_sub_sc, sum_sc, divO_sc _ _ _ ha.ne']
  · rfl

/-! the least-squares slope scales with the ordinates -/
theorem olsSlope_sc (a : K) (ps : List (K × K)) :
    olsSlope (ps.map fun p => (p.1, a * p.2)) = a * olsSlope ps := by
  unfold olsSlope sxy sxx
  have hfst : (ps.map fun p => (p.1, a * p.2)).map Prod.fst = ps.map Prod.fst := by
    rw [List.map_map]; rfl
  have hsnd : (ps.map fun p => (p.1, a * p.2)).map Prod.snd = sc a (ps.map Prod.snd) := by
    unfold sc; rw [List.map_map, List.map_map]; rfl
  rw [hfst, hsnd, mean_sc, List.map_map, List.map_map]
  have h1 : ((fun p : K × K => (p.1 - mean (ps.map Prod.fst)) * (p.2 - a * mean (ps.map Prod.snd))) ∘
      fun p : K × K => (p.1, a * p.2)) =
      fun p : K × K => a * ((p.1 - mean (ps.map Prod.fst)) * (p.2 - mean (ps.map Prod.snd))) := by
    funext p; simp only [Function.comp]; ring
  have h2 : ((fun p : K × K => (p.1 - mean (ps.map Prod.fst)) ^ 2) ∘ fun p : K × K => (p.1, a * p.2)) =
      fun p : K × K => (p.1 - mean (ps.map Prod.fst)) ^ 2 := by
    funext p; rfl
  rw [h1, h2, Nanite.C07.sum_map_mul_left']
  ring

theorem zip_filter_sc (a : K) (p : K → Bool) (x v : List K) :
    ((x.zip (sc a v)).filter fun t => p t.1) = ((x.zip v).filter fun t => p t.1).map fun t => (t.1, a * t.2) := by
  unfold sc
  induction x generalizing v with
  | nil => simp
  | cons x0 xs ih =>
    cases v with
    | nil => simp
    | cons v0 vs =>
      simp only [List.map_cons, List.zip_cons_cons, List.filter_cons]
      split
      · simp only [List.map_cons, ih]
      · exact ih vs

theorem c17_scale_bln_slope (a : K) (ha : 0 < a) (x y fit : List K) (cp : K) :
    blnSlopeCore x (sc a y) (sc a fit) cp = blnSlopeCore x y fit cp := by
  unfold blnSlopeCore
  rw [lmax_sc a ha, res_sc]
  cases lmax x with
  | none => rfl
  | some xmax =>
    cases lmax y with
    | none => rfl
    | some ymax =>
      simp only [Option.map_some]
      rw [zip_filter_sc a (fun v => decide (v > (xmax + cp) / 2)), List.length_map, olsSlope_sc,
        divO_sc _ _ _ ha.ne']

/-! ## features using the Gaussian filter / the standard deviation -/

/-- `feat_con_apr_flatness` is unchanged under a common positive factor … -/
theorem c17_scale_apr_flatness (E : Ext K) (hE : ExtOk E) (a : K) (ha : 0 < a) (x y fit : List K) (cp : K) :
    aprFlatness E x (sc a y) (sc a fit) cp = aprFlatness E x y fit cp := by
  unfold aprFlatness
  dsimp only
  rw [res_sc, maskBy_sc, sc_length, hE.gauss_hom, sc_length, gradient_sc, countP_sc_pos a ha, countP_sc_neg a ha]

/-- … and is a fraction -/
theorem c17_apr_flatness_fraction (E : Ext K) (x y fit : List K) (cp v : K)
    (h : aprFlatness E x y fit cp = some v) : 0 ≤ v ∧ v ≤ 1 := by
  unfold aprFlatness at h
  dsimp only at h
  split at h
  · split at h
    · cases h
    · rename_i hne
      injection h with h
      rw [← h]
      set p := countP (fun v => decide (v > 0)) (gradient (E.gauss (max 5
        ((maskBy (fun v => decide (v > cp)) x (res y fit)).length / 120 / 2 * 2 + 1))
        (maskBy (fun v => decide (v > cp)) x (res y fit)))) with hp
      set n := countP (fun v => decide (v < 0)) (gradient (E.gauss (max 5
        ((maskBy (fun v => decide (v > cp)) x (res y fit)).length / 120 / 2 * 2 + 1))
        (maskBy (fun v => decide (v > cp)) x (res y fit)))) with hn
      have hp0 : (0 : K) ≤ (p : K) := Nat.cast_nonneg _
      have hn0 : (0 : K) ≤ (n : K) := Nat.cast_nonneg _
      have hpos : (0 : K) < (p : K) + (n : K) := by
        have : 0 < p + n := Nat.pos_of_ne_zero hne
        exact_mod_cast this
      constructor
      · positivity
      · rw [div_le_one hpos]; linarith
  · cases h

theorem c17_scale_idt_monotony (E : Ext K) (hE : ExtOk E) (a : K) (ha : 0 < a) (x y : List K) (cp : K) :
    idtMonotonyCore E x (sc a y) cp = idtMonotonyCore E x y cp := by
  unfold idtMonotonyCore
  dsimp only
  rw [maskBy_sc, hE.gauss_hom, sc_length, sc_length, gradient_sc, filter_pos_sc a ha, filter_neg_sc a ha,
    sum_sc, sum_sc, abs_mul, abs_mul, abs_of_pos ha]
  split
  · rw [show ∀ n l : K, n * (a * l) = a * (n * l) by intro n l; ring, divO_sc _ _ _ ha.ne']
  · rfl

theorem c17_nonneg_idt_monotony (E : Ext K) (x y : List K) (cp v : K)
    (h : idtMonotonyCore E x y cp = some v) : 0 ≤ v := by
  unfold idtMonotonyCore at h
  dsimp only at h
  split at h
  · have : (0 : K) ≤ ((maskBy (fun v => decide (v < cp)) x y).length : K) := Nat.cast_nonneg _
    exact divO_nonneg _ _ _ h (by positivity) (abs_nonneg _)
  · cases h

theorem spikeSignals_sc (E : Ext K) (hE : ExtOk E) (a : K) (diff : List K) :
    spikeSignals E (sc a diff) = (sc a (spikeSignals E diff).1, sc a (spikeSignals E diff).2) := by
  unfold spikeSignals
  dsimp only
  rw [hE.gauss_hom, hE.gauss_hom, zipWith_sub_sc, zipWith_sub_sc]

theorem map_gt_sc (a s : K) (ha : 0 < a) (l : List K) :
    (sc a l).map (fun v => decide (|v| > 3 * (a * s))) = l.map fun v => decide (|v| > 3 * s) := by
  unfold sc
  rw [List.map_map]
  apply List.map_congr_left
  intro v _
  simp only [Function.comp]
  apply decide_eq_decide.mpr
  rw [abs_mul, abs_of_pos ha]
  constructor
  · intro h; by_contra hc; have : |v| ≤ 3 * s := not_lt.mp hc; nlinarith
  · intro h; nlinarith

/-- `feat_bin_apr_spikes_count` is unchanged under a common positive factor -/
theorem c17_scale_spikes_count (E : Ext K) (hE : ExtOk E) (a : K) (ha : 0 < a) (x y fit : List K) (cp : K) :
    binSpikesCount E x (sc a y) (sc a fit) cp = binSpikesCount E x y fit cp := by
  unfold binSpikesCount
  dsimp only
  rw [res_sc, maskBy_sc, sc_length, spikeSignals_sc E hE]
  dsimp only
  rw [hE.sd_hom a _ ha, map_gt_sc a _ ha]

theorem filter_peaks_sc (a s : K) (ha : 0 < a) (d1 d2 : List K) :
    ((((sc a d1).zip (sc a d2)).filter fun t => decide (t.1 > 3 * (a * s))).map fun t => |t.2|) =
      sc a (((d1.zip d2).filter fun t => decide (t.1 > 3 * s)).map fun t => |t.2|) := by
  unfold sc
  induction d1 generalizing d2 with
  | nil => simp
  | cons u us ih =>
    cases d2 with
    | nil => simp
    | cons w ws =>
      have hdec : decide (a * u > 3 * (a * s)) = decide (u > 3 * s) := by
        apply decide_eq_decide.mpr
        constructor
        · intro h; by_contra hc; have : u ≤ 3 * s := not_lt.mp hc; nlinarith
        · intro h; nlinarith
      simp only [List.map_cons, List.zip_cons_cons, List.filter_cons, hdec]
      split
      · simp only [List.map_cons, ih, abs_mul, abs_of_pos ha]
      · exact ih ws

theorem c17_scale_spike_area (E : Ext K) (hE : ExtOk E) (a : K) (ha : 0 < a) (x y fit : List K) (cp : K) :
    idtSpikeAreaCore E x (sc a y) (sc a fit) cp = idtSpikeAreaCore E x y fit cp := by
  unfold idtSpikeAreaCore
  dsimp only
  rw [lmax_sc a ha, res_sc, maskBy_sc, sc_length, spikeSignals_sc E hE]
  dsimp only
  rw [hE.sd_hom a _ ha, filter_peaks_sc a _ ha, sum_sc]
  cases lmax y with
  | none => rfl
  | some ymax =>
    simp only [Option.map_some]
    split
    · rw [← mul_add, divO_sc _ _ _ ha.ne']
    · rfl

theorem c17_nonneg_spike_area (E : Ext K) (hE : ExtOk E) (x y fit : List K) (cp v ymax : K)
    (hy : lmax y = some ymax) (hpos : 0 < ymax) (h : idtSpikeAreaCore E x y fit cp = some v) : 0 ≤ v := by
  unfold idtSpikeAreaCore at h
  dsimp only at h
  rw [hy] at h
  dsimp only at h
  split at h
  · have h1 := hE.sd_nonneg (spikeSignals E (maskBy (fun v => decide (v < cp)) x (res y fit))).1
    have h2 : ∀ l : List (K × K), 0 ≤ (l.map fun t => |t.2|).sum := by
      intro l
      induction l with
      | nil => simp
      | cons t ts ih => simp only [List.map_cons, List.sum_cons]; positivity
    have h3 := h2 (((spikeSignals E (maskBy (fun v => decide (v < cp)) x (res y fit))).1.zip
      (spikeSignals E (maskBy (fun v => decide (v < cp)) x (res y fit))).2).filter
      fun t => decide (t.1 > 3 * E.sd (spikeSignals E (maskBy (fun v => decide (v < cp)) x (res y fit))).1))
    exact divO_nonneg _ _ _ h (by positivity) hpos.le
  · cases h

theorem argmin_abs_sc (a : K) (ha : 0 < a) (l : List K) :
    argmin ((sc a l).map (|·|)) = argmin (l.map (|·|)) := by
  have h : (sc a l).map (|·|) = (l.map (|·|)).map (Nanite.C08.aff a 0) := by
    unfold sc
    rw [List.map_map, List.map_map]
    apply List.map_congr_left
    intro v _
    simp only [Function.comp, Nanite.C08.aff, abs_mul, abs_of_pos ha, add_zero]
  rw [h]
  cases hl : l.map (|·|) with
  | nil => rfl
  | cons v vs => simp only [List.map_cons, argmin, Nanite.C08.argminAux_aff a 0 ha]

theorem segMax_sc (a : K) (ha : 0 < a) (r : List K) (i j : Nat) :
    segMax (sc a r) i j = (segMax r i j).map (a * ·) := by
  unfold segMax
  split
  · rw [drop_sc, take_sc]
    have : (sc a ((r.drop i).take (j - i))).map (|·|) = sc a (((r.drop i).take (j - i)).map (|·|)) := by
      unfold sc
      rw [List.map_map, List.map_map]
      apply List.map_congr_left
      intro v _
      simp only [Function.comp, abs_mul, abs_of_pos ha]
    rw [this, lmax_sc a ha]
  · rfl

theorem filterMap_three (a : K) (o1 o2 o3 : Option K) :
    [o1.map (a * ·), o2.map (a * ·), o3.map (a * ·)].filterMap id = sc a ([o1, o2, o3].filterMap id) := by
  cases o1 <;> cases o2 <;> cases o3 <;> simp [sc]

/-- `feat_con_idt_maxima_75perc` is unchanged under a common positive factor -/
theorem c17_scale_idt_maxima (E : Ext K) (hE : ExtOk E) (a : K) (ha : 0 < a) (x y fit : List K) (cp : K) :
    idtMaxima75Core E x (sc a y) (sc a fit) cp = idtMaxima75Core E x y fit cp := by
  unfold idtMaxima75Core
  dsimp only
  rw [lmax_sc a ha, diff_sc, hE.gauss_hom]
  split
  · simp only [drop_sc, take_sc, argmin_abs_sc a ha, segMax_sc a ha, filterMap_three]
    cases lmax y with
    | none => rfl
    | some ymax =>
      simp only [Option.map_some]
      have hemp : ∀ l : List K, (sc a l).isEmpty = l.isEmpty := by
        intro l; cases l <;> simp [sc]
      rw [hemp, sum_sc]
      split
      · rfl
      · rw [divO_sc _ _ _ ha.ne']
  · rfl

theorem segMax_nonneg (r : List K) (i j : Nat) (v : K) (h : segMax r i j = some v) : 0 ≤ v := by
  unfold segMax at h
  split at h
  · have hall : ∀ l : List K, ∀ w, lmax (l.map (|·|)) = some w → 0 ≤ w := by
      intro l
      induction l with
      | nil => intro w hw; simp [lmax] at hw
      | cons u us ih =>
        intro w hw
        simp only [List.map_cons, lmax] at hw
        cases hm : lmax (us.map (|·|)) with
        | none => rw [hm] at hw; injection hw with hw; rw [← hw]; exact abs_nonneg u
        | some m =>
          rw [hm] at hw; injection hw with hw; rw [← hw]
          exact le_max_of_le_left (abs_nonneg u)
    exact hall _ _ h
  · cases h

theorem c17_nonneg_idt_maxima (E : Ext K) (x y fit : List K) (cp v ymax : K) (hy : lmax y = some ymax)
    (hpos : 0 < ymax) (h : idtMaxima75Core E x y fit cp = some v) : 0 ≤ v := by
  unfold idtMaxima75Core at h
  dsimp only at h
  split at h
  · rw [hy] at h
    dsimp only at h
    split at h
    · cases h
    · refine divO_nonneg _ _ _ h ?_ hpos.le
      apply List.sum_nonneg
      intro w hw
      simp only [List.mem_filterMap, id, List.mem_cons, List.mem_nil_iff, or_false] at hw
      obtain ⟨o, ho, hw⟩ := hw
      rcases ho with rfl | rfl | rfl <;> exact segMax_nonneg _ _ _ _ hw
  · cases h

/-- the features that do not look at the force at all -/
theorem c17_force_free (x : List K) (cp : K) (a : K) (y : List K) :
    binCpPosition x cp = binCpPosition x cp ∧ binSize (sc a y) = binSize y ∧ aprSize x cp = aprSize x cp := by
  refine ⟨rfl, ?_, rfl⟩
  simp [binSize]

/-! ## names -/
theorem insertStr_perm (x : String) (l : List String) : (insertStr x l).Perm (x :: l) := by
  induction l with
  | nil => simp [insertStr]
  | cons y r ih =>
    simp only [insertStr]
    split
    · exact List.Perm.refl _
    · exact (List.Perm.cons y ih).trans (List.Perm.swap x y r)

theorem sortStr_perm (l : List String) : (sortStr l).Perm l := by
  induction l with
  | nil => exact List.Perm.refl _
  | cons x r ih => exact (insertStr_perm x (sortStr r)).trans (List.Perm.cons x ih)

theorem insertStr_sorted (x : String) (l : List String) (h : l.Pairwise (· ≤ ·)) :
    (insertStr x l).Pairwise (· ≤ ·) := by
  induction l with
  | nil => simp [insertStr]
  | cons y r ih =>
    simp only [insertStr]
    obtain ⟨hy, hr⟩ := List.pairwise_cons.mp h
    split
    · rename_i hxy
      rw [List.pairwise_cons]
      refine ⟨?_, h⟩
      intro z hz
      rcases List.mem_cons.mp hz with rfl | hz
      · exact hxy
      · exact le_trans hxy (hy z hz)
    · rename_i hxy
      have hyx : y ≤ x := le_of_lt (not_le.mp hxy)
      rw [List.pairwise_cons]
      refine ⟨?_, ih hr⟩
      intro z hz
      have := (insertStr_perm x r).mem_iff.mp hz
      rcases List.mem_cons.mp this with rfl | hz'
      · exact hyx
      · exact hy z hz'

theorem sortStr_sorted (l : List String) : (sortStr l).Pairwise (· ≤ ·) := by
  induction l with
  | nil => simp [sortStr]
  | cons x r ih => exact insertStr_sorted x _ ih

/-- **names come out sorted** for every `which_type` (string or list, in any order) and every request -/
theorem c17_names_sorted (members : List String) (which : List FType) (names : Option (List String))
    (l : List String) (h : featureNames members which names = some l) : l.Pairwise (· ≤ ·) := by
  unfold featureNames at h
  dsimp only at h
  split at h
  · split at h
    · injection h with h; rw [← h]; exact sortStr_sorted _
    · split at h
      · cases h
      · injection h with h; rw [← h]; exact sortStr_sorted _
  · injection h with h; rw [← h]; exact sortStr_sorted _

/-- … and are exactly the class members of a requested type that were requested -/
theorem c17_names_mem (members : List String) (which : List FType) (ns l : List String) (hne : ns ≠ [])
    (h : featureNames members which (some ns) = some l) (n : String) :
    n ∈ l ↔ (∃ t ∈ which, n ∈ members ∧ startsWith n t.prefix = true) ∧ n ∈ ns := by
  unfold featureNames at h
  dsimp only at h
  have : ns.isEmpty = false := by cases ns <;> simp_all
  simp only [this, Bool.false_eq_true, ↓reduceIte] at h
  split at h
  · cases h
  · injection h with h
    rw [← h, (sortStr_perm _).mem_iff]
    simp only [List.mem_filter, List.mem_flatMap, List.contains_iff_mem, decide_eq_true_eq]

/-- `compute_features` evaluates the sorted names, except that `which_type="all"` together with an
explicit list keeps the order of that list (documented in the code; the recorded known finding) -/
theorem c17_compute_order (members : List String) (which : List FType) (whichIsAll : Bool)
    (names : Option (List String)) (l : List String) (h : computeOrder members which whichIsAll names = some l) :
    l.Pairwise (· ≤ ·) ∨ (whichIsAll = true ∧ names = some l) := by
  unfold computeOrder at h
  split at h
  · split at h
    · rename_i ns hall
      injection h with h
      right; exact ⟨hall, by rw [h]⟩
    · left; exact c17_names_sorted _ _ _ _ h
  · left; exact c17_names_sorted _ _ _ _ h

end Nanite.C17
