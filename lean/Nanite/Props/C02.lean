import Nanite.Gen.Models
import Nanite.Model.Spec.Contact
import Mathlib.Tactic.Ring
import Mathlib.Tactic.FieldSimp
import Mathlib.Tactic.Linarith
/-!
# C02 – Shipped models evaluate their published contact-mechanics formulas  (partial)
The model functions are REGENERATED from the AST of `src/nanite/model/model_*.py` on every run
(`Nanite.Gen.Models`); the theorems below are re-checked against that text.  Proved over ℝ: each
model equals its documented closed form; outside contact the force is exactly the baseline;
translation, baseline and modulus laws (the shipped-model part of C13).  Not proved: the 1e-4
error bound of the truncated sphere series against the exact implicit Sneddon solution (checked on
a grid by the harness) and IEEE-754 rounding of the numpy evaluation (measured by the harness).
-/
namespace Nanite.C02
open Nanite.Gen.Models Nanite.Spec Real

/-! ## code = documented formula -/
theorem c02_hertz_para_eq_spec (δ E R ν cp b : ℝ) :
    hertz_para δ E R ν cp b = hertzPara δ E R ν cp b := by
  unfold hertz_para hertzPara
  simp only [gt_iff_lt]
  split
  · rw [show Real.rpow (cp - δ) (3 / 2) = (cp - δ) ^ ((3 : ℝ) / 2) from rfl]; ring
  · ring

theorem c02_hertz_cone_eq_spec (δ E α ν cp b : ℝ) :
    hertz_cone δ E α ν cp b = hertzCone δ E α ν cp b := by
  unfold hertz_cone hertzCone
  simp only [gt_iff_lt]
  split <;> ring

theorem c02_hertz_pyr3s_eq_spec (δ E α ν cp b : ℝ) :
    hertz_pyr3s δ E α ν cp b = hertzPyr3s δ E α ν cp b := by
  unfold hertz_pyr3s hertzPyr3s
  simp only [gt_iff_lt]
  split <;> ring

theorem c02_sneddon_spher_approx_eq_spec (δ E R ν cp b : ℝ) :
    sneddon_spher_approx δ E R ν cp b = sneddonSpherApprox δ E R ν cp b := by
  unfold sneddon_spher_approx sneddonSpherApprox sphereSeries
  simp only [gt_iff_lt]
  split
  · rw [show Real.rpow (cp - δ) (3 / 2) = (cp - δ) ^ ((3 : ℝ) / 2) from rfl]; ring
  · ring

theorem c02_power_layer_clifford_eq_spec (δ E_S E_L R nu_S nu_L t cp b : ℝ) (hR : 0 ≤ R) :
    power_layer_clifford_2009 δ E_S E_L R nu_S nu_L t cp b =
      powerLayerClifford δ E_S E_L R nu_S nu_L t cp b := by
  unfold power_layer_clifford_2009 powerLayerClifford cliffordEstar cliffordXi
  simp only [gt_iff_lt]
  split
  · rename_i h
    rw [Real.sqrt_mul hR]
    simp only [show ∀ x y : ℝ, Real.rpow x y = x ^ y from fun _ _ => rfl]
  · ring

/-! ## outside contact the force is exactly the baseline -/
theorem c02_hertz_para_noncontact (δ E R ν cp b : ℝ) (h : cp - δ ≤ 0) : hertz_para δ E R ν cp b = b := by
  unfold hertz_para; simp [not_lt.mpr h]
theorem c02_hertz_cone_noncontact (δ E α ν cp b : ℝ) (h : cp - δ ≤ 0) : hertz_cone δ E α ν cp b = b := by
  unfold hertz_cone; simp [not_lt.mpr h]
theorem c02_hertz_pyr3s_noncontact (δ E α ν cp b : ℝ) (h : cp - δ ≤ 0) : hertz_pyr3s δ E α ν cp b = b := by
  unfold hertz_pyr3s; simp [not_lt.mpr h]
theorem c02_sneddon_spher_approx_noncontact (δ E R ν cp b : ℝ) (h : cp - δ ≤ 0) :
    sneddon_spher_approx δ E R ν cp b = b := by
  unfold sneddon_spher_approx; simp [not_lt.mpr h]
theorem c02_power_layer_clifford_noncontact (δ E_S E_L R nu_S nu_L t cp b : ℝ) (h : cp - δ ≤ 0) :
    power_layer_clifford_2009 δ E_S E_L R nu_S nu_L t cp b = b := by
  unfold power_layer_clifford_2009; simp [not_lt.mpr h]

/-! ## the series of the sphere model is the one whose coefficients were extracted -/
noncomputable def evalPoly (cs : List ℚ) (x : ℝ) : ℝ :=
  (cs.zipIdx.map (fun p => (p.1 : ℝ) * x ^ p.2)).sum

theorem c02_series_is_generated_coefficients (x : ℝ) : sphereSeries x = evalPoly sneddonSeries x := by
  unfold sphereSeries evalPoly sneddonSeries
  simp [List.zipIdx]
  ring

/-! ### the coefficients are the Taylor coefficients of the exact Sneddon sphere solution
With `s = a/R`, `u = s²`:  `δ/R = s·artanh s = u·X(u)`, `X = 1 + u/3 + u²/5 + u³/7 + u⁴/9 + …`,
`F/(E*R²) = (1+s²)·artanh s − s = s³·G(u)`, `G = 4/3 + 8u/15 + 12u²/35 + 16u³/63 + 20u⁴/99 + …`.
The claim `F = 4/3·E*·√R·δ^{3/2}·P(δ/R)` is, after squaring, the identity of power series
`G² = (16/9)·X³·P(u·X)²  mod u⁵`, checked here by exact computation on coefficient lists. -/
def pmul (n : Nat) (a b : List ℚ) : List ℚ :=
  (List.range n).map (fun k => ((List.range (k + 1)).map (fun i => a.getD i 0 * b.getD (k - i) 0)).sum)

def ppow (n : Nat) (a : List ℚ) : Nat → List ℚ
  | 0 => 1 :: List.replicate (n - 1) 0
  | k + 1 => pmul n a (ppow n a k)

/-- composition `P(u·X(u))` truncated at `u^n` -/
def pcomp (n : Nat) (P X : List ℚ) : List ℚ :=
  let uX := 0 :: X
  (List.range n).map (fun k => ((List.range P.length).map (fun j => P.getD j 0 * (ppow n uX j).getD k 0)).sum)

def Xs : List ℚ := [1, 1 / 3, 1 / 5, 1 / 7, 1 / 9]
def Gs : List ℚ := [4 / 3, 8 / 15, 12 / 35, 16 / 63, 20 / 99]

theorem c02_series_coefficients :
    pmul 5 Gs Gs = (pmul 5 (pmul 5 (ppow 5 Xs 3) (pcomp 5 sneddonSeries Xs)) (pcomp 5 sneddonSeries Xs)).map
      (fun c => 16 / 9 * c) := by
  decide +kernel

/-! ## shipped-model part of the structural contract (C13) -/
theorem c13_hertz_para_translate (δ E R ν cp b s : ℝ) :
    hertz_para (δ + s) E R ν (cp + s) b = hertz_para δ E R ν cp b := by
  unfold hertz_para; simp only [add_sub_add_right_eq_sub]
theorem c13_hertz_cone_translate (δ E α ν cp b s : ℝ) :
    hertz_cone (δ + s) E α ν (cp + s) b = hertz_cone δ E α ν cp b := by
  unfold hertz_cone; simp only [add_sub_add_right_eq_sub]
theorem c13_hertz_pyr3s_translate (δ E α ν cp b s : ℝ) :
    hertz_pyr3s (δ + s) E α ν (cp + s) b = hertz_pyr3s δ E α ν cp b := by
  unfold hertz_pyr3s; simp only [add_sub_add_right_eq_sub]
theorem c13_sneddon_translate (δ E R ν cp b s : ℝ) :
    sneddon_spher_approx (δ + s) E R ν (cp + s) b = sneddon_spher_approx δ E R ν cp b := by
  unfold sneddon_spher_approx; simp only [add_sub_add_right_eq_sub]
theorem c13_clifford_translate (δ E_S E_L R nu_S nu_L t cp b s : ℝ) :
    power_layer_clifford_2009 (δ + s) E_S E_L R nu_S nu_L t (cp + s) b =
      power_layer_clifford_2009 δ E_S E_L R nu_S nu_L t cp b := by
  unfold power_layer_clifford_2009; simp only [add_sub_add_right_eq_sub]

theorem c13_hertz_para_baseline (δ E R ν cp b c : ℝ) :
    hertz_para δ E R ν cp (b + c) = hertz_para δ E R ν cp b + c := by
  unfold hertz_para; ring
theorem c13_hertz_cone_baseline (δ E α ν cp b c : ℝ) :
    hertz_cone δ E α ν cp (b + c) = hertz_cone δ E α ν cp b + c := by
  unfold hertz_cone; ring
theorem c13_hertz_pyr3s_baseline (δ E α ν cp b c : ℝ) :
    hertz_pyr3s δ E α ν cp (b + c) = hertz_pyr3s δ E α ν cp b + c := by
  unfold hertz_pyr3s; ring
theorem c13_sneddon_baseline (δ E R ν cp b c : ℝ) :
    sneddon_spher_approx δ E R ν cp (b + c) = sneddon_spher_approx δ E R ν cp b + c := by
  unfold sneddon_spher_approx; ring
theorem c13_clifford_baseline (δ E_S E_L R nu_S nu_L t cp b c : ℝ) :
    power_layer_clifford_2009 δ E_S E_L R nu_S nu_L t cp (b + c) =
      power_layer_clifford_2009 δ E_S E_L R nu_S nu_L t cp b + c := by
  unfold power_layer_clifford_2009; ring

theorem c13_hertz_para_modulus_linear (δ E R ν cp b l : ℝ) :
    hertz_para δ (l * E) R ν cp b - b = l * (hertz_para δ E R ν cp b - b) := by
  unfold hertz_para; ring
theorem c13_hertz_cone_modulus_linear (δ E α ν cp b l : ℝ) :
    hertz_cone δ (l * E) α ν cp b - b = l * (hertz_cone δ E α ν cp b - b) := by
  unfold hertz_cone; ring
theorem c13_hertz_pyr3s_modulus_linear (δ E α ν cp b l : ℝ) :
    hertz_pyr3s δ (l * E) α ν cp b - b = l * (hertz_pyr3s δ E α ν cp b - b) := by
  unfold hertz_pyr3s; ring
theorem c13_sneddon_modulus_linear (δ E R ν cp b l : ℝ) :
    sneddon_spher_approx δ (l * E) R ν cp b - b = l * (sneddon_spher_approx δ E R ν cp b - b) := by
  unfold sneddon_spher_approx; ring
/-- layered model: both moduli scaled together (ξ depends only on their ratio) -/
theorem c13_clifford_modulus_linear (δ E_S E_L R nu_S nu_L t cp b l : ℝ) (hl : l ≠ 0) :
    power_layer_clifford_2009 δ (l * E_S) (l * E_L) R nu_S nu_L t cp b - b =
      l * (power_layer_clifford_2009 δ E_S E_L R nu_S nu_L t cp b - b) := by
  unfold power_layer_clifford_2009
  simp only [mul_div_mul_left _ _ hl]
  ring

/-! ## the power-law models have the scaling used by C11 -/
theorem c11_hertz_para_scaling (δ E R ν cp b k : ℝ) (hk : 0 < k) :
    hertz_para (k * δ) E R ν (k * cp) b = hertz_para δ (E * k ^ ((3 : ℝ) / 2)) R ν cp b := by
  unfold hertz_para
  simp only [gt_iff_lt, ← mul_sub]
  by_cases h : 0 < cp - δ
  · have hk' : 0 < k * (cp - δ) := mul_pos hk h
    simp only [h, hk', ↓reduceIte]
    rw [show Real.rpow (k * (cp - δ)) (3 / 2) = (k * (cp - δ)) ^ ((3 : ℝ) / 2) from rfl,
      show Real.rpow (cp - δ) (3 / 2) = (cp - δ) ^ ((3 : ℝ) / 2) from rfl,
      Real.mul_rpow hk.le h.le]
    ring
  · have hk' : ¬ 0 < k * (cp - δ) := fun hc => h ((mul_pos_iff_of_pos_left hk).mp hc)
    simp [h, hk']

theorem c11_hertz_cone_scaling (δ E α ν cp b k : ℝ) (hk : 0 < k) :
    hertz_cone (k * δ) E α ν (k * cp) b = hertz_cone δ (E * k ^ 2) α ν cp b := by
  unfold hertz_cone
  simp only [gt_iff_lt, ← mul_sub]
  by_cases h : 0 < cp - δ
  · have hk' : 0 < k * (cp - δ) := mul_pos hk h
    simp only [h, hk', ↓reduceIte]; ring
  · have hk' : ¬ 0 < k * (cp - δ) := fun hc => h ((mul_pos_iff_of_pos_left hk).mp hc)
    simp [h, hk']

theorem c11_hertz_pyr3s_scaling (δ E α ν cp b k : ℝ) (hk : 0 < k) :
    hertz_pyr3s (k * δ) E α ν (k * cp) b = hertz_pyr3s δ (E * k ^ 2) α ν cp b := by
  unfold hertz_pyr3s
  simp only [gt_iff_lt, ← mul_sub]
  by_cases h : 0 < cp - δ
  · have hk' : 0 < k * (cp - δ) := mul_pos hk h
    simp only [h, hk', ↓reduceIte]; ring
  · have hk' : ¬ 0 < k * (cp - δ) := fun hc => h ((mul_pos_iff_of_pos_left hk).mp hc)
    simp [h, hk']

/-- force does not decrease with indentation depth (paraboloid; `0 ≤ E`, `ν² < 1`) -/
theorem c13_hertz_para_monotone_depth (E R ν cp b d₁ d₂ : ℝ) (hE : 0 ≤ E) (hν : ν ^ 2 < 1)
    (h0 : 0 ≤ d₁) (h12 : d₁ ≤ d₂) :
    hertz_para (cp - d₁) E R ν cp b ≤ hertz_para (cp - d₂) E R ν cp b := by
  rw [c02_hertz_para_eq_spec, c02_hertz_para_eq_spec]
  unfold hertzPara
  simp only [sub_sub_cancel, gt_iff_lt]
  have hA : 0 ≤ 4 / 3 * (E / (1 - ν ^ 2)) * sqrt R := by
    apply mul_nonneg (mul_nonneg (by norm_num) (div_nonneg hE (by linarith))) (sqrt_nonneg R)
  by_cases h1 : 0 < d₁
  · have h2 : 0 < d₂ := lt_of_lt_of_le h1 h12
    simp only [h1, h2, ↓reduceIte]
    have := Real.rpow_le_rpow h1.le h12 (by norm_num : (0 : ℝ) ≤ 3 / 2)
    nlinarith
  · by_cases h2 : 0 < d₂
    · simp only [h1, h2, ↓reduceIte]
      have := Real.rpow_nonneg h2.le ((3 : ℝ) / 2)
      nlinarith [mul_nonneg hA this]
    · simp [h1, h2]

end Nanite.C02
