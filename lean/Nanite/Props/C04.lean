import Nanite.Model.Fitter
import Mathlib.Tactic.Ring
import Mathlib.Tactic.Linarith
/-!
# C04 – Reported fit outputs are mutually consistent  (partial)
Proved: the contact-point weights, the `fit` / `fit residuals` columns, chi-square and the
failure branch of `_fit`, for every array, mask, correction factor and weighting distance, over
any ordered field.  Not proved (guarantees of lmfit, explored by the oracle): fixed parameters
keep their value, varied ones stay in bounds, expressions hold; `fit.chisqr` is lmfit's number.
-/
namespace Nanite.C04
open Nanite.Residual Nanite.Fitter
variable {K : Type} [Field K] [LinearOrder K] [IsStrictOrderedRing K]

theorem c04_weights_range (cp wd x : K) (h : 0 < wd) :
    0 ≤ cpWeight cp wd x ∧ cpWeight cp wd x ≤ 1 := by
  unfold cpWeight
  split
  · exact ⟨zero_le_one, le_refl 1⟩
  · rename_i hgt
    exact ⟨div_nonneg (abs_nonneg _) h.le, not_lt.mp hgt⟩

/-- the weight is 0 exactly at the contact point … -/
theorem c04_weights_zero_iff (cp wd x : K) (h : 0 < wd) : cpWeight cp wd x = 0 ↔ x = cp := by
  unfold cpWeight
  split
  · constructor
    · intro h1; exact absurd h1 one_ne_zero
    · intro h1; subst h1; rename_i hgt; simp at hgt; exact absurd hgt (by norm_num)
  · rw [div_eq_zero_iff, abs_eq_zero, sub_eq_zero]
    constructor
    · rintro (h1 | h1)
      · exact h1
      · exact absurd h1 h.ne'
    · intro h1; exact Or.inl h1

/-- … 1 exactly from the weighting distance on … -/
theorem c04_weights_one_iff (cp wd x : K) (h : 0 < wd) : cpWeight cp wd x = 1 ↔ wd ≤ |x - cp| := by
  unfold cpWeight
  split
  · rename_i hgt
    have : wd < |x - cp| := by rwa [gt_iff_lt, lt_div_iff₀ h, one_mul] at hgt
    exact ⟨fun _ => this.le, fun _ => rfl⟩
  · rename_i hgt
    rw [div_eq_one_iff_eq h.ne']
    constructor
    · intro h1; exact h1.ge
    · intro h1
      have : |x - cp| / wd ≤ 1 := not_lt.mp hgt
      rw [div_le_one h] at this
      exact le_antisymm this h1

/-- … and rises linearly in between -/
theorem c04_weights_linear (cp wd x : K) (h : 0 < wd) (h2 : |x - cp| ≤ wd) :
    cpWeight cp wd x = |x - cp| / wd := by
  unfold cpWeight
  have : ¬ (|x - cp| / wd > 1) := by
    rw [gt_iff_lt, not_lt, div_le_one h]; exact h2
  simp [this]

/-- weighting off: the residual is data minus model -/
theorem c04_weights_off (model : K → K) (cp x y : K) : resid model none cp x y = y - model x := rfl

theorem c04_truthy_zero : truthy (0 : K) = none := by simp [truthy]

/-- weighting on: data minus model times the weight -/
theorem c04_residual_weighted (model : K → K) (wd cp x y : K) :
    resid model (some wd) cp x y = (y - model x) * cpWeight cp wd x := rfl

theorem column_getElem (seg : List Bool) (vals : List K) (i : Nat) (h1 : i < seg.length)
    (h2 : i < vals.length) :
    (column seg vals)[i]? = some (if seg[i] then some vals[i] else none) := by
  simp [column, List.getElem?_zipWith, List.getElem?_eq_getElem h1, List.getElem?_eq_getElem h2]

theorem fitOut_pos (model : K → K) (cpk : K) (w : Option K) (k : K) (nv : Nat)
    (seg used : List Bool) (xs ys : List K) (h : enough nv used xs = true) :
    fitOut model cpk w k nv seg used xs ys =
      { success := true,
        fit := column seg ((xs.map (k * ·)).map model),
        res := column seg (resVals model cpk w k xs ys),
        chiSqr := some ((select used (resVals model cpk w k xs ys)).map (fun r => r * r)).sum,
        xmin := (lmin ((select used xs).map (k * ·))).map (· / k),
        xmax := (lmax ((select used xs).map (k * ·))).map (· / k) } := by
  simp [fitOut, h]

theorem fitOut_neg (model : K → K) (cpk : K) (w : Option K) (k : K) (nv : Nat)
    (seg used : List Bool) (xs ys : List K) (h : enough nv used xs = false) :
    fitOut model cpk w k nv seg used xs ys =
      { success := false, fit := seg.map (fun _ => none), res := seg.map (fun _ => none),
        chiSqr := none, xmin := none, xmax := none } := by
  simp [fitOut, h]

/-- the success branch is taken exactly when there are enough points for the varied parameters -/
theorem c04_success_iff (model : K → K) (cpk : K) (w : Option K) (k : K) (nv : Nat)
    (seg used : List Bool) (xs ys : List K) :
    (fitOut model cpk w k nv seg used xs ys).success = true ↔ nv + 1 < (select used xs).length := by
  cases h : enough nv used xs
  · rw [fitOut_neg _ _ _ _ _ _ _ _ _ h]
    simp only [enough, decide_eq_false_iff_not] at h
    simp [h]
  · rw [fitOut_pos _ _ _ _ _ _ _ _ _ h]
    simp only [enough, decide_eq_true_eq] at h
    simp [h]

/-- **the columns of a successful fit**: inside the segment `fit` is the model at the reported
parameters evaluated at the (k-scaled) abscissa and `fit residuals` is the weighted difference
to the data; outside the segment both are NaN -/
theorem c04_fit_column (model : K → K) (cpk : K) (w : Option K) (k : K) (nv : Nat)
    (seg used : List Bool) (xs ys : List K) (hlen : seg.length = xs.length)
    (hlen2 : ys.length = xs.length)
    (hs : (fitOut model cpk w k nv seg used xs ys).success = true) (i : Nat) (hi : i < xs.length) :
    (fitOut model cpk w k nv seg used xs ys).fit[i]? =
      some (if seg[i]'(hlen ▸ hi) then some (model (k * xs[i])) else none) ∧
    (fitOut model cpk w k nv seg used xs ys).res[i]? =
      some (if seg[i]'(hlen ▸ hi) then some (resid model w cpk (k * xs[i]) (ys[i]'(hlen2 ▸ hi)))
            else none) := by
  have he : enough nv used xs = true := by
    cases h : enough nv used xs
    · rw [fitOut_neg _ _ _ _ _ _ _ _ _ h] at hs; simp at hs
    · rfl
  rw [fitOut_pos _ _ _ _ _ _ _ _ _ he]
  constructor
  · rw [column_getElem _ _ i (hlen ▸ hi) (by simpa using hi)]
    simp
  · rw [column_getElem _ _ i (hlen ▸ hi) (by simp [resVals, hi, hlen2])]
    simp [resVals]

/-- chi-square is the sum of the squared residuals over the points used -/
theorem c04_chisq (model : K → K) (cpk : K) (w : Option K) (k : K) (nv : Nat)
    (seg used : List Bool) (xs ys : List K)
    (hs : (fitOut model cpk w k nv seg used xs ys).success = true) :
    (fitOut model cpk w k nv seg used xs ys).chiSqr =
      some (((select used (resVals model cpk w k xs ys)).map (fun r => r * r)).sum) := by
  have he : enough nv used xs = true := by
    cases h : enough nv used xs
    · rw [fitOut_neg _ _ _ _ _ _ _ _ _ h] at hs; simp at hs
    · rfl
  rw [fitOut_pos _ _ _ _ _ _ _ _ _ he]

/-- an unsuccessful fit (too few points for the varied parameters) leaves NaN columns and
`success = False` instead of stale numbers -/
theorem c04_too_few_points (model : K → K) (cpk : K) (w : Option K) (k : K) (nv : Nat)
    (seg used : List Bool) (xs ys : List K)
    (h : ¬ (nv + 1 < (select used xs).length)) :
    (fitOut model cpk w k nv seg used xs ys).success = false ∧
    (∀ v ∈ (fitOut model cpk w k nv seg used xs ys).fit, v = none) ∧
    (∀ v ∈ (fitOut model cpk w k nv seg used xs ys).res, v = none) ∧
    (fitOut model cpk w k nv seg used xs ys).chiSqr = none := by
  have he : enough nv used xs = false := by simp [enough, h]
  rw [fitOut_neg _ _ _ _ _ _ _ _ _ he]
  refine ⟨rfl, ?_, ?_, rfl⟩ <;> intro v hv <;> simp at hv <;> exact hv.2.symm

/-- the weights *rise*: a point farther from the contact point never weighs less -/
theorem c04_weights_monotone (cp wd x x' : K) (h : 0 < wd) (hx : |x - cp| ≤ |x' - cp|) :
    cpWeight cp wd x ≤ cpWeight cp wd x' := by
  have hdiv : |x - cp| / wd ≤ |x' - cp| / wd := div_le_div_of_nonneg_right hx h.le
  unfold cpWeight
  split
  · rename_i h1
    have : |x' - cp| / wd > 1 := lt_of_lt_of_le h1 hdiv
    simp [this]
  · rename_i h1
    split
    · exact not_lt.mp h1
    · exact hdiv

/-- the weights depend on the distance to the contact point only (same on both sides) -/
theorem c04_weights_symmetric (cp wd d : K) : cpWeight cp wd (cp + d) = cpWeight cp wd (cp - d) := by
  unfold cpWeight
  have : |cp + d - cp| = |cp - d - cp| := by
    rw [add_sub_cancel_left, sub_sub_cancel_left, abs_neg]
  rw [this]

/-- weighting never enlarges a residual: pointwise the weighted square is at most the
unweighted one, with equality from the weighting distance on -/
theorem c04_weighted_sq_le (model : K → K) (wd cp x y : K) (h : 0 < wd) :
    resid model (some wd) cp x y * resid model (some wd) cp x y ≤
      resid model none cp x y * resid model none cp x y := by
  obtain ⟨h0, h1⟩ := c04_weights_range cp wd x h
  simp only [resid]
  have hw : cpWeight cp wd x * cpWeight cp wd x ≤ 1 := by
    calc cpWeight cp wd x * cpWeight cp wd x ≤ 1 * 1 := mul_le_mul h1 h1 h0 zero_le_one
      _ = 1 := one_mul 1
  have hsq : 0 ≤ (y - model x) * (y - model x) := mul_self_nonneg _
  calc (y - model x) * cpWeight cp wd x * ((y - model x) * cpWeight cp wd x)
      = (y - model x) * (y - model x) * (cpWeight cp wd x * cpWeight cp wd x) := by ring
    _ ≤ (y - model x) * (y - model x) * 1 := mul_le_mul_of_nonneg_left hw hsq
    _ = (y - model x) * (y - model x) := mul_one _

theorem sum_sq_nonneg (l : List K) : 0 ≤ (l.map (fun r => r * r)).sum := by
  induction l with
  | nil => simp
  | cons a l ih => simpa using add_nonneg (mul_self_nonneg a) ih

theorem sum_sq_eq_zero (l : List K) : (l.map (fun r => r * r)).sum = 0 ↔ ∀ r ∈ l, r = 0 := by
  induction l with
  | nil => simp
  | cons a l ih =>
    simp only [List.map_cons, List.sum_cons, List.mem_cons, forall_eq_or_imp]
    constructor
    · intro h
      have h1 : a * a = 0 := by
        have := sum_sq_nonneg l; have := mul_self_nonneg a; linarith
      have h2 : (l.map (fun r => r * r)).sum = 0 := by rw [h1, zero_add] at h; exact h
      exact ⟨mul_self_eq_zero.mp h1, ih.mp h2⟩
    · rintro ⟨h1, h2⟩
      rw [h1, ih.mpr h2]; simp

/-- chi-square of a successful fit is never negative, and it is zero exactly when every
residual over the points used vanishes -/
theorem c04_chisq_nonneg (model : K → K) (cpk : K) (w : Option K) (k : K) (nv : Nat)
    (seg used : List Bool) (xs ys : List K)
    (hs : (fitOut model cpk w k nv seg used xs ys).success = true) :
    ∃ c, (fitOut model cpk w k nv seg used xs ys).chiSqr = some c ∧ 0 ≤ c ∧
      (c = 0 ↔ ∀ r ∈ select used (resVals model cpk w k xs ys), r = 0) := by
  refine ⟨_, c04_chisq model cpk w k nv seg used xs ys hs, sum_sq_nonneg _, sum_sq_eq_zero _⟩

theorem select_sum_sq_le (used : List Bool) (a b : List K)
    (h : List.Forall₂ (fun p q => p * p ≤ q * q) a b) :
    ((select used a).map (fun r => r * r)).sum ≤ ((select used b).map (fun r => r * r)).sum := by
  induction h generalizing used with
  | nil => cases used <;> simp [select]
  | cons hpq _ ih =>
    cases used with
    | nil => simp [select]
    | cons m ms =>
      cases m
      · simpa [select] using ih ms
      · simpa [select] using add_le_add hpq (ih ms)

theorem resVals_forall₂ (model : K → K) (cpk wd k : K) (h : 0 < wd) (xs ys : List K) :
    List.Forall₂ (fun p q => p * p ≤ q * q) (resVals model cpk (some wd) k xs ys)
      (resVals model cpk none k xs ys) := by
  unfold resVals
  induction xs generalizing ys with
  | nil => simp
  | cons x xs ih =>
    cases ys with
    | nil => simp
    | cons y ys =>
      simp only [List.map_cons, List.zipWith_cons_cons]
      exact List.Forall₂.cons (c04_weighted_sq_le model wd cpk (k * x) y h) (ih ys)

/-- **weighting never increases chi-square**: over the same points and at the same parameters the
weighted sum of squares is bounded by the unweighted one -/
theorem c04_chisq_weighted_le (model : K → K) (cpk wd k : K) (h : 0 < wd)
    (used : List Bool) (xs ys : List K) :
    ((select used (resVals model cpk (some wd) k xs ys)).map (fun r => r * r)).sum ≤
      ((select used (resVals model cpk none k xs ys)).map (fun r => r * r)).sum :=
  select_sum_sq_le used _ _ (resVals_forall₂ model cpk wd k h xs ys)


/-! non-vacuity (ℚ) -/
example : cpWeight (0 : ℚ) 2 1 = 1 / 2 ∧ cpWeight (0 : ℚ) 2 5 = 1 ∧ cpWeight (0 : ℚ) 2 0 = 0 := by
  refine ⟨?_, ?_, ?_⟩ <;> norm_num [cpWeight]

example : cpWeight (0 : ℚ) 2 1 ≤ cpWeight (0 : ℚ) 2 (-3) ∧ cpWeight (0 : ℚ) 2 (0 + 1) = cpWeight (0 : ℚ) 2 (0 - 1) := by
  refine ⟨?_, ?_⟩ <;> norm_num [cpWeight]

end Nanite.C04
