import Nanite.Model.Registry
/-!
# C18 – Model registry accepts only complete, consistent models and stays consistent
Theorems about `Nanite.Model.Registry`; the attribute lists are regenerated from the AST of
`_module_check` (`Nanite.Gen.ModelAttrs`).
-/
namespace Nanite.C18
open Nanite.Registry Nanite.Gen.ModelAttrs

/-- the conjunction the property lists -/
def WellFormed (d : Desc) : Prop :=
  (∀ a ∈ required, a ∈ d.present) ∧
  ("compute_ancillaries" ∈ d.present → ∀ a ∈ requiredAnc, a ∈ d.present) ∧
  d.keys.length = d.names.length ∧ d.keys.length = d.units.length ∧
  d.names.eraseDups.length = d.names.length ∧ d.keys = d.defaults

theorem isOk_iff {ε α} (x : Except ε α) : (∃ w, x = .ok w) ↔ (match x with | .ok _ => True | .error _ => False) := by
  cases x <;> simp

/-- a module is accepted iff it is well-formed -/
theorem c18_check_complete (d : Desc) : (∃ w, moduleCheck d = .ok w) ↔ WellFormed d := by
  unfold moduleCheck WellFormed
  by_cases h1 : required.any (fun a => !d.present.contains a) = true
  · simp only [h1, ↓reduceIte, reduceCtorEq, exists_false, false_iff]
    intro h
    simp only [List.any_eq_true, Bool.not_eq_eq_eq_not, Bool.not_true] at h1
    obtain ⟨a, ha, hc⟩ := h1
    have := h.1 a ha
    simp_all
  · have h1' : ∀ a ∈ required, a ∈ d.present := by
      intro a ha
      simp only [List.any_eq_true, not_exists, not_and, Bool.not_eq_eq_eq_not, Bool.not_true] at h1
      have := h1 a ha
      simpa using this
    simp only [h1, Bool.false_eq_true, ↓reduceIte]
    by_cases h2 : (d.present.contains "compute_ancillaries" &&
        requiredAnc.any (fun a => !d.present.contains a)) = true
    · simp only [h2, ↓reduceIte, reduceCtorEq, exists_false, false_iff]
      intro h
      simp only [Bool.and_eq_true, List.contains_eq_mem, decide_eq_true_eq, List.any_eq_true,
        Bool.not_eq_eq_eq_not, Bool.not_true, decide_eq_false_iff_not] at h2
      obtain ⟨hc, a, ha, hn⟩ := h2
      exact hn (h.2.1 hc a ha)
    · have h2' : "compute_ancillaries" ∈ d.present → ∀ a ∈ requiredAnc, a ∈ d.present := by
        intro hc a ha
        simp only [Bool.and_eq_true, List.contains_eq_mem, decide_eq_true_eq, List.any_eq_true,
          Bool.not_eq_eq_eq_not, Bool.not_true, decide_eq_false_iff_not, not_and, not_exists,
          Decidable.not_not] at h2
        exact h2 hc a ha
      simp only [h2, Bool.false_eq_true, ↓reduceIte, bne_iff_ne, ne_eq, ite_not]
      by_cases h3 : d.keys.length = d.names.length
      · by_cases h4 : d.keys.length = d.units.length
        · by_cases h5 : d.names.eraseDups.length = d.names.length
          · by_cases h6 : d.defaults.length = d.keys.length
            · by_cases h7 : d.keys = d.defaults
              · rw [if_pos h3, if_pos h4, if_pos h5, if_pos h6, if_pos h7]
                exact ⟨fun _ => ⟨h1', h2', h3, h4, h5, h7⟩, fun _ => ⟨_, rfl⟩⟩
              · rw [if_pos h3, if_pos h4, if_pos h5, if_pos h6, if_neg h7]
                exact ⟨fun ⟨w, hw⟩ => (by cases hw), fun h => absurd h.2.2.2.2.2 h7⟩
            · rw [if_pos h3, if_pos h4, if_pos h5, if_neg h6]
              exact ⟨fun ⟨w, hw⟩ => (by cases hw), fun h => absurd (by rw [h.2.2.2.2.2]) h6⟩
          · rw [if_pos h3, if_pos h4, if_neg h5]
            exact ⟨fun ⟨w, hw⟩ => (by cases hw), fun h => absurd h.2.2.2.2.1 h5⟩
        · rw [if_pos h3, if_neg h4]
          exact ⟨fun ⟨w, hw⟩ => (by cases hw), fun h => absurd h.2.2.2.1 h4⟩
      · rw [if_neg h3]
        exact ⟨fun ⟨w, hw⟩ => (by cases hw), fun h => absurd h.2.2.1 h3⟩

/-- a module lacking any required attribute is rejected with the *incomplete* model error -/
theorem c18_missing_attr_model_error (d : Desc) (a : String) (ha : a ∈ required)
    (hm : a ∉ d.present) : moduleCheck d = .error .incomplete := by
  unfold moduleCheck
  have : required.any (fun a => !d.present.contains a) = true := by
    simp only [List.any_eq_true, Bool.not_eq_eq_eq_not, Bool.not_true]
    exact ⟨a, ha, by simpa using hm⟩
  rw [if_pos this]

/-- every rejection is a model error (never another exception) and leaves the whole state
(registry, import path, bytecode flag) unchanged -/
theorem c18_rejected_unchanged (s : State) (op : Op) (e : ModelErr)
    (h : (step s op).2 = .err e) : (step s op).1 = s := by
  cases op with
  | register d =>
    simp only [step] at h ⊢
    cases hc : moduleCheck d with
    | ok w => simp [hc] at h
    | error e' => simp [hc]
  | deregister k =>
    simp only [step] at h ⊢
    split
    · rename_i hk; simp [hk] at h
    · rfl
  | load dir m reg =>
    simp only [step] at h ⊢
    cases m with
    | none => rfl
    | some d =>
      simp only at h ⊢
      cases hc : moduleCheck d with
      | error e' => simp [hc]
      | ok w =>
        simp only [hc] at h
        split at h <;> simp at h

/-- no operation ever changes the interpreter's import path or bytecode flag; a file that
cannot be imported raises the import error -/
theorem c18_syspath_restored (s : State) (ops : List Op) : (run s ops).interp = s.interp := by
  induction ops generalizing s with
  | nil => rfl
  | cons op ops ih =>
    simp only [run, List.foldl_cons] at ih ⊢
    rw [ih]
    cases op with
    | register d => simp only [step]; split <;> rfl
    | deregister k => simp only [step]; split <;> rfl
    | load dir m reg =>
      simp only [step]
      cases m with
      | none => rfl
      | some d =>
        simp only
        split
        · rfl
        · split <;> rfl

theorem c18_import_error (s : State) (dir : String) (reg : Bool) :
    step s (.load dir none reg) = (s, .err .importErr) := rfl

/-- while the file is being imported its directory is on the path -/
theorem c18_dir_on_path_during_import (p : List String) (dir : String) :
    dir ∈ pathDuringImport p dir := by
  unfold pathDuringImport
  exact List.mem_insertIdx (by omega) |>.mpr (Or.inl rfl)

theorem find_filter_ne (r : Reg) (k k' : String) (hk : k' ≠ k) :
    (r.filter (fun p => p.1 != k)).find? (fun p => p.1 == k') = r.find? (fun p => p.1 == k') := by
  induction r with
  | nil => rfl
  | cons p ps ih =>
    by_cases hp : p.1 = k
    · have h1 : (p.1 != k) = false := by simp [hp]
      have h2 : (p.1 == k') = false := by simp [hp, Ne.symm hk]
      rw [List.filter_cons, h1, List.find?_cons, h2]
      simpa using ih
    · have h1 : (p.1 != k) = true := by simp [hp]
      rw [List.filter_cons, h1]
      simp only [↓reduceIte, List.find?_cons]
      rw [ih]

theorem lookup_insert_self (r : Reg) (k : String) (e : Entry) :
    lookup (Registry.insert r k e) k = some e := by
  simp [Registry.insert, lookup]

theorem lookup_insert_other (r : Reg) (k k' : String) (e : Entry) (hk : k' ≠ k) :
    lookup (Registry.insert r k e) k' = lookup r k' := by
  unfold Registry.insert lookup
  have : (k == k') = false := by simp [Ne.symm hk]
  rw [List.find?_cons]
  simp only [this]
  rw [find_filter_ne _ _ _ hk]

/-- registering makes the model available under its key with the documented defaults and
touches no other key -/
theorem c18_register_lookup (s : State) (d : Desc) (w : Warnings)
    (h : (step s (.register d)).2 = .ok (some w)) :
    lookup (step s (.register d)).1.reg d.modelKey = some (mkEntry d) ∧
    ∀ k, k ≠ d.modelKey → lookup (step s (.register d)).1.reg k = lookup s.reg k := by
  simp only [step] at h ⊢
  cases hc : moduleCheck d with
  | error e => simp [hc] at h
  | ok w' =>
    simp only
    exact ⟨lookup_insert_self _ _ _, fun k hk => lookup_insert_other _ _ _ _ hk⟩

/-- the documented defaults -/
theorem c18_defaults (d : Desc) :
    ((mkEntry d).defaultResidual = true ↔ "residual" ∉ d.present) ∧
    ((mkEntry d).defaultModel = true ↔ "model" ∉ d.present) ∧
    (mkEntry d).ancKeys = ancillaryCommon ++
      (if "compute_ancillaries" ∈ d.present then d.ancKeys else []) := by
  simp [mkEntry]

/-- deregistering removes exactly that key -/
theorem c18_deregister_exact (s : State) (k : String) :
    lookup (step s (.deregister k)).1.reg k = none ∧
    ∀ k', k' ≠ k → lookup (step s (.deregister k)).1.reg k' = lookup s.reg k' := by
  simp only [step]
  split
  · constructor
    · simp [lookup, List.find?_filter]
    · intro k' hk
      unfold lookup
      simp only
      rw [find_filter_ne _ _ _ hk]
  · rename_i h
    constructor
    · unfold lookup
      simp only [Option.map_eq_none_iff, List.find?_eq_none]
      intro p hp hpk
      exact h (List.any_eq_true.mpr ⟨p, hp, hpk⟩)
    · intro _ _; rfl

/-! ### ancillary seeding -/
theorem setVal_keys (ps : Vals) (k : String) (v : Option Int) :
    (setVal ps k v).map Prod.fst = ps.map Prod.fst := by
  induction ps with
  | nil => rfl
  | cons p ps ih =>
    unfold setVal at ih ⊢
    rw [List.map_cons, List.map_cons, List.map_cons, ih]
    by_cases h : p.1 == k
    · have : p.1 = k := by simpa using h
      rw [if_pos h, this]
    · rw [if_neg h]

/-- seeding never changes which parameters exist (NaN and non-parameter ancillaries are ignored) -/
theorem c18_ancillary_seed_keys (params anc : Vals) :
    (seed params anc).map Prod.fst = params.map Prod.fst := by
  unfold seed
  induction anc generalizing params with
  | nil => rfl
  | cons a as ih =>
    simp only [List.foldl_cons]
    rw [ih]
    cases a.2 with
    | none => rfl
    | some v =>
      simp only
      split
      · exact setVal_keys _ _ _
      · rfl

/-- concrete instance: a finite value seeds, NaN does not, 0 does, unknown keys are ignored -/
theorem c18_ancillary_seed_example :
    seed [("E", some 3000), ("contact_point", some 0), ("baseline", some 7)]
         [("max_indent", some 5), ("E", none), ("baseline", some 0), ("contact_point", some 12)]
      = [("E", some 3000), ("contact_point", some 12), ("baseline", some 0)] := by decide

/-! non-vacuity -/
def goodDesc : Desc :=
  { present := required ++ ["residual"], modelKey := "m", keys := ["E", "cp"], names := ["a", "b"],
    units := ["Pa", "m"], defaults := ["E", "cp"], args := ["delta", "E", "cp"],
    ancKeys := [], ancUnits := [] }
instance (d : Desc) : Decidable (WellFormed d) := by unfold WellFormed; infer_instance
example : WellFormed goodDesc := by decide
example : ∃ w, moduleCheck goodDesc = .ok w := (c18_check_complete goodDesc).2 (by decide)
example : moduleCheck { goodDesc with names := ["a", "a"] } = .error .implementation := by decide
example : moduleCheck { goodDesc with present := goodDesc.present.erase "model_func" }
    = .error .incomplete := by decide

end Nanite.C18
