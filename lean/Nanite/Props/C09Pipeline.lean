import Nanite.Model.Pipeline
/-!
# C09 – "otherwise it returns the regressor's prediction": which pipeline that regressor is
Decision logic of `IndentationRater.__init__`, stated outright for every regressor class and every combination
of the `scale` / `lda` arguments.
-/
namespace Nanite.C09Pipeline
open Nanite.Pipeline

/-- an explicit `lda=False` (or `True`) is respected for EVERY regressor – tree-based or not -/
theorem c09_explicit_lda_respected (tree : Bool) (scale : Option Bool) (b : Bool) :
    (Step.lda ∈ steps true tree scale (some b)) ↔ b = true := by
  cases tree <;> cases scale with
  | none => cases b <;> decide
  | some s => cases s <;> cases b <;> decide

theorem c09_explicit_scale_respected (tree : Bool) (lda : Option Bool) (b : Bool) :
    (Step.scaler ∈ steps true tree (some b) lda) ↔ b = true := by
  cases tree <;> cases lda with
  | none => cases b <;> decide
  | some s => cases s <;> cases b <;> decide

/-- the defaults: tree-based regressors get neither scaler nor LDA, all others get both -/
theorem c09_default_pipeline (tree : Bool) :
    steps true tree none none = if tree then [Step.regressor] else [Step.scaler, Step.lda, Step.regressor] := by
  cases tree <;> decide

/-- the regressor is always the last step, after the transforms, in the fixed order scaler – LDA – regressor -/
theorem c09_pipeline_shape (tree : Bool) (scale lda : Option Bool) :
    (steps true tree scale lda).getLast? = some Step.regressor ∧
    ((steps true tree scale lda).dropLast).Sublist [Step.scaler, Step.lda] := by
  cases tree <;> cases scale with
  | none => cases lda with
    | none => decide
    | some l => cases l <;> decide
  | some s => cases s <;> cases lda with
    | none => decide
    | some l => cases l <;> decide

end Nanite.C09Pipeline
