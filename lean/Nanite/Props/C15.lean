import Nanite.Model.TrainingSet
import Mathlib.Tactic.Ring
import Mathlib.Tactic.Linarith
import Mathlib.Tactic.FieldSimp
/-!
# C15 – Training sets load clean, aligned, and survive export  (partial)
Proved for every matrix shape and every NaN/inf pattern (model of `load_training_set` after the
text files were read, and of `compute_sample_weight`).  Not proved: the text format (`%.2e`,
`np.loadtxt`), the HDF5 iteration order of the export – explored by the oracle.
-/
namespace Nanite.C15
open Nanite.TrainingSet
variable {K : Type} [Field K] [LinearOrder K] [IsStrictOrderedRing K]

theorem replaceEntry_fin (exts : List (Option (Option K))) (j : Nat) (x : K) :
    replaceEntry exts j (.fin x) = .fin x := by
  simp [replaceEntry]

theorem imputeEntry_fin (zero : List Bool) (rows : List (List (Ext K))) (z : Bool) (j : Nat) (x : K) :
    imputeEntry zero rows z j (.fin x) = .fin x := by
  simp [imputeEntry, Ext.isNan]

theorem mapM_ok_get {α β ε : Type} (f : α → Except ε β) :
    ∀ (l : List α) (out : List β), l.mapM f = .ok out →
      out.length = l.length ∧ ∀ i (h1 : i < l.length) (h2 : i < out.length), f l[i] = .ok out[i] := by
  intro l
  induction l with
  | nil =>
    intro out h
    simp only [List.mapM_nil, pure, Except.pure, Except.ok.injEq] at h
    subst h
    exact ⟨rfl, fun i h1 => absurd h1 (by simp)⟩
  | cons a as ih =>
    intro out h
    simp only [List.mapM_cons, bind, Except.bind] at h
    cases hfa : f a with
    | error e => simp [hfa] at h
    | ok b =>
      simp only [hfa] at h
      cases hrest : as.mapM f with
      | error e => simp [hrest] at h
      | ok bs =>
        simp only [hrest, pure, Except.pure, Except.ok.injEq] at h
        subst h
        obtain ⟨hl, hg⟩ := ih bs hrest
        refine ⟨by simp [hl], ?_⟩
        intro i h1 h2
        cases i with
        | zero => simpa using hfa
        | succ i => simpa using hg i (by simpa using h1) (by simpa using h2)

/-- the rows that survive the NaN filter (after imputation), paired with their responses -/
def keptOf (impute rm : Bool) (rows : List (List (Ext K))) (resp : List K) : List (List (Ext K) × K) :=
  ((if impute then imputeRows (resp.map (fun y => decide (y = 0))) rows else rows).zip resp).filter (keepRow rm)

/-- the loader's result, unfolded -/
theorem loadClean_ok (impute rm ri : Bool) (m : Nat) (rows : List (List (Ext K))) (resp : List K)
    (r : Loaded K) (h : loadClean impute rm ri m rows resp = .ok r) :
    r.resp = (keptOf impute rm rows resp).map Prod.snd ∧
    ((ri = false ∧ r.rows = (keptOf impute rm rows resp).map Prod.fst) ∨
     (ri = true ∧ ∃ exts : List (Option (Option K)), exts.length = m ∧
        r.rows = replaceRows exts ((keptOf impute rm rows resp).map Prod.fst) ∧
        ∀ j (hj : j < m) (h2 : j < exts.length),
          infVal ((keptOf impute rm rows resp).map Prod.fst) j = .ok exts[j])) := by
  unfold loadClean at h
  simp only at h
  split at h
  · rename_i hri
    cases hm : (List.range m).mapM (infVal ((keptOf impute rm rows resp).map Prod.fst)) with
    | error e => simp only [keptOf] at hm; rw [hm] at h; cases h
    | ok exts =>
      simp only [keptOf] at hm
      rw [hm] at h
      injection h with h
      obtain ⟨hlen, hget⟩ := mapM_ok_get _ _ _ hm
      refine ⟨by rw [← h]; rfl, Or.inr ⟨hri, exts, by simpa using hlen, by rw [← h]; rfl, ?_⟩⟩
      intro j hj h2
      have := hget j (by simpa using hj) h2
      simp only [List.getElem_range] at this
      exact this
  · rename_i hri
    injection h with h
    exact ⟨by rw [← h]; rfl, Or.inl ⟨by simpa using hri, by rw [← h]; rfl⟩⟩

/-- **rows stay paired with their responses**: sample row `i` of the result and response `i` of the
result come from the same input sample; the rows kept are exactly those that pass the NaN filter
(after imputation), in their original order -/
theorem c15_aligned (impute rm ri : Bool) (m : Nat) (rows : List (List (Ext K))) (resp : List K)
    (r : Loaded K) (h : loadClean impute rm ri m rows resp = .ok r) :
    r.rows.length = r.resp.length ∧ r.resp = (keptOf impute rm rows resp).map Prod.snd := by
  obtain ⟨hy, hr⟩ := loadClean_ok impute rm ri m rows resp r h
  refine ⟨?_, hy⟩
  rcases hr with ⟨_, hr⟩ | ⟨_, exts, _, hr, _⟩
  · rw [hr, hy]; simp
  · rw [hr, hy]; simp [replaceRows]

theorem kept_width (impute rm : Bool) (m : Nat) (rows : List (List (Ext K))) (resp : List K)
    (hw : ∀ row ∈ rows, row.length ≤ m) :
    ∀ p ∈ keptOf impute rm rows resp, p.1.length ≤ m := by
  intro p hp
  have hp' := (List.mem_filter.mp hp).1
  have hmem : p.1 ∈ (if impute then imputeRows (resp.map (fun y => decide (y = 0))) rows else rows) :=
    (List.of_mem_zip hp').1
  split at hmem
  · simp only [imputeRows, List.mem_map] at hmem
    obtain ⟨q, hq, hq1⟩ := hmem
    rw [← hq1]
    simp only [List.length_mapIdx]
    exact hw _ (List.of_mem_zip hq).2
  · exact hw _ hmem

theorem finites_nil (l : List (Ext K)) (h : finites l = []) : ∀ e ∈ l, e.isFinite = false := by
  induction l with
  | nil => intro e he; simp at he
  | cons a as ih =>
    intro e he
    cases a with
    | fin x => simp [finites] at h
    | nan =>
      simp only [finites] at h
      cases he with
      | head => rfl
      | tail _ he' => exact ih h e he'
    | pinf =>
      simp only [finites] at h
      cases he with
      | head => rfl
      | tail _ he' => exact ih h e he'
    | ninf =>
      simp only [finites] at h
      cases he with
      | head => rfl
      | tail _ he' => exact ih h e he'

theorem lmaxAbs_none (l : List K) (h : lmaxAbs l = none) : l = [] := by
  cases l with
  | nil => rfl
  | cons x xs =>
    simp only [lmaxAbs] at h
    split at h <;> simp at h

/-- **no NaN** in the sample matrix when `remove_nan` is on (matrix with `m` columns) -/
theorem c15_no_nan (impute ri : Bool) (m : Nat) (rows : List (List (Ext K))) (resp : List K)
    (r : Loaded K) (hw : ∀ row ∈ rows, row.length ≤ m)
    (h : loadClean impute true ri m rows resp = .ok r) :
    ∀ row ∈ r.rows, ∀ e ∈ row, e.isNan = false := by
  obtain ⟨_, hr⟩ := loadClean_ok impute true ri m rows resp r h
  have hkeep : ∀ p ∈ keptOf impute true rows resp, ∀ e ∈ p.1, e.isNan = false := by
    intro p hp e he
    have := (List.mem_filter.mp hp).2
    simp only [keepRow, Bool.not_true, Bool.false_or, Bool.not_eq_eq_eq_not, List.any_eq_false] at this
    simpa using this e he
  rcases hr with ⟨_, hr⟩ | ⟨_, exts, hlen, hr, hget⟩
  · intro row hrow e he
    rw [hr] at hrow
    obtain ⟨p, hp, rfl⟩ := List.mem_map.mp hrow
    exact hkeep p hp e he
  · intro row hrow e he
    rw [hr] at hrow
    simp only [replaceRows] at hrow
    obtain ⟨row0, hrow0, rfl⟩ := List.mem_map.mp hrow
    obtain ⟨p, hp, rfl⟩ := List.mem_map.mp hrow0
    obtain ⟨j, hj, rfl⟩ := List.mem_iff_getElem.mp he
    simp only [List.getElem_mapIdx]
    have hj0 : j < p.1.length := by simpa using hj
    have hjm : j < m := lt_of_lt_of_le hj0 (kept_width impute true m rows resp hw p hp)
    have he0 := hkeep p hp (p.1[j]) (List.getElem_mem _)
    have hf := hget j hjm (by rw [hlen]; exact hjm)
    -- the only way to produce NaN is an all-NaN rest of a column, impossible after the NaN filter
    have hnotnone : exts.getD j none ≠ some none := by
      intro hc
      have hej : exts[j]'(by rw [hlen]; exact hjm) = some none := by
        rw [List.getD_eq_getElem?_getD, List.getElem?_eq_getElem (by rw [hlen]; exact hjm)] at hc
        simpa using hc
      rw [hej] at hf
      unfold infVal at hf
      split at hf
      · split at hf
        · cases hf
        · rename_i hne
          injection hf with hf
          injection hf with hf
          have hfin := lmaxAbs_none _ hf
          simp only [List.isEmpty_iff] at hne
          obtain ⟨e1, he1⟩ := List.exists_mem_of_ne_nil _ hne
          have hmem := (List.mem_filter.mp he1)
          have hnf := finites_nil _ hfin e1 hmem.1
          have hninf : e1.isInf = false := by simpa using hmem.2
          have hnan : e1.isNan = true := by
            cases e1 <;> simp_all [Ext.isFinite, Ext.isInf, Ext.isNan]
          simp only [colOf, List.mem_filterMap] at hmem
          obtain ⟨⟨row1, hrow1, hget1⟩, _⟩ := hmem
          obtain ⟨p1, hp1, rfl⟩ := List.mem_map.mp hrow1
          have : e1 ∈ p1.1 := List.mem_of_getElem? hget1
          have := hkeep p1 hp1 e1 this
          rw [hnan] at this
          cases this
      · cases hf
    unfold replaceEntry
    split <;> simp_all [Ext.isNan]

/-- **no infinite entries** when `replace_inf` is on (matrix with `m` columns): every infinity is
replaced (by ± twice the largest finite magnitude of its column, see `c15_inf_rule`) -/
theorem c15_no_inf (impute rm : Bool) (m : Nat) (rows : List (List (Ext K))) (resp : List K)
    (r : Loaded K) (hw : ∀ row ∈ rows, row.length ≤ m)
    (h : loadClean impute rm true m rows resp = .ok r) :
    ∀ row ∈ r.rows, ∀ e ∈ row, e.isInf = false := by
  obtain ⟨_, hr⟩ := loadClean_ok impute rm true m rows resp r h
  rcases hr with ⟨hc, _⟩ | ⟨_, exts, hlen, hr, hget⟩
  · cases hc
  · intro row hrow e he
    rw [hr] at hrow
    simp only [replaceRows] at hrow
    obtain ⟨row0, hrow0, rfl⟩ := List.mem_map.mp hrow
    obtain ⟨p, hp, hp1⟩ := List.mem_map.mp hrow0
    obtain ⟨j, hj, rfl⟩ := List.mem_iff_getElem.mp he
    simp only [List.getElem_mapIdx]
    have hj0 : j < row0.length := by simpa using hj
    have hjm : j < m := by
      rw [← hp1] at hj0
      exact lt_of_lt_of_le hj0 (kept_width impute rm m rows resp hw p hp)
    have hf := hget j hjm (by rw [hlen]; exact hjm)
    have hsome : row0[j].isInf = true → ∃ v, exts.getD j none = some v := by
      intro hinf
      have hany : (colOf j ((keptOf impute rm rows resp).map Prod.fst)).any Ext.isInf = true := by
        apply List.any_eq_true.mpr
        refine ⟨row0[j], ?_, hinf⟩
        simp only [colOf, List.mem_filterMap]
        exact ⟨row0, hrow0, by rw [List.getElem?_eq_getElem hj0]⟩
      unfold infVal at hf
      rw [if_pos hany] at hf
      split at hf
      · cases hf
      · injection hf with hf
        refine ⟨lmaxAbs (finites (colOf j ((keptOf impute rm rows resp).map Prod.fst))), ?_⟩
        rw [List.getD_eq_getElem?_getD, List.getElem?_eq_getElem (by rw [hlen]; exact hjm), ← hf]
        rfl
    cases he0 : row0[j] with
    | fin x => simp [replaceEntry, Ext.isInf]
    | nan => simp [replaceEntry, Ext.isInf]
    | pinf =>
      obtain ⟨v, hv⟩ := hsome (by rw [he0]; rfl)
      unfold replaceEntry
      rw [hv]
      cases v <;> rfl
    | ninf =>
      obtain ⟨v, hv⟩ := hsome (by rw [he0]; rfl)
      unfold replaceEntry
      rw [hv]
      cases v <;> rfl

/-- **finite entries are never altered** (only NaN of zero-rated samples and infinities are) -/
theorem c15_finite_entries_unchanged (zero : List Bool) (rows : List (List (Ext K)))
    (exts : List (Option (Option K)))
    (z : Bool) (j : Nat) (x : K) :
    replaceEntry exts j (imputeEntry zero rows z j (.fin x)) = .fin x := by
  rw [imputeEntry_fin, replaceEntry_fin]

/-- infinities become ± twice the largest finite magnitude of their column -/
theorem c15_inf_rule (exts : List (Option (Option K))) (j : Nat) (x : K)
    (h : exts.getD j none = some (some x)) :
    replaceEntry exts j .pinf = .fin (2 * x) ∧ replaceEntry exts j .ninf = .fin (-(2 * x)) := by
  unfold replaceEntry
  rw [h]
  exact ⟨rfl, rfl⟩

/-- NaN entries of zero-rated samples are imputed with the column's reference mean when there is one,
and left alone (to be dropped with their row) otherwise; other samples are never imputed -/
theorem c15_impute_rule (zero : List Bool) (rows : List (List (Ext K))) (j : Nat) :
    imputeEntry zero rows true j .nan = (imputeVal zero rows j).getD .nan ∧
    imputeEntry zero rows false j (.nan : Ext K) = .nan := by
  constructor
  · simp only [imputeEntry, Ext.isNan, Bool.and_self, ↓reduceIte]
    cases imputeVal zero rows j <;> rfl
  · simp [imputeEntry]

/-- a column with infinities but no finite entry makes the loader raise (numpy `nanmax` of an
empty array) – the error branch, stated explicitly -/
theorem c15_inf_error_branch (rows : List (List (Ext K))) (j : Nat)
    (hinf : (colOf j rows).any Ext.isInf = true)
    (hall : ((colOf j rows).filter (fun e => !e.isInf)).isEmpty = true) :
    infVal rows j = .error .valueErr := by
  simp only [infVal, hinf, ↓reduceIte, hall]

/-! ## sample weights -/

theorem rawWeight_nonneg (ys : List Int) (y : Int) : (0 : K) ≤ rawWeight ys y := by
  unfold rawWeight
  split
  · apply div_nonneg zero_le_one; exact Nat.cast_nonneg _
  · exact le_refl 0

theorem sum_map_nonneg (l : List Int) (f : Int → K) (h : ∀ y, 0 ≤ f y) : 0 ≤ (l.map f).sum := by
  apply List.sum_nonneg
  intro x hx
  obtain ⟨y, _, rfl⟩ := List.mem_map.mp hx
  exact h y

/-- the raw weights of a non-empty list of ratings in 0…10 have a positive sum -/
theorem rawSum_pos (ys : List Int) (hne : ys ≠ []) (hr : ∀ y ∈ ys, 0 ≤ y ∧ y ≤ 10) :
    (0 : K) < (ys.map (rawWeight ys)).sum := by
  cases ys with
  | nil => exact absurd rfl hne
  | cons y rest =>
    have hy := hr y List.mem_cons_self
    have hpos : (0 : K) < rawWeight (y :: rest) y := by
      unfold rawWeight
      simp only [hy, and_self, ↓reduceIte]
      apply div_pos zero_lt_one
      have : 0 < (y :: rest).count y := List.count_pos_iff.mpr List.mem_cons_self
      exact_mod_cast this
    simp only [List.map_cons, List.sum_cons]
    have := sum_map_nonneg rest (rawWeight (K := K) (y :: rest)) (rawWeight_nonneg _)
    linarith

/-- **sample weights are non-negative and sum to one** -/
theorem c15_weights_nonneg_sum_one (ys : List Int) (hne : ys ≠ []) (hr : ∀ y ∈ ys, 0 ≤ y ∧ y ≤ 10) :
    (∀ w ∈ sampleWeight (K := K) ys, 0 ≤ w) ∧ (sampleWeight (K := K) ys).sum = 1 := by
  have hpos := rawSum_pos (K := K) ys hne hr
  constructor
  · intro w hw
    unfold sampleWeight at hw
    simp only [List.map_map, List.mem_map, Function.comp] at hw
    obtain ⟨y, _, rfl⟩ := hw
    exact div_nonneg (rawWeight_nonneg ys y) hpos.le
  · unfold sampleWeight
    simp only
    have : ∀ (l : List K) (c : K), (l.map (· / c)).sum = l.sum / c := by
      intro l c
      induction l with
      | nil => simp
      | cons x xs ih => simp [List.sum_cons, ih, add_div]
    rw [this, div_self hpos.ne']

/-- **every rating class present gets the same total weight** (before normalisation: total 1) -/
theorem c15_class_total (ys : List Int) (c : Int) (hc : c ∈ ys) (hr : 0 ≤ c ∧ c ≤ 10) :
    ((ys.filter (· = c)).map (rawWeight (K := K) ys)).sum = 1 := by
  have hcount : 0 < ys.count c := List.count_pos_iff.mpr hc
  have hall : ∀ y ∈ ys.filter (· = c), rawWeight (K := K) ys y = 1 / ((ys.count c : Nat) : K) := by
    intro y hy
    have : y = c := by simpa using (List.mem_filter.mp hy).2
    subst this
    simp [rawWeight, hr]
  have hlen : (ys.filter (· = c)).length = ys.count c := by
    rw [List.count_eq_length_filter]
    congr 1
  have hsum : ∀ (l : List Int) (v : K), (∀ y ∈ l, rawWeight (K := K) ys y = v) →
      (l.map (rawWeight (K := K) ys)).sum = (l.length : K) * v := by
    intro l v hv
    induction l with
    | nil => simp
    | cons x xs ih =>
      simp only [List.map_cons, List.sum_cons, List.length_cons, Nat.cast_add, Nat.cast_one]
      rw [hv x List.mem_cons_self, ih (fun y hy => hv y (List.mem_cons_of_mem _ hy))]
      ring
  rw [hsum _ _ hall, hlen]
  have : ((ys.count c : Nat) : K) ≠ 0 := by exact_mod_cast hcount.ne'
  field_simp

/-! non-vacuity (ℚ) -/
example : sampleWeight (K := ℚ) [0, 0, 10] = [1 / 4, 1 / 4, 1 / 2] := by
  norm_num [sampleWeight, rawWeight, List.count_cons]

end Nanite.C15
