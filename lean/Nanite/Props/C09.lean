import Nanite.Model.Rater
import Nanite.Props.C03
import Mathlib.Tactic.Linarith
/-!
# C09 – Quality rating is total, deterministic, in range, and tied to the current fit  (partial)
Proved: the rating decision table, the range of averaging tree ensembles, and (in
`Nanite.Props.C03`) the soundness of the rating cache over every history.  Not proved:
scikit-learn's training / prediction (determinism, numeric range) – explored by the oracle.
-/
namespace Nanite.C09
open Nanite.Rater
variable {K : Type} [Field K] [LinearOrder K] [IsStrictOrderedRing K]

/-- a failed binary criterion gives 0, whatever else holds -/
theorem c09_binary_fail (reg : List K → K) (bins cons : List (Option K)) (h : (some 0) ∈ bins) :
    rating reg bins cons = 0 := by
  unfold rating preRateFails
  have : bins.any (fun b => b == some 0) = true := List.any_eq_true.mpr ⟨_, h, by simp⟩
  simp [this]

/-- undefined (NaN) continuous features give −1 when no exclusion criterion fails -/
theorem c09_nan (reg : List K → K) (bins cons : List (Option K)) (hb : (some 0) ∉ bins)
    (hn : none ∈ cons) : rating reg bins cons = -1 := by
  unfold rating preRateFails
  have h1 : bins.any (fun b => b == some 0) = false := by
    rw [List.any_eq_false]
    intro b hbm hb0
    simp only [beq_iff_eq] at hb0
    exact hb (hb0 ▸ hbm)
  have h2 : cons.any Option.isNone = true := List.any_eq_true.mpr ⟨none, hn, rfl⟩
  simp [h1, h2]

/-- otherwise the regressor's prediction on the (all defined) continuous features -/
theorem c09_otherwise (reg : List K → K) (bins : List (Option K)) (cs : List K) (hb : (some 0) ∉ bins) :
    rating reg bins (cs.map some) = reg cs := by
  unfold rating preRateFails
  have h1 : bins.any (fun b => b == some 0) = false := by
    rw [List.any_eq_false]
    intro b hbm hb0
    simp only [beq_iff_eq] at hb0
    exact hb (hb0 ▸ hbm)
  have h2 : (cs.map some).any Option.isNone = false := by
    rw [List.any_eq_false]; intro x hx; obtain ⟨c, _, rfl⟩ := List.mem_map.mp hx; simp
  have h3 : (cs.map some).filterMap id = cs := by
    induction cs with
    | nil => rfl
    | cons c cs ih => simp [List.filterMap_cons, ih]
  simp [h1, h2, h3]

/-- without a successful current fit every fit-dependent feature is NaN: the rating is −1, or 0
if an exclusion criterion that needs no fit (curve size) already fails -/
theorem c09_unfitted (reg : List K → K) (bins cons : List (Option K)) (hn : none ∈ cons) :
    rating reg bins cons = -1 ∨ rating reg bins cons = 0 := by
  by_cases hb : (some 0) ∈ bins
  · exact Or.inr (c09_binary_fail reg bins cons hb)
  · exact Or.inl (c09_nan reg bins cons hb hn)

/-- **range of averaging trees**: a weighted mean with non-negative weights summing to one of
values in `[lo, hi]` lies in `[lo, hi]` (leaf values are such means of training responses, the
forest prediction is such a mean of tree predictions) -/
theorem c09_tree_range (lo hi : K) : ∀ (ws vs : List K), ws.length = vs.length →
    (∀ w ∈ ws, 0 ≤ w) → (∀ v ∈ vs, lo ≤ v ∧ v ≤ hi) →
    lo * ws.sum ≤ wmean ws vs ∧ wmean ws vs ≤ hi * ws.sum := by
  intro ws
  induction ws with
  | nil => intro vs _ _ _; simp [wmean]
  | cons w ws ih =>
    intro vs hl hw hv
    cases vs with
    | nil => simp at hl
    | cons v vs =>
      have := ih vs (by simpa using hl) (fun x hx => hw x (List.mem_cons_of_mem _ hx))
        (fun x hx => hv x (List.mem_cons_of_mem _ hx))
      have hw0 := hw w List.mem_cons_self
      have hv0 := hv v List.mem_cons_self
      simp only [wmean, List.zipWith_cons_cons, List.sum_cons] at this ⊢
      constructor
      · nlinarith [mul_le_mul_of_nonneg_left hv0.1 hw0]
      · nlinarith [mul_le_mul_of_nonneg_left hv0.2 hw0]

theorem c09_tree_range_unit (ws vs : List K) (hl : ws.length = vs.length) (hw : ∀ w ∈ ws, 0 ≤ w)
    (hs : ws.sum = 1) (hv : ∀ v ∈ vs, (0 : K) ≤ v ∧ v ≤ 10) : 0 ≤ wmean ws vs ∧ wmean ws vs ≤ 10 := by
  have := c09_tree_range 0 10 ws vs hl hw hv
  rw [hs] at this
  simpa using this

/-! non-vacuity -/
example : rating (fun _ => (7 : ℚ)) [some 1, none] [some 2, some 3] = 7 := by
  norm_num [rating, preRateFails]
example : wmean [(1 : ℚ) / 4, 3 / 4] [0, 10] = 15 / 2 := by norm_num [wmean]

end Nanite.C09
