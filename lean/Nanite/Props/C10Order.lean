import Nanite.Props.C03
import Mathlib.Data.String.Basic
import Mathlib.Data.List.Sort
import Mathlib.Data.List.Perm.Basic
/-!
# C10 – "the effect of a call depends only on the argument values"
`Indentation.fit_model(**kwargs)` receives its keyword arguments as a dictionary; Python preserves the order in
which the caller wrote them.  The implementation applies them in SORTED key order (so that `model_key` precedes
`params_initial`, and `optimal_fit_edelta` precedes `range_x`).  Proved here for the object model: for EVERY state
and EVERY two argument lists that hold the same (key, value) pairs with distinct keys – i.e. the same call
written in another order – `fit_model` produces the same state and the same outcome.
-/
namespace Nanite.C10Order
open Nanite.Indent

/-- keys strictly increasing -/
def KeySorted (l : List (String × V)) : Prop := l.Pairwise (fun p q => p.1 < q.1)

theorem mem_insertKw' (p q : String × V) (l : List (String × V)) : q ∈ insertKw p l ↔ q = p ∨ q ∈ l := by
  induction l with
  | nil => simp [insertKw]
  | cons a as ih =>
    simp only [insertKw]
    split
    · simp
    · simp only [List.mem_cons, ih]
      constructor
      · rintro (h | h | h)
        · exact Or.inr (Or.inl h)
        · exact Or.inl h
        · exact Or.inr (Or.inr h)
      · rintro (h | h | h)
        · exact Or.inr (Or.inl h)
        · exact Or.inl h
        · exact Or.inr (Or.inr h)

theorem insertKw_sorted (p : String × V) (l : List (String × V)) (hs : KeySorted l)
    (hne : ∀ q ∈ l, q.1 ≠ p.1) : KeySorted (insertKw p l) := by
  induction l with
  | nil => simp [insertKw, KeySorted]
  | cons a as ih =>
    simp only [insertKw]
    have hs' := List.pairwise_cons.mp hs
    split
    · rename_i hlt
      refine List.pairwise_cons.mpr ⟨?_, hs⟩
      intro q hq
      rcases List.mem_cons.mp hq with rfl | hq
      · exact hlt
      · exact lt_trans hlt (hs'.1 q hq)
    · rename_i hnlt
      have hap : a.1 < p.1 := by
        rcases lt_trichotomy a.1 p.1 with h | h | h
        · exact h
        · exact absurd h (hne a (by simp))
        · exact absurd h hnlt
      refine List.pairwise_cons.mpr ⟨?_, ih hs'.2 (fun q hq => hne q (by simp [hq]))⟩
      intro q hq
      rcases (mem_insertKw' p q as).mp hq with rfl | hq
      · exact hap
      · exact hs'.1 q hq

theorem insertKw_perm (p : String × V) (l : List (String × V)) : (insertKw p l).Perm (p :: l) := by
  induction l with
  | nil => simp [insertKw]
  | cons a as ih =>
    simp only [insertKw]
    split
    · exact List.Perm.refl _
    · exact ((List.Perm.cons a ih).trans (List.Perm.swap p a as))

theorem sortKw_perm (l : List (String × V)) : (sortKw l).Perm l := by
  induction l with
  | nil => exact List.Perm.refl _
  | cons p ps ih => exact (insertKw_perm p (sortKw ps)).trans (List.Perm.cons p ih)

theorem sortKw_sorted (l : List (String × V)) (hnd : (l.map Prod.fst).Nodup) : KeySorted (sortKw l) := by
  induction l with
  | nil => simp [sortKw, KeySorted]
  | cons p ps ih =>
    simp only [List.map_cons, List.nodup_cons] at hnd
    simp only [sortKw]
    apply insertKw_sorted p (sortKw ps) (ih hnd.2)
    intro q hq hqe
    have hq' : q ∈ ps := (sortKw_perm ps).mem_iff.mp hq
    exact hnd.1 (by rw [← hqe]; exact List.mem_map_of_mem hq')

/-- two key-sorted lists with the same members are equal -/
theorem sorted_perm_eq (l l' : List (String × V)) (h : l.Perm l') (hs : KeySorted l) (hs' : KeySorted l') :
    l = l' := by
  unfold KeySorted at hs hs'
  exact List.Perm.eq_of_pairwise (le := fun (p q : String × V) => p.1 < q.1)
    (fun a b _ _ hab hba => absurd hba (lt_asymm hab)) hs hs' h

/-- **`sorted(kwargs)` does not depend on the order the caller wrote the keywords in** -/
theorem sortKw_order_irrelevant (kw kw' : List (String × V)) (hp : kw.Perm kw')
    (hnd : (kw.map Prod.fst).Nodup) : sortKw kw = sortKw kw' := by
  have hnd' : (kw'.map Prod.fst).Nodup := (hp.map Prod.fst).nodup_iff.mp hnd
  exact sorted_perm_eq _ _ ((sortKw_perm kw).trans (hp.trans (sortKw_perm kw').symm))
    (sortKw_sorted kw hnd) (sortKw_sorted kw' hnd')

theorem kwGet_order_irrelevant (kw kw' : List (String × V)) (hp : kw.Perm kw')
    (hnd : (kw.map Prod.fst).Nodup) (k : String) : kwGet kw k = kwGet kw' k := by
  unfold kwGet
  induction hp with
  | nil => rfl
  | cons x _ ih =>
    simp only [List.map_cons, List.nodup_cons] at hnd
    simp only [List.find?_cons]
    split
    · rfl
    · exact ih hnd.2
  | swap x y l =>
    simp only [List.map_cons, List.nodup_cons, List.mem_cons, not_or] at hnd
    simp only [List.find?_cons]
    by_cases hx : (x.1 == k) = true <;> by_cases hy : (y.1 == k) = true
    · exfalso
      have h1 : x.1 = k := by simpa using hx
      have h2 : y.1 = k := by simpa using hy
      exact hnd.1.1 (h2.trans h1.symm)
    · simp [hx, hy]
    · simp [hx, hy]
    · simp [hx, hy]
  | trans h1 _ ih1 ih2 =>
    have hnd2 := (h1.map Prod.fst).nodup_iff.mp hnd
    exact (ih1 hnd).trans (ih2 hnd2)

/-- **C10, keyword order**: the same call written with its keyword arguments in another order has the same
effect and the same outcome, in every state -/
theorem c10_keyword_order_irrelevant (d : Settings) (s : St) (kw kw' : List (String × V))
    (oe : List (Option Err)) (g : String → List String) (hp : kw.Perm kw')
    (hnd : (kw.map Prod.fst).Nodup) :
    fitModel d s kw oe g = fitModel d s kw' oe g := by
  unfold fitModel
  simp only [kwGet_order_irrelevant kw kw' hp hnd, sortKw_order_irrelevant kw kw' hp hnd]

/-- non-vacuity: the call of the seeded change, in both orders -/
example : ([("range_x", V.range false "-1.2e-06" "4e-07"), ("optimal_fit_edelta", V.tok "0.0")] : List (String × V)).Perm
    [("optimal_fit_edelta", V.tok "0.0"), ("range_x", V.range false "-1.2e-06" "4e-07")] ∧
    (([("range_x", V.range false "-1.2e-06" "4e-07"), ("optimal_fit_edelta", V.tok "0.0")] :
      List (String × V)).map Prod.fst).Nodup := by
  constructor
  · exact List.Perm.swap _ _ _
  · decide

end Nanite.C10Order
