import Nanite.Lemmas.Order
import Nanite.Gen.Preproc
/-!
# C14 – Preprocessing order rules are enforced and auto-sorting always satisfies them

Property theorems only.  Model: `Nanite.Model.Order` (hand-written, tied by exhaustive
correspondence); table: `Nanite.Gen.Preproc` (regenerated from the live
`nanite.preproc.PREPROCESSORS` on every run).
-/
namespace Nanite.C14
open Nanite.Order

section general
variable {α : Type} [DecidableEq α] (T : Table α)

/-- `check_order` accepts exactly the lists in which every step is known, every required step
is present at an earlier-or-equal index and every *present* optional step is at an
earlier-or-equal index.  (any table, any list, duplicates and unknown identifiers allowed) -/
theorem c14_checkOrder_iff (l : List α) :
    checkOrder T l = .ok () ↔
      ∀ i (h : i < l.length),
        T.known l[i] = true ∧
        (∀ r ∈ T.req l[i], r ∈ l ∧ l.idxOf r ≤ i) ∧
        (∀ o ∈ T.opt l[i], o ∈ l → l.idxOf o ≤ i) := by
  unfold checkOrder
  rw [checkFrom_ok_iff]
  simp only [Nat.zero_add, GoodAt]

/-- Applying a list is accepted iff every identifier is available and all of its required
steps occur strictly earlier in the list. -/
theorem c14_apply_accepts_iff (avail l : List α) :
    applyOrder T avail l = .ok () ↔
      ∀ i (h : i < l.length), l[i] ∈ avail ∧ ∀ r ∈ T.req l[i], r ∈ l.take i := by
  unfold applyOrder
  rw [applyFrom_ok_iff]
  simp only [Nat.zero_add]

/-- the order rules are enforced on whatever list is handed in, through either keyword: the verdict for a
list passed as `preproc_names` is the verdict for the same list passed as `identifiers` -/
theorem c14_apply_any_entry (avail l : List α) (other : Option (List α)) :
    applyArgs T avail other (some l) = applyOrder T avail l ∧
    applyArgs T avail (some l) none = applyOrder T avail l := by
  simp [applyArgs, resolveIds]

/-- unknown identifiers are rejected by `apply` -/
theorem c14_unknown_rejected (avail l : List α) (a : α) (ha : a ∈ l) (hu : a ∉ avail) :
    applyOrder T avail l ≠ .ok () := by
  intro h
  rw [c14_apply_accepts_iff] at h
  obtain ⟨i, hi, rfl⟩ := List.getElem_of_mem ha
  exact hu (h i hi).1

/-- whatever `autosort` returns is a permutation of its input … -/
theorem c14_autosort_perm (l s : List α) (h : autosort T l = .ok s) : s.Perm l := by
  unfold autosort at h
  simp only [bind, Except.bind] at h
  cases hl : sortLoop T l (l.length + 1) l with
  | error e => simp [hl] at h
  | ok w =>
    simp only [hl] at h
    cases hc : checkOrder T w with
    | error e => simp [hc] at h
    | ok u =>
      simp only [hc, pure, Except.pure, Except.ok.injEq] at h
      subst h
      exact sortLoop_perm T l _ _ _ hl

/-- … that passes the order check (it is checked before it is returned). -/
theorem c14_autosort_checked (l s : List α) (h : autosort T l = .ok s) :
    checkOrder T s = .ok () := by
  unfold autosort at h
  simp only [bind, Except.bind] at h
  cases hl : sortLoop T l (l.length + 1) l with
  | error e => simp [hl] at h
  | ok w =>
    simp only [hl] at h
    cases hc : checkOrder T w with
    | error e => simp [hc] at h
    | ok u =>
      simp only [hc, pure, Except.pure, Except.ok.injEq] at h
      subst h
      cases u; exact hc
end general

/-! ## The shipped table (regenerated): every ordered selection of the shipped steps -/
open Nanite.Gen.Preproc

def isOk {ε β : Type} : Except ε β → Bool
  | .ok _ => true
  | .error _ => false

def eqOk (r : Except Err (List Nat)) (l : List Nat) : Bool :=
  match r with
  | .ok s => s == l
  | .error _ => false

theorem eqOk_iff (r : Except Err (List Nat)) (l : List Nat) : eqOk r l = true ↔ r = .ok l := by
  cases r <;> simp [eqOk]

def sels : List (List Nat) := selections table.steps

/-- Boolean form of "autosort does what C14 says on this selection":
closed ⇒ autosort succeeds, the result is a fixed point (idempotent), and a selection that
already passes the order check is returned unchanged. -/
def goodSel (l : List Nat) : Bool :=
  (!closed table l ||
    (match autosort table l with
     | .ok s => eqOk (autosort table s) s
     | .error _ => false)) &&
  (!isOk (checkOrder table l) || eqOk (autosort table l) l)

theorem c14_all_selections_good : sels.all goodSel = true := by decide +kernel

/-- lifting lemma: the enumeration is exactly the duplicate-free lists of shipped steps -/
theorem c14_mem_selections (l : List Nat) (hnd : l.Nodup) (hsub : ∀ a ∈ l, a ∈ table.steps) :
    l ∈ sels := mem_selections _ l hnd hsub

/-- **C14, autosort clause.** For every duplicate-free list of shipped steps that contains the
required steps of each member, `autosort` returns (does not raise) a permutation of exactly
those steps that passes `check_order`, and sorting that result again returns it unchanged. -/
theorem c14_autosort_valid (l : List Nat) (hnd : l.Nodup) (hsub : ∀ a ∈ l, a ∈ table.steps)
    (hcl : closed table l = true) :
    ∃ s, autosort table l = .ok s ∧ s.Perm l ∧ checkOrder table s = .ok () ∧
      autosort table s = .ok s := by
  have hall := c14_all_selections_good
  rw [List.all_eq_true] at hall
  have hg := hall l (c14_mem_selections l hnd hsub)
  unfold goodSel at hg
  simp only [hcl, Bool.not_true, Bool.false_or, Bool.and_eq_true] at hg
  cases ha : autosort table l with
  | error e => simp [ha] at hg
  | ok s =>
    simp only [ha, eqOk_iff] at hg
    exact ⟨s, rfl, c14_autosort_perm table l s ha, c14_autosort_checked table l s ha, hg.1⟩

/-- an already valid order is left unchanged -/
theorem c14_autosort_fixes_valid (l : List Nat) (hnd : l.Nodup)
    (hsub : ∀ a ∈ l, a ∈ table.steps) (hv : checkOrder table l = .ok ()) :
    autosort table l = .ok l := by
  have hall := c14_all_selections_good
  rw [List.all_eq_true] at hall
  have hg := hall l (c14_mem_selections l hnd hsub)
  unfold goodSel at hg
  simp only [hv, isOk, Bool.not_true, Bool.false_or, Bool.and_eq_true, eqOk_iff] at hg
  exact hg.2

/-- the list of available steps (`available()` = `autosort` of the definition order) is valid -/
theorem c14_available_valid :
    ∃ av, autosort table table.steps = .ok av ∧ checkOrder table av = .ok () ∧
      av.Perm table.steps := by
  have hok : isOk (autosort table table.steps) = true := by decide +kernel
  cases ha : autosort table table.steps with
  | error e => simp [ha, isOk] at hok
  | ok av => exact ⟨av, rfl, c14_autosort_checked table _ av ha, c14_autosort_perm table _ av ha⟩

theorem c14_counts : sels.length = 1957 ∧ (sels.filter (closed table)).length = 1424 := by
  decide +kernel

/-! non-vacuity: concrete instances of the hypotheses -/
example : closed table [1, 0, 3, 2] = true ∧ [1, 0, 3, 2].Nodup ∧
    autosort table [1, 0, 3, 2] = .ok [0, 3, 2, 1] := by decide +kernel
example : checkOrder table [0, 3, 2, 1, 4, 5] = .ok () := by decide +kernel
example : applyOrder table [0, 3, 2, 1, 4, 5] [0, 3, 2] = .ok () ∧
    applyOrder table [0, 3, 2, 1, 4, 5] [3, 0] = .error .valueErr ∧
    applyOrder table [0, 3, 2, 1, 4, 5] [0, 7] = .error .keyErr := by decide +kernel

end Nanite.C14
