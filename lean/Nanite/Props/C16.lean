import Nanite.Lemmas.Container
/-!
# C16 – Rating containers round-trip and only ever grow
Theorems about `Nanite.Model.Container` (save as a sequence of primitive writes with a failure
injected after any number of them).  Partial: HDF5 durability under process kill, the bytes of
the file format and `np.allclose` are runtime / trusted.
-/
namespace Nanite.C16
open Nanite.Container

/-- every complete analysis group refers to raw data that is present with its path: exactly
the condition under which `load_hdf5` succeeds -/
def Loadable (c : Cont) : Prop :=
  ∀ k g, c.ana k = some g → complete g = true →
    ∃ h d, alookup g.attrs "data hash" = some h ∧ c.data h = some d ∧ d.path.isSome = true

/-- decomposition of the plan: data writes first, then writes to the analysis group only -/
theorem plan_split (c : Cont) (x : Curve) (u : User) (L : List Write) (h : plan c x u = .ok L) :
    ∃ M, L = dataWrites c x ++ M ∧ (∀ w ∈ M, IsGrp w) ∧
      ((c.ana x.idd = none ∧ M = groupWrites x ++ userWrites x u) ∨
       (∃ g0, c.ana x.idd = some g0 ∧ complete g0 = true ∧ M = userWrites x u) ∨
       (∃ g0, c.ana x.idd = some g0 ∧ complete g0 = false ∧
          M = .grpDel x.idd :: (groupWrites x ++ userWrites x u))) := by
  unfold plan at h
  split at h
  · rename_i g0 hg0
    split at h
    · rename_i hc
      split at h
      · injection h with h
        refine ⟨userWrites x u, h.symm, userWrites_isGrp x u, Or.inr (Or.inl ⟨g0, hg0, hc, rfl⟩)⟩
      · simp at h
    · rename_i hc
      injection h with h
      refine ⟨.grpDel x.idd :: (groupWrites x ++ userWrites x u), ?_, ?_,
        Or.inr (Or.inr ⟨g0, hg0, by simpa using hc, rfl⟩)⟩
      · rw [← h]; simp
      · intro w hw
        simp only [List.mem_cons, List.mem_append] at hw
        rcases hw with h1 | h1 | h1
        · subst h1; simp [IsGrp, IsData]
        · exact groupWrites_isGrp x w h1
        · exact userWrites_isGrp x u w h1
  · rename_i hg0
    injection h with h
    refine ⟨groupWrites x ++ userWrites x u, ?_, ?_, Or.inl ⟨hg0, rfl⟩⟩
    · rw [← h]; simp
    · intro w hw
      rcases List.mem_append.mp hw with h1 | h1
      · exact groupWrites_isGrp x w h1
      · exact userWrites_isGrp x u w h1

/-- a group built from scratch by (a prefix of) the group and user writes carries the hash of
the curve being saved -/
theorem fresh_group_hash (x : Curve) (u : User) (wf : WF x u) (t s : List Write)
    (hts : t ++ s = groupWrites x ++ userWrites x u) : HashIs x (t.foldl (gstep x.idd) none) := by
  apply foldl_inv (HashIs x) (gstep x.idd) t none
  · intro g hg; simp at hg
  · intro og w hw h
    apply gstep_hashIs x og w _ h
    have hmem : w ∈ groupWrites x ++ userWrites x u := by
      rw [← hts]; exact List.mem_append_left _ hw
    rcases List.mem_append.mp hmem with h1 | h1
    · exact groupWrites_hashOK x u wf w h1
    · exact userWrites_hashOK x u wf w h1

theorem complete_has_hash (g : Group) (h : complete g = true) :
    ∃ v, alookup g.attrs "data hash" = some v := by
  unfold complete at h
  simp only [Bool.and_eq_true, List.all_eq_true] at h
  have := h.2 "data hash" (by simp [attrNames])
  exact Option.isSome_iff_exists.mp this

/-- **a save that fails after any number of writes leaves a loadable container** -/
theorem c16_partial_save_loadable (c : Cont) (x : Curve) (u : User) (wf : WF x u)
    (hl : Loadable c) (L p s : List Write) (hplan : plan c x u = .ok L) (hps : p ++ s = L) :
    Loadable (p.foldl apply c) := by
  obtain ⟨M, hL, hM, hcases⟩ := plan_split c x u L hplan
  have hfor : ∀ w ∈ p, ForCurve x.idd x.dhash w := by
    intro w hw
    exact plan_for c x u L hplan w (by rw [← hps]; exact List.mem_append_left _ hw)
  -- the raw data entry of any hash after the prefix, given it was intact before
  have data_intact : ∀ h d, c.data h = some d → d.path.isSome = true →
      ∃ d', (p.foldl apply c).data h = some d' ∧ d'.path.isSome = true := by
    intro h d hd hp
    rw [foldl_data]
    by_cases hh : h = x.dhash
    · subst hh
      have hnil := dataWrites_nil c x d hd hp
      rw [hnil, List.nil_append] at hL
      have hgrp : ∀ w ∈ p, IsGrp w := by
        intro w hw
        exact hM w (by rw [← hL, ← hps]; exact List.mem_append_left _ hw)
      rw [foldl_dstep_grp _ _ _ hgrp]
      exact ⟨d, hd, hp⟩
    · rw [foldl_dstep_other x.idd x.dhash h p _ hfor hh]
      exact ⟨d, hd, hp⟩
  intro k g' hk hcomp
  rw [foldl_ana] at hk
  by_cases hkidd : k = x.idd
  · subst hkidd
    -- split the prefix at the end of the data writes
    rw [hL] at hps
    rcases List.append_eq_append_iff.mp hps with ⟨a', hD, _⟩ | ⟨t, hp, hMt⟩
    · -- the failure happened during the data writes: the group is untouched
      have hdat : ∀ w ∈ p, IsData w := by
        intro w hw
        exact dataWrites_isData c x w (by rw [hD]; exact List.mem_append_left _ hw)
      rw [foldl_gstep_data _ _ _ hdat] at hk
      obtain ⟨h, d, hh, hd, hpth⟩ := hl x.idd g' hk hcomp
      obtain ⟨d', hd', hp'⟩ := data_intact h d hd hpth
      exact ⟨h, d', hh, hd', hp'⟩
    · -- all data writes are done
      subst hp
      rw [List.foldl_append, foldl_gstep_data _ _ _ (dataWrites_isData c x)] at hk
      have hdata : ∃ d, ((dataWrites c x ++ t).foldl apply c).data x.dhash = some d ∧
          d.path.isSome = true := by
        rw [foldl_data, List.foldl_append]
        have htg : ∀ w ∈ t, IsGrp w := fun w hw => hM w (by rw [hMt]; exact List.mem_append_left _ hw)
        rw [foldl_dstep_grp _ _ _ htg]
        exact dataWrites_result c x
      rcases hcases with ⟨hnone, hMeq⟩ | ⟨g0, hg0, hc0, hMeq⟩ | ⟨g0, hg0, hc0, hMeq⟩
      · -- new group
        rw [hnone] at hk
        have hinv := fresh_group_hash x u wf t s (by rw [← hMt, hMeq])
        obtain ⟨v, hv⟩ := complete_has_hash g' hcomp
        have := hinv g' hk v hv
        subst this
        obtain ⟨d, hd, hp⟩ := hdata
        exact ⟨x.dhash, d, hv, hd, hp⟩
      · -- same curve again: only user attributes change
        rw [hg0] at hk
        have hkeep : KeepsHash g0 (t.foldl (gstep x.idd) (some g0)) := by
          apply foldl_inv (KeepsHash g0) (gstep x.idd) t (some g0)
          · exact ⟨g0, rfl, rfl, fun h => h, rfl⟩
          · intro og w hw h
            apply gstep_keepsHash x.idd g0 og w _ h
            exact userWrites_noHash x u wf w (by rw [← hMeq, hMt]; exact List.mem_append_left _ hw)
        obtain ⟨g, hg, hh, _, _⟩ := hkeep
        rw [hg] at hk
        injection hk with hk
        subst hk
        obtain ⟨h, d, hh0, hd, hpth⟩ := hl x.idd g0 hg0 hc0
        obtain ⟨d', hd', hp'⟩ := data_intact h d hd hpth
        exact ⟨h, d', by rw [hh, hh0], hd', hp'⟩
      · -- an incomplete leftover is deleted and written again
        rw [hg0] at hk
        rw [hMeq] at hMt
        cases t with
        | nil =>
          simp only [List.foldl_nil, Option.some.injEq] at hk
          subst hk
          rw [hc0] at hcomp
          exact absurd hcomp (by simp)
        | cons w t' =>
          simp only [List.cons_append, List.cons.injEq] at hMt
          obtain ⟨hw, hrest⟩ := hMt
          subst hw
          simp only [List.foldl_cons, gstep, ↓reduceIte] at hk
          have hinv := fresh_group_hash x u wf t' s hrest.symm
          obtain ⟨v, hv⟩ := complete_has_hash g' hcomp
          have := hinv g' hk v hv
          subst this
          obtain ⟨d, hd, hp⟩ := hdata
          exact ⟨x.dhash, d, hv, hd, hp⟩
  · -- another curve's group: untouched, and its raw data stay intact
    rw [foldl_gstep_other x.idd x.dhash k p _ hfor hkidd] at hk
    obtain ⟨h, d, hh, hd, hpth⟩ := hl k g' hk hcomp
    obtain ⟨d', hd', hp'⟩ := data_intact h d hd hpth
    exact ⟨h, d', hh, hd', hp'⟩


/-- failing while the raw data are (re)written, before a *different fit* is refused -/
theorem data_prefix_loadable (c : Cont) (x : Curve) (hl : Loadable c) (p s : List Write)
    (hps : p ++ s = dataWrites c x) : Loadable (p.foldl apply c) := by
  have hdat : ∀ w ∈ p, IsData w := fun w hw =>
    dataWrites_isData c x w (by rw [← hps]; exact List.mem_append_left _ hw)
  have hfor : ∀ w ∈ p, ForCurve x.idd x.dhash w := fun w hw =>
    dataWrites_for c x w (by rw [← hps]; exact List.mem_append_left _ hw)
  intro k g hk hcomp
  rw [foldl_ana, foldl_gstep_data _ _ _ hdat] at hk
  obtain ⟨h, d, hh, hd, hpth⟩ := hl k g hk hcomp
  refine ⟨h, ?_⟩
  rw [foldl_data]
  by_cases hx : h = x.dhash
  · subst hx
    have hnil := dataWrites_nil c x d hd hpth
    rw [hnil] at hps
    have : p = [] := (List.append_eq_nil_iff.mp hps).1
    subst this
    exact ⟨d, hh, hd, hpth⟩
  · rw [foldl_dstep_other x.idd x.dhash h p _ hfor hx]
    exact ⟨d, hh, hd, hpth⟩

/-- what is on disk after `save` is the container with a prefix of the planned writes applied -/
theorem save_is_prefix (c : Cont) (x : Curve) (u : User) (fault : Option Nat) :
    ∃ p : List Write, (save c x u fault).1 = p.foldl apply c ∧
      ((∃ L s, plan c x u = .ok L ∧ p ++ s = L) ∨ (∃ s, p ++ s = dataWrites c x)) := by
  unfold save
  cases hplan : plan c x u with
  | error e =>
    simp only
    cases hg : c.ana x.idd with
    | none => exact ⟨[], rfl, Or.inr ⟨_, List.nil_append _⟩⟩
    | some g =>
      simp only
      cases fault with
      | none => exact ⟨dataWrites c x, rfl, Or.inr ⟨[], List.append_nil _⟩⟩
      | some j => exact ⟨(dataWrites c x).take j, rfl, Or.inr ⟨_, List.take_append_drop j _⟩⟩
  | ok ws =>
    simp only
    cases fault with
    | none => exact ⟨ws, rfl, Or.inl ⟨ws, [], rfl, List.append_nil _⟩⟩
    | some j =>
      simp only
      split
      · exact ⟨ws.take j, rfl, Or.inl ⟨ws, _, rfl, List.take_append_drop j _⟩⟩
      · exact ⟨ws, rfl, Or.inl ⟨ws, [], rfl, List.append_nil _⟩⟩

theorem save_loadable (c : Cont) (x : Curve) (u : User) (wf : WF x u) (hl : Loadable c)
    (fault : Option Nat) : Loadable (save c x u fault).1 := by
  obtain ⟨p, hp, hcase⟩ := save_is_prefix c x u fault
  rw [hp]
  rcases hcase with ⟨L, s, hplan, hps⟩ | ⟨s, hps⟩
  · exact c16_partial_save_loadable c x u wf hl L p s hplan hps
  · exact data_prefix_loadable c x hl p s hps

theorem save_writes_for (c : Cont) (x : Curve) (u : User) (fault : Option Nat) :
    ∃ p : List Write, (save c x u fault).1 = p.foldl apply c ∧ ∀ w ∈ p, ForCurve x.idd x.dhash w := by
  obtain ⟨p, hp, hcase⟩ := save_is_prefix c x u fault
  refine ⟨p, hp, ?_⟩
  rcases hcase with ⟨L, s, hplan, hps⟩ | ⟨s, hps⟩
  · exact fun w hw => plan_for c x u L hplan w (by rw [← hps]; exact List.mem_append_left _ hw)
  · exact fun w hw => dataWrites_for c x w (by rw [← hps]; exact List.mem_append_left _ hw)

/-- **grow only**: whatever happens during a save (success, refusal, failure at any write),
the entries of all other curves are exactly what they were -/
theorem c16_grow_only (c : Cont) (x : Curve) (u : User) (fault : Option Nat) (k : String)
    (hk : k ≠ x.idd) : (save c x u fault).1.ana k = c.ana k := by
  obtain ⟨p, hp, hfor⟩ := save_writes_for c x u fault
  rw [hp, foldl_ana, foldl_gstep_other x.idd x.dhash k p _ hfor hk]

/-- the rating a complete group yields when loaded -/
def sel (c : Cont) (k : String) : Option Rating :=
  match c.ana k with
  | some g => if complete g then some { idd := k, group := g } else none
  | none => none

theorem loadKeys_ok (c : Cont) (hl : Loadable c) :
    ∀ ks, loadKeys c ks = .ok (ks.filterMap (sel c)) := by
  intro ks
  induction ks with
  | nil => rfl
  | cons k ks ih =>
    simp only [loadKeys, List.filterMap_cons, sel]
    cases hg : c.ana k with
    | none => simpa using ih
    | some g =>
      simp only
      by_cases hc : complete g = true
      · obtain ⟨h, d, hh, hd, hp⟩ := hl k g hg hc
        simp only [hc, ↓reduceIte, hh, hd, hp, ih]
        rfl
      · simp only [hc, Bool.false_eq_true, ↓reduceIte]
        exact ih

theorem apply_keys_other (c : Cont) (w : Write) (idd h k : String) (hw : ForCurve idd h w)
    (hk : k ≠ idd) (hmem : k ∈ c.anaKeys) : k ∈ (apply c w).anaKeys := by
  cases w <;> simp only [apply] <;> (try exact hmem)
  · simp only [ForCurve] at hw; subst hw
    simp [List.mem_filter, hmem, hk]
  · split
    · exact hmem
    · exact List.mem_append_left _ hmem

theorem foldl_keys_other (ws : List Write) (c : Cont) (idd h k : String)
    (hw : ∀ w ∈ ws, ForCurve idd h w) (hk : k ≠ idd) (hmem : k ∈ c.anaKeys) :
    k ∈ (ws.foldl apply c).anaKeys := by
  induction ws generalizing c with
  | nil => exact hmem
  | cons w ws ih =>
    simp only [List.foldl_cons]
    apply ih _ (fun w' hw' => hw w' (List.mem_cons_of_mem _ hw'))
    exact apply_keys_other c w idd h k (hw w List.mem_cons_self) hk hmem

/-- **a save that fails part-way never makes previously stored ratings unreadable**: after a
save that succeeds, is refused, or fails at an arbitrary write, the container still loads, and
every rating of another curve that could be loaded before is loaded unchanged -/
theorem c16_partial_save_safe (c : Cont) (x : Curve) (u : User) (wf : WF x u) (hl : Loadable c)
    (fault : Option Nat) :
    ∃ rs, load (save c x u fault).1 = .ok rs ∧
      ∀ rs0, load c = .ok rs0 → ∀ r ∈ rs0, r.idd ≠ x.idd → r ∈ rs := by
  have hl' := save_loadable c x u wf hl fault
  refine ⟨_, loadKeys_ok _ hl' _, ?_⟩
  intro rs0 hrs0 r hr hne
  unfold load at hrs0
  rw [loadKeys_ok c hl] at hrs0
  injection hrs0 with hrs0
  subst hrs0
  obtain ⟨k, hk, hsel⟩ := List.mem_filterMap.mp hr
  have hidd : r.idd = k := by
    unfold sel at hsel
    split at hsel
    · split at hsel
      · injection hsel with hsel; rw [← hsel]
      · simp at hsel
    · simp at hsel
  have hk' : k ≠ x.idd := by rw [← hidd]; exact hne
  apply List.mem_filterMap.mpr
  obtain ⟨p, hp, hfor⟩ := save_writes_for c x u fault
  refine ⟨k, ?_, ?_⟩
  · rw [hp]; exact foldl_keys_other p c x.idd x.dhash k hfor hk' hk
  · unfold sel
    rw [c16_grow_only c x u fault k hk']
    exact hsel

/-- storing a *different fit* for an already stored curve is refused and leaves the container
exactly as it was -/
theorem c16_resave_different (c : Cont) (x : Curve) (u : User) (g0 : Group) (d : Data)
    (hg0 : c.ana x.idd = some g0) (hc0 : complete g0 = true)
    (hd : c.data x.dhash = some d) (hp : d.path.isSome = true)
    (hfit : alookup g0.dsets "fit" ≠ alookup x.dsets "fit") :
    (save c x u none).2 = .error .differentFit ∧
    (save c x u none).1.ana = c.ana ∧ (save c x u none).1.data = c.data := by
  have hplan : plan c x u = .error .differentFit := by simp [plan, hg0, hc0, hfit]
  have hnil := dataWrites_nil c x d hd hp
  simp [save, hplan, hg0, hnil]

/-- storing the same curve again changes nothing but attributes of that group: its datasets
(all six columns) are what they were -/
theorem c16_resave_same_keeps_columns (c : Cont) (x : Curve) (u : User) (wf : WF x u) (g0 : Group)
    (hg0 : c.ana x.idd = some g0) (hc0 : complete g0 = true)
    (hfit : alookup g0.dsets "fit" = alookup x.dsets "fit") (fault : Option Nat) :
    ∃ g, (save c x u fault).1.ana x.idd = some g ∧ g.dsets = g0.dsets ∧ complete g = true ∧
      alookup g.attrs "data hash" = alookup g0.attrs "data hash" := by
  have hplan : plan c x u = .ok (dataWrites c x ++ userWrites x u) := by simp [plan, hg0, hc0, hfit]
  obtain ⟨p, hp, hcase⟩ := save_is_prefix c x u fault
  rw [hp, foldl_ana, hg0]
  have hkeep : KeepsHash g0 (p.foldl (gstep x.idd) (some g0)) := by
    rcases hcase with ⟨L, s, hL, hps⟩ | ⟨s, hps⟩
    · rw [hplan] at hL
      injection hL with hL
      apply foldl_inv (KeepsHash g0) (gstep x.idd) p (some g0)
      · exact ⟨g0, rfl, rfl, fun h => h, rfl⟩
      · intro og w hw h
        have hmem : w ∈ dataWrites c x ++ userWrites x u := by
          rw [hL, ← hps]; exact List.mem_append_left _ hw
        rcases List.mem_append.mp hmem with h1 | h1
        · rw [gstep_data _ _ _ (dataWrites_isData c x w h1)]; exact h
        · exact gstep_keepsHash x.idd g0 og w (userWrites_noHash x u wf w h1) h
    · have hdat : ∀ w ∈ p, IsData w := fun w hw =>
        dataWrites_isData c x w (by rw [← hps]; exact List.mem_append_left _ hw)
      rw [foldl_gstep_data _ _ _ hdat]
      exact ⟨g0, rfl, rfl, fun h => h, rfl⟩
  obtain ⟨g, hg, hh, hc, hd⟩ := hkeep
  exact ⟨g, hg, hd, hc hc0, hh⟩

/-- writes that do not create or delete analysis groups leave the list of groups alone -/
def KeepsKeys : Write → Prop
  | .grpDel _ => False
  | .grpNew _ => False
  | _ => True

theorem foldl_keepsKeys (ws : List Write) (c : Cont) (hw : ∀ w ∈ ws, KeepsKeys w) :
    (ws.foldl apply c).anaKeys = c.anaKeys := by
  induction ws generalizing c with
  | nil => rfl
  | cons w ws ih =>
    simp only [List.foldl_cons]
    rw [ih _ (fun w' hw' => hw w' (List.mem_cons_of_mem _ hw'))]
    have := hw w List.mem_cons_self
    cases w <;> simp_all [apply, KeepsKeys]

/-- round trip of one curve into an empty container (arbitrary tokens, arbitrary fit settings):
it loads back as exactly one rating holding the six columns, the identifying attributes and the
user fields that were saved -/
theorem c16_roundtrip (h i e pth raw t1 t2 t3 t4 t5 t6 uc un ur : Tok) (fa : List (String × Tok))
    (hfa : ∀ p ∈ fa, p.1 ≠ "data hash") :
    let x : Curve := Curve.mk h i e pth raw fa
      [("fit", t1), ("fit range", t2), ("force", t3), ("fit residuals", t4),
       ("tip position", t5), ("segment", t6)]
    let u : User := User.mk uc un ur []
    ∃ g, load (save empty x u none).1 = .ok [{ idd := i, group := g }] ∧
      alookup g.dsets "fit" = some t1 ∧ alookup g.dsets "fit range" = some t2 ∧
      alookup g.dsets "force" = some t3 ∧ alookup g.dsets "fit residuals" = some t4 ∧
      alookup g.dsets "tip position" = some t5 ∧ alookup g.dsets "segment" = some t6 ∧
      alookup g.attrs "user comment" = some uc ∧ alookup g.attrs "user name" = some un ∧
      alookup g.attrs "user rate" = some ur ∧ alookup g.attrs "data hash" = some h := by
  intro x u
  have wf : WF x u := ⟨hfa, by intro p hp; simp [u] at hp⟩
  have hlE : Loadable empty := by intro k g hk; simp [empty] at hk
  have hl := save_loadable empty x u wf hlE none
  -- the written prefix
  let A : List Write := [.dataSet h raw, .dataPath h pth, .grpNew i, .attr i "data enum" e,
    .attr i "data hash" h]
  let B : List Write := fa.map (fun p => Write.attr i p.1 p.2)
  let C : List Write := [.dset i "fit" t1, .dset i "fit range" t2, .dset i "force" t3,
    .dset i "fit residuals" t4, .dset i "tip position" t5, .dset i "segment" t6,
    .attr i "user comment" uc, .attr i "user name" un, .attr i "user rate" ur]
  have hsave : (save empty x u none).1 = (A ++ B ++ C).foldl apply empty := by
    simp [save, plan, empty, dataWrites, groupWrites, userWrites, x, u, A, B, C]
  -- the group after A ++ B
  have hAB : ∃ g, (A ++ B).foldl (gstep i) none = some g ∧ g.dsets = [] ∧
      alookup g.attrs "data hash" = some h := by
    rw [List.foldl_append]
    apply foldl_inv (fun (og : Option Group) => ∃ g : Group, og = some g ∧ g.dsets = [] ∧
      alookup g.attrs "data hash" = some h)
    · exact ⟨{ attrs := aset (aset [] "data enum" e) "data hash" h, dsets := [] },
        by simp [A, gstep], rfl, by simp [alookup_aset]⟩
    · intro og w hw ⟨g, hg, hd, hh⟩
      obtain ⟨p, hp, rfl⟩ := List.mem_map.mp hw
      subst hg
      refine ⟨{ g with attrs := aset g.attrs p.1 p.2 }, by simp [gstep], hd, ?_⟩
      simp only
      rw [alookup_aset_other _ _ _ _ (Ne.symm (hfa p hp))]
      exact hh
  obtain ⟨g1, hg1, hd1, hh1⟩ := hAB
  have hkeys : ((A ++ B ++ C).foldl apply empty).anaKeys = [i] := by
    have : A ++ B ++ C = [.dataSet h raw, .dataPath h pth, .grpNew i] ++
        ([.attr i "data enum" e, .attr i "data hash" h] ++ B ++ C) := by simp [A]
    rw [this, List.foldl_append, foldl_keepsKeys]
    · simp [apply, empty]
    · intro w hw
      simp only [List.cons_append, List.nil_append, List.mem_cons, List.mem_append, B, C,
        List.mem_map, List.mem_nil_iff, or_false] at hw
      rcases hw with rfl | rfl | ⟨p, _, rfl⟩ | hw
      · simp [KeepsKeys]
      · simp [KeepsKeys]
      · simp [KeepsKeys]
      · rcases hw with rfl | rfl | rfl | rfl | rfl | rfl | rfl | rfl | rfl <;> simp [KeepsKeys]
  have hgrp : ((A ++ B ++ C).foldl apply empty).ana i = (C.foldl (gstep i) (some g1)) := by
    rw [foldl_ana, List.foldl_append, show empty.ana i = none from rfl, hg1]
  -- compute the final group
  have hfinal : C.foldl (gstep i) (some g1) = some
      { attrs := aset (aset (aset g1.attrs "user comment" uc) "user name" un) "user rate" ur,
        dsets := aset (aset (aset (aset (aset (aset [] "fit" t1) "fit range" t2) "force" t3)
          "fit residuals" t4) "tip position" t5) "segment" t6 } := by
    simp [C, gstep, hd1]
  refine ⟨Group.mk (aset (aset (aset g1.attrs "user comment" uc) "user name" un) "user rate" ur)
        (aset (aset (aset (aset (aset (aset [] "fit" t1) "fit range" t2) "force" t3)
          "fit residuals" t4) "tip position" t5) "segment" t6), ?_, ?_⟩
  · unfold load
    rw [loadKeys_ok _ hl, hsave, hkeys]
    simp only [List.filterMap_cons, List.filterMap_nil, sel, hgrp, hfinal]
    have hc : complete
        { attrs := aset (aset (aset g1.attrs "user comment" uc) "user name" un) "user rate" ur,
          dsets := aset (aset (aset (aset (aset (aset [] "fit" t1) "fit range" t2) "force" t3)
            "fit residuals" t4) "tip position" t5) "segment" t6 } = true := by
      have he : (alookup g1.attrs "data enum").isSome = true := by
        have : ∃ g, (A ++ B).foldl (gstep i) none = some g ∧
            (alookup g.attrs "data enum").isSome = true := by
          rw [List.foldl_append]
          apply foldl_inv (fun (og : Option Group) => ∃ g : Group, og = some g ∧
            (alookup g.attrs "data enum").isSome = true)
          · exact ⟨{ attrs := aset (aset [] "data enum" e) "data hash" h, dsets := [] },
              by simp [A, gstep], by simp [alookup_aset]⟩
          · intro og w hw ⟨g, hg, he⟩
            obtain ⟨p, hp, rfl⟩ := List.mem_map.mp hw
            subst hg
            exact ⟨{ g with attrs := aset g.attrs p.1 p.2 }, by simp [gstep],
              alookup_aset_isSome _ _ _ _ he⟩
        obtain ⟨g, hg, he⟩ := this
        rw [hg1] at hg
        injection hg with hg
        subst hg
        exact he
      simp [complete, dsetNames, attrNames, alookup_aset, hh1, he]
    simp [hc]
  · simp [alookup_aset, hh1]


/-! ### "storing the same curve again updates only the user fields" -/

/-- the attribute names a save writes as user fields -/
def userKeys (u : User) : List String :=
  ["user comment", "user name", "user rate"] ++ u.extra.map Prod.fst

/-- a write that leaves attribute `k` and the group's existence / datasets alone -/
def NoKey (k : String) : Write → Prop
  | .attr _ a _ => a ≠ k
  | .grpDel _ => False
  | .grpNew _ => False
  | .dset _ _ _ => False
  | _ => True

theorem userWrites_noKey (x : Curve) (u : User) (k : String) (hk : k ∉ userKeys u) :
    ∀ w ∈ userWrites x u, NoKey k w := by
  intro w hw
  unfold userWrites at hw
  unfold userKeys at hk
  simp only [List.cons_append, List.nil_append, List.mem_cons, List.mem_append, List.mem_map,
    List.mem_nil_iff, false_or, not_or, or_false] at hw hk
  rcases hw with h | h | h | ⟨p, hp, h⟩ <;> subst h <;> simp only [NoKey, ne_eq]
  · exact fun e => hk.1 e.symm
  · exact fun e => hk.2.1 e.symm
  · exact fun e => hk.2.2.1 e.symm
  · exact fun e => hk.2.2.2 ⟨p, hp, e⟩

def KeepsAttr (k : String) (g0 : Group) (og : Option Group) : Prop :=
  ∃ g, og = some g ∧ alookup g.attrs k = alookup g0.attrs k

theorem gstep_keepsAttr (idd k : String) (g0 : Group) (og : Option Group) (w : Write) (hw : NoKey k w)
    (h : KeepsAttr k g0 og) : KeepsAttr k g0 (gstep idd og w) := by
  obtain ⟨g, hg, hh⟩ := h
  subst hg
  cases w with
  | dataDel _ => exact ⟨g, rfl, hh⟩
  | dataSet _ _ => exact ⟨g, rfl, hh⟩
  | dataPath _ _ => exact ⟨g, rfl, hh⟩
  | grpDel i => exact absurd hw (by simp [NoKey])
  | grpNew i => exact absurd hw (by simp [NoKey])
  | dset i a t => exact absurd hw (by simp [NoKey])
  | attr i a val =>
    simp only [gstep]
    split
    · simp only [NoKey] at hw
      refine ⟨_, rfl, ?_⟩
      simp only
      rw [alookup_aset_other _ _ _ _ (Ne.symm hw)]
      exact hh
    · exact ⟨g, rfl, hh⟩

/-- **only the user fields change**: when a complete entry with the same fit is stored again – whatever
the fit settings of the object handed in, and whether or not the save fails part-way – every attribute that
is not a user field (all `fit …` settings, parameters and the hash in particular) is what it was -/
theorem c16_resave_same_keeps_other_attrs (c : Cont) (x : Curve) (u : User) (g0 : Group)
    (hg0 : c.ana x.idd = some g0) (hc0 : complete g0 = true)
    (hfit : alookup g0.dsets "fit" = alookup x.dsets "fit") (fault : Option Nat)
    (k : String) (hk : k ∉ userKeys u) :
    ∃ g, (save c x u fault).1.ana x.idd = some g ∧ alookup g.attrs k = alookup g0.attrs k := by
  have hplan : plan c x u = .ok (dataWrites c x ++ userWrites x u) := by simp [plan, hg0, hc0, hfit]
  obtain ⟨p, hp, hcase⟩ := save_is_prefix c x u fault
  rw [hp, foldl_ana, hg0]
  rcases hcase with ⟨L, s, hL, hps⟩ | ⟨s, hps⟩
  · rw [hplan] at hL
    injection hL with hL
    apply foldl_inv (KeepsAttr k g0) (gstep x.idd) p (some g0)
    · exact ⟨g0, rfl, rfl⟩
    · intro og w hw h
      have hmem : w ∈ dataWrites c x ++ userWrites x u := by
        rw [hL, ← hps]; exact List.mem_append_left _ hw
      rcases List.mem_append.mp hmem with h1 | h1
      · rw [gstep_data _ _ _ (dataWrites_isData c x w h1)]; exact h
      · exact gstep_keepsAttr x.idd k g0 og w (userWrites_noKey x u k hk w h1) h
  · have hdat : ∀ w ∈ p, IsData w := fun w hw =>
      dataWrites_isData c x w (by rw [← hps]; exact List.mem_append_left _ hw)
    rw [foldl_gstep_data _ _ _ hdat]
    exact ⟨g0, rfl, rfl⟩

/-- non-vacuity: a stored fit setting is not a user field -/
example (u : User) (h : ∀ p ∈ u.extra, p.1 ≠ "fit range_x") : "fit range_x" ∉ userKeys u := by
  unfold userKeys
  simp only [List.cons_append, List.nil_append, List.mem_cons, List.mem_map, not_or, not_exists, not_and]
  refine ⟨by decide, by decide, by decide, fun p hp e => h p hp e⟩

end Nanite.C16
