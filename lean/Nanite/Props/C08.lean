import Nanite.Model.Poc
import Mathlib.Tactic.Ring
import Mathlib.Tactic.Linarith
import Mathlib.Tactic.FieldSimp
import Mathlib.Data.List.GetD
/-!
# C08 – Contact-point estimators return a usable, scale-independent index  (partial)
Proved over any ordered field, for every force array: clipping, the threshold estimator
(`deviation_from_baseline`), the Fréchet estimator and the normalisation fed to the three fit-based
estimators are invariant under `f ↦ a·f + b` (a > 0); estimates are valid indices; the NaN fallback
is the centre of the clipped data.  Not proved: the optimiser-based indices, the moving-average
filter of `gradient_zero_crossing`, accuracy on model curves and "within one sample" for
non-power-of-two factors in floating point – explored by the oracle.
-/
set_option linter.unusedSectionVars false
namespace Nanite.C08
open Nanite.Poc
variable {K : Type} [Field K] [LinearOrder K] [IsStrictOrderedRing K]

/-- positive affine maps `x ↦ a·x + b` -/
def aff (a b : K) (x : K) : K := a * x + b

theorem aff_lt (a b : K) (ha : 0 < a) (x y : K) : aff a b x < aff a b y ↔ x < y := by
  unfold aff
  constructor
  · intro h
    by_contra hc
    have : y ≤ x := not_lt.mp hc
    nlinarith
  · intro h; nlinarith

theorem aff_inj (a b : K) (ha : 0 < a) (x y : K) : aff a b x = aff a b y ↔ x = y := by
  unfold aff
  constructor
  · intro h
    have : a * (x - y) = 0 := by linarith
    rcases mul_eq_zero.mp this with h1 | h1
    · exact absurd h1 ha.ne'
    · linarith
  · intro h; rw [h]

theorem argmaxAux_aff (a b : K) (ha : 0 < a) (xs : List K) (i bi : Nat) (bv : K) :
    argmaxAux (xs.map (aff a b)) i bi (aff a b bv) = argmaxAux xs i bi bv := by
  induction xs generalizing i bi bv with
  | nil => rfl
  | cons x xs ih =>
    simp only [List.map_cons, argmaxAux, aff_lt a b ha]
    split
    · exact ih _ _ _
    · exact ih _ _ _

theorem argminAux_aff (a b : K) (ha : 0 < a) (xs : List K) (i bi : Nat) (bv : K) :
    argminAux (xs.map (aff a b)) i bi (aff a b bv) = argminAux xs i bi bv := by
  induction xs generalizing i bi bv with
  | nil => rfl
  | cons x xs ih =>
    simp only [List.map_cons, argminAux, aff_lt a b ha]
    split
    · exact ih _ _ _
    · exact ih _ _ _

/-- `argmax` is unchanged by a positive affine map … -/
theorem argmax_aff (a b : K) (ha : 0 < a) (f : List K) : argmax (f.map (aff a b)) = argmax f := by
  cases f with
  | nil => rfl
  | cons x xs => simp only [List.map_cons, argmax, argmaxAux_aff a b ha]

/-- … hence so is the clipping to the approach part -/
theorem c08_clip_invariant (a b : K) (ha : 0 < a) (f : List K) :
    clip (f.map (aff a b)) = (clip f).map (aff a b) := by
  unfold clip
  rw [argmax_aff a b ha]
  cases argmax f with
  | none => rfl
  | some i => simp [List.map_take]

theorem max_aff (a b : K) (ha : 0 < a) (x y : K) : max (aff a b x) (aff a b y) = aff a b (max x y) := by
  rcases le_total x y with h | h
  · rw [max_eq_right h, max_eq_right]
    unfold aff; nlinarith
  · rw [max_eq_left h, max_eq_left]
    unfold aff; nlinarith

theorem min_aff (a b : K) (ha : 0 < a) (x y : K) : min (aff a b x) (aff a b y) = aff a b (min x y) := by
  rcases le_total x y with h | h
  · rw [min_eq_left h, min_eq_left]
    unfold aff; nlinarith
  · rw [min_eq_right h, min_eq_right]
    unfold aff; nlinarith

theorem lmax_aff (a b : K) (ha : 0 < a) (f : List K) : lmax (f.map (aff a b)) = (lmax f).map (aff a b) := by
  induction f with
  | nil => rfl
  | cons x xs ih =>
    simp only [List.map_cons, lmax, ih]
    cases lmax xs with
    | none => rfl
    | some m => simp [max_aff a b ha]

theorem lmin_aff (a b : K) (ha : 0 < a) (f : List K) : lmin (f.map (aff a b)) = (lmin f).map (aff a b) := by
  induction f with
  | nil => rfl
  | cons x xs ih =>
    simp only [List.map_cons, lmin, ih]
    cases lmin xs with
    | none => rfl
    | some m => simp [min_aff a b ha]

/-- **the normalised force is invariant** under multiplication by a positive factor and under a
constant offset – the optimiser of the three fit-based estimators receives identical input -/
theorem c08_normalised_input_invariant (a b : K) (ha : 0 < a) (f : List K) :
    normalise (f.map (aff a b)) = normalise f := by
  unfold normalise
  rw [lmin_aff a b ha, lmax_aff a b ha]
  cases hlo : lmin f with
  | none => rfl
  | some lo =>
    cases hhi : lmax f with
    | none => rfl
    | some hi =>
      simp only [Option.map_some, aff_inj a b ha]
      split
      · rfl
      · rename_i hne
        congr 1
        rw [List.map_map]
        apply List.map_congr_left
        intro x _
        simp only [Function.comp, aff]
        have h1 : hi - lo ≠ 0 := sub_ne_zero.mpr hne
        have h2 : a * hi + b - (a * lo + b) = a * (hi - lo) := by ring
        have h3 : a * x + b - (a * lo + b) = a * (x - lo) := by ring
        rw [h2, h3, mul_div_mul_left _ _ ha.ne']

/-- the Fréchet estimator is invariant -/
theorem c08_affine_invariant_frechet (s c a b : K) (ha : 0 < a) (f : List K) :
    frechet s c (f.map (aff a b)) = frechet s c f := by
  unfold frechet
  rw [c08_normalised_input_invariant a b ha, List.length_map]

theorem sum_map_aff (a b : K) (l : List K) : (l.map (aff a b)).sum = a * l.sum + (l.length : K) * b := by
  induction l with
  | nil => simp
  | cons x xs ih =>
    simp only [List.map_cons, List.sum_cons, ih, List.length_cons, Nat.cast_add, Nat.cast_one, aff]
    ring

theorem lmax_scale (a : K) (ha : 0 < a) (l : List K) : lmax (l.map (a * ·)) = (lmax l).map (a * ·) := by
  have h : (fun x : K => a * x) = aff a 0 := by funext x; simp [aff]
  rw [h]; exact lmax_aff a 0 ha l

theorem firstIdx_congr (p q : K → Bool) (g : K → K) (h : ∀ x, q (g x) = p x) (l : List K) (i : Nat) :
    firstIdx q (l.map g) i = firstIdx p l i := by
  induction l generalizing i with
  | nil => rfl
  | cons x xs ih => simp only [List.map_cons, firstIdx, h, ih]

/-- **the threshold estimator is invariant** under `f ↦ a·f + b`, a > 0 -/
theorem c08_affine_invariant_deviation (a b : K) (ha : 0 < a) (f : List K) :
    devBaseline (f.map (aff a b)) = devBaseline f := by
  unfold devBaseline
  simp only [List.length_map, ← List.map_take]
  by_cases hemp : (f.take (f.length / 10)).isEmpty = true
  · simp only [List.isEmpty_map, hemp, ↓reduceIte]
  · have hne : f.take (f.length / 10) ≠ [] := by simpa using hemp
    simp only [List.isEmpty_map, hemp, Bool.false_eq_true, ↓reduceIte]
    set bl := f.take (f.length / 10) with hbl
    have hlen : ((bl.length : Nat) : K) ≠ 0 := by
      have : 0 < bl.length := List.length_pos_iff.mpr hne
      exact_mod_cast this.ne'
    have havg : (bl.map (aff a b)).sum / (bl.length : K) = aff a b (bl.sum / (bl.length : K)) := by
      rw [sum_map_aff]
      unfold aff
      field_simp
    rw [havg]
    have hdev : (bl.map (aff a b)).map (fun x => |x - aff a b (bl.sum / (bl.length : K))|) =
        (bl.map (fun x => |x - bl.sum / (bl.length : K)|)).map (a * ·) := by
      rw [List.map_map, List.map_map]
      apply List.map_congr_left
      intro x _
      simp only [Function.comp, aff]
      have : a * x + b - (a * (bl.sum / (bl.length : K)) + b) = a * (x - bl.sum / (bl.length : K)) := by ring
      rw [this, abs_mul, abs_of_pos ha]
    rw [hdev, lmax_scale a ha]
    cases hm : lmax (bl.map (fun x => |x - bl.sum / (bl.length : K)|)) with
    | none => rfl
    | some m =>
      simp only [Option.map_some]
      apply firstIdx_congr
      intro x
      apply decide_eq_decide.mpr
      unfold aff
      have : a * x + b - (a * (bl.sum / (bl.length : K)) + b) = a * (x - bl.sum / (bl.length : K)) := by ring
      rw [this]
      constructor
      · intro h
        by_contra hc
        have : x - bl.sum / (bl.length : K) ≤ 2 * m := not_lt.mp hc
        nlinarith
      · intro h; nlinarith

/-- the whole `compute_poc` pipeline (clip, estimate, fallback) is invariant for every estimator
that is itself invariant -/
theorem c08_compute_poc_invariant (est : List K → Option Nat) (a b : K) (ha : 0 < a)
    (hest : ∀ g : List K, est (g.map (aff a b)) = est g) (f : List K) :
    computePoc est (f.map (aff a b)) = computePoc est f := by
  unfold computePoc
  rw [c08_clip_invariant a b ha, hest, List.length_map]

/-! ## valid indices -/
theorem firstIdx_lt (p : K → Bool) (l : List K) (i k : Nat) (h : firstIdx p l i = some k) :
    i ≤ k ∧ k < i + l.length := by
  induction l generalizing i with
  | nil => simp [firstIdx] at h
  | cons x xs ih =>
    simp only [firstIdx] at h
    split at h
    · injection h with h; subst h; simp
    · have := ih (i + 1) h
      simp only [List.length_cons]; omega

theorem argminAux_lt (l : List K) (i bi : Nat) (bv : K) (hb : bi < i) : argminAux l i bi bv < i + l.length := by
  induction l generalizing i bi bv with
  | nil => simpa [argminAux] using hb
  | cons x xs ih =>
    simp only [argminAux, List.length_cons]
    split
    · have := ih (i + 1) i x (by omega); omega
    · have := ih (i + 1) bi bv (by omega); omega

theorem argmaxAux_lt (l : List K) (i bi : Nat) (bv : K) (hb : bi < i) : argmaxAux l i bi bv < i + l.length := by
  induction l generalizing i bi bv with
  | nil => simpa [argmaxAux] using hb
  | cons x xs ih =>
    simp only [argmaxAux, List.length_cons]
    split
    · have := ih (i + 1) i x (by omega); omega
    · have := ih (i + 1) bi bv (by omega); omega

/-- the threshold estimator returns NaN or a valid index -/
theorem c08_index_valid_deviation (f : List K) (k : Nat) (h : devBaseline f = some k) : k < f.length := by
  unfold devBaseline at h
  simp only at h
  split at h
  · cases h
  · split at h
    · cases h
    · have := firstIdx_lt _ f 0 k h
      omega

theorem argmin_lt (l : List K) (k : Nat) (h : argmin l = some k) : k < l.length := by
  cases l with
  | nil => simp [argmin] at h
  | cons x xs =>
    simp only [argmin, Option.some.injEq] at h
    have := argminAux_lt xs 1 0 x (by omega)
    simp only [List.length_cons]; omega

/-- the Fréchet estimator returns NaN (degenerate data) or a valid index -/
theorem c08_index_valid_frechet (s c : K) (f : List K) (k : Nat) (h : frechet s c f = some k) :
    k < f.length := by
  unfold frechet at h
  cases hn : normalise f with
  | none => rw [hn] at h; cases h
  | some y =>
    rw [hn] at h
    have := argmin_lt _ k h
    simp only [List.length_zipWith, List.length_map, List.length_range] at this
    omega

/-- degenerate data (empty, or all values equal – e.g. the empty clipped part of a constant or
monotonically decreasing force) give NaN, not an exception -/
theorem c08_frechet_degenerate (f : List K) (h : f = [] ∨ ∃ v, ∀ x ∈ f, x = v) :
    normalise f = none := by
  rcases h with h | ⟨v, hv⟩
  · subst h; rfl
  · unfold normalise
    cases f with
    | nil => rfl
    | cons x xs =>
      have hall : ∀ l : List K, (∀ y ∈ l, y = v) → l ≠ [] → lmin l = some v ∧ lmax l = some v := by
        intro l hl hne
        induction l with
        | nil => exact absurd rfl hne
        | cons y ys ih =>
          have hy := hl y List.mem_cons_self
          cases ys with
          | nil => simp [lmin, lmax, hy]
          | cons z zs =>
            have := ih (fun w hw => hl w (List.mem_cons_of_mem _ hw)) (by simp)
            simp only [lmin, lmax] at this ⊢
            rw [this.1, this.2, hy]
            simp
      obtain ⟨h1, h2⟩ := hall (x :: xs) hv (by simp)
      rw [h1, h2]
      simp

/-- the clipped array is a proper prefix: its argmax index is valid -/
theorem c08_clip_length (f : List K) (hne : f ≠ []) : (clip f).length < f.length := by
  unfold clip
  cases f with
  | nil => exact absurd rfl hne
  | cons x xs =>
    simp only [argmax]
    have := argmaxAux_lt xs 1 0 x (by omega)
    simp only [List.length_take, List.length_cons]
    omega

/-- **`compute_poc` always returns a valid index** into the force array (estimators that return NaN
or an index into the clipped array; non-empty force) -/
theorem c08_fallback_valid (est : List K → Option Nat) (hest : ∀ g k, est g = some k → k < g.length)
    (f : List K) (hne : f ≠ []) : computePoc est f < f.length := by
  unfold computePoc
  have hc := c08_clip_length f hne
  cases h : est (clip f) with
  | some k => have := hest _ _ h; simp only; omega
  | none => simp only; omega

/-- the NaN fallback is the centre of the clipped data -/
theorem c08_fallback (est : List K → Option Nat) (f : List K) (h : est (clip f) = none) :
    computePoc est f = (clip f).length / 2 := by
  simp [computePoc, h]

/-! ## the gradient estimator and the fit-based estimators -/
theorem aff_zero (a : K) : aff a 0 = (a * ·) := by funext x; simp [aff]

theorem uniformFilter_aff (size : Nat) (hs : size ≠ 0) (a b : K) (y : List K) :
    uniformFilter size (y.map (aff a b)) = (uniformFilter size y).map (aff a b) := by
  unfold uniformFilter
  rw [List.map_map, List.length_map]
  apply List.map_congr_left
  intro i _
  simp only [Function.comp]
  cases y with
  | nil => simp at *
  | cons x xs =>
    have hget : ∀ j, (List.map (aff a b) (x :: xs)).getD j ((List.map (aff a b) (x :: xs)).headD 0)
        = aff a b ((x :: xs).getD j ((x :: xs).headD 0)) := by
      intro j
      simp only [List.map_cons, List.headD_cons]
      rw [← List.map_cons, List.getD_map]
    simp only [hget]
    have hsum : ∀ (l : List Nat) (v : Nat → K), (l.map fun k => aff a b (v k)).sum =
        a * (l.map v).sum + (l.length : K) * b := by
      intro l v
      have := sum_map_aff a b (l.map v)
      rwa [List.map_map, List.length_map] at this
    rw [hsum, List.length_range]
    have hsz : (size : K) ≠ 0 := by exact_mod_cast hs
    unfold aff
    field_simp

theorem gradInner_aff (a b : K) (y : List K) :
    gradInner (y.map (aff a b)) = (gradInner y).map (a * ·) := by
  match y with
  | [] => rfl
  | [_] => rfl
  | [_, _] => rfl
  | p :: q :: r :: t =>
    have ih := gradInner_aff a b (q :: r :: t)
    simp only [List.map_cons] at ih ⊢
    simp only [gradInner, List.map_cons, ih]
    congr 1
    unfold aff; ring

theorem lastDiff_aff (a b : K) (y : List K) : lastDiff (y.map (aff a b)) = a * lastDiff y := by
  match y with
  | [] => simp [lastDiff]
  | [_] => simp [lastDiff]
  | [p, q] => simp only [List.map_cons, List.map_nil, lastDiff, aff]; ring
  | p :: q :: r :: t =>
    have ih := lastDiff_aff a b (q :: r :: t)
    simp only [List.map_cons] at ih ⊢
    simp only [lastDiff, ih]

theorem gradient_aff (a b : K) (y : List K) : gradient (y.map (aff a b)) = (gradient y).map (a * ·) := by
  match y with
  | [] => rfl
  | [_] => rfl
  | p :: q :: t =>
    have h1 := gradInner_aff a b (p :: q :: t)
    have h2 := lastDiff_aff a b (p :: q :: t)
    simp only [List.map_cons] at h1 h2 ⊢
    simp only [gradient, h1, h2, List.map_cons, List.map_append, List.map_nil]
    congr 1
    unfold aff; ring

theorem lastIdx_congr (p q : K → Bool) (g : K → K) (h : ∀ x, q (g x) = p x) (l : List K) (i : Nat) :
    lastIdx q (l.map g) i = lastIdx p l i := by
  induction l generalizing i with
  | nil => rfl
  | cons x xs ih => simp only [List.map_cons, lastIdx, h, ih]

/-- **the gradient estimator is invariant** under `f ↦ a·f + b`, a > 0 (both moving averages are
affine-equivariant, the gradient removes the offset, the threshold is relative to the maximum) -/
theorem c08_affine_invariant_gradient (c a b : K) (ha : 0 < a) (f : List K) :
    gradZero c (f.map (aff a b)) = gradZero c f := by
  unfold gradZero
  have hfs : max 5 (f.length / 100) ≠ 0 := by omega
  simp only [List.length_map]
  rw [uniformFilter_aff _ hfs, argmax_aff a b ha]
  split
  · rfl
  · cases argmax (uniformFilter (max 5 (f.length / 100)) f) with
    | none => rfl
    | some am =>
      simp only
      rw [gradient_aff, ← List.map_take, List.length_map]
      split
      · rfl
      · rw [← aff_zero, uniformFilter_aff _ hfs, lmax_aff a 0 ha]
        cases lmax (uniformFilter (max 5 (f.length / 100))
            (List.take (am - 10) (gradient (uniformFilter (max 5 (f.length / 100)) f)))) with
        | none => rfl
        | some mx =>
          simp only [Option.map_some]
          rw [lastIdx_congr (fun g => decide (g ≤ c * mx))]
          intro x
          apply decide_eq_decide.mpr
          unfold aff
          constructor
          · intro h
            by_contra hc
            have : c * mx < x := not_le.mp hc
            nlinarith
          · intro h; nlinarith

/-- the gradient estimator returns NaN or a valid index -/
theorem c08_index_valid_gradient (c : K) (f : List K) (k : Nat) (h : gradZero c f = some k) :
    k < f.length := by
  unfold gradZero at h
  simp only at h
  split at h
  · cases h
  · split at h
    · cases h
    · split at h
      · cases h
      · split at h
        · cases h
        · split at h
          · cases h
          · split at h
            · injection h with h; omega
            · cases h

/-- **the fit-based estimators are invariant for every optimiser**: whatever `lmfit.minimize` does
with the normalised force and the start index, it is given identical input -/
theorem c08_affine_invariant_fit (minSize : Nat) (s c : K) (opt : List K → Nat → Option Nat)
    (a b : K) (ha : 0 < a) (f : List K) :
    fitBased minSize s c opt (f.map (aff a b)) = fitBased minSize s c opt f := by
  unfold fitBased
  rw [c08_normalised_input_invariant a b ha, c08_affine_invariant_frechet s c a b ha, List.length_map]

/-- the fit-based estimators return NaN or a valid index, for every optimiser -/
theorem c08_index_valid_fit (minSize : Nat) (s c : K) (opt : List K → Nat → Option Nat) (f : List K)
    (k : Nat) (h : fitBased minSize s c opt f = some k) : k < f.length := by
  unfold fitBased at h
  split at h
  · cases h
  · cases hn : normalise f with
    | none => rw [hn] at h; cases h
    | some y =>
      rw [hn] at h
      simp only at h
      have hy : y.length = f.length := by
        unfold normalise at hn
        split at hn
        · split at hn
          · cases hn
          · injection hn with hn; rw [← hn, List.length_map]
        · cases hn
      split at h
      · split at h
        · injection h with h; omega
        · cases h
      · cases h

/-- all six estimators, through `compute_poc`: the returned index is unchanged by `f ↦ a·f + b` and
is a valid index of the (non-empty) force array -/
theorem c08_six_estimators (s c c01 : K) (opt1 opt2 opt3 : List K → Nat → Option Nat) (a b : K)
    (ha : 0 < a) (f : List K) :
    ∀ est ∈ [devBaseline, frechet s c, gradZero c01, fitBased 4 s c opt1, fitBased 6 s c opt2,
             fitBased 7 s c opt3],
      computePoc est (f.map (aff a b)) = computePoc est f ∧ (f ≠ [] → computePoc est f < f.length) := by
  intro est hest
  simp only [List.mem_cons, List.mem_nil_iff, or_false] at hest
  rcases hest with h | h | h | h | h | h <;> subst h
  · exact ⟨c08_compute_poc_invariant _ a b ha (c08_affine_invariant_deviation a b ha) f,
      c08_fallback_valid _ c08_index_valid_deviation f⟩
  · exact ⟨c08_compute_poc_invariant _ a b ha (c08_affine_invariant_frechet s c a b ha) f,
      c08_fallback_valid _ (c08_index_valid_frechet s c) f⟩
  · exact ⟨c08_compute_poc_invariant _ a b ha (c08_affine_invariant_gradient c01 a b ha) f,
      c08_fallback_valid _ (c08_index_valid_gradient c01) f⟩
  · exact ⟨c08_compute_poc_invariant _ a b ha (c08_affine_invariant_fit 4 s c opt1 a b ha) f,
      c08_fallback_valid _ (c08_index_valid_fit 4 s c opt1) f⟩
  · exact ⟨c08_compute_poc_invariant _ a b ha (c08_affine_invariant_fit 6 s c opt2 a b ha) f,
      c08_fallback_valid _ (c08_index_valid_fit 6 s c opt2) f⟩
  · exact ⟨c08_compute_poc_invariant _ a b ha (c08_affine_invariant_fit 7 s c opt3 a b ha) f,
      c08_fallback_valid _ (c08_index_valid_fit 7 s c opt3) f⟩

/-! ## accuracy of the threshold estimator on noise-free curves -/
theorem firstIdx_append_false (p : K → Bool) (pre post : List K) (i : Nat) (h : ∀ x ∈ pre, p x = false) :
    firstIdx p (pre ++ post) i = firstIdx p post (i + pre.length) := by
  induction pre generalizing i with
  | nil => simp
  | cons x xs ih =>
    simp only [List.cons_append, firstIdx, h x List.mem_cons_self, Bool.false_eq_true, ↓reduceIte,
      List.length_cons]
    rw [ih (i + 1) (fun y hy => h y (List.mem_cons_of_mem _ hy))]
    congr 1; omega

theorem lmax_replicate_zero (n : Nat) (hn : 0 < n) : lmax (List.replicate n (0 : K)) = some 0 := by
  induction n with
  | zero => omega
  | succ m ih =>
    cases m with
    | zero => simp [lmax]
    | succ k =>
      have := ih (by omega)
      rw [List.replicate_succ, lmax, this]
      simp

/-- **on a noise-free curve the threshold estimator is exact**: if the force equals `v` up to the
contact index `c` (which lies beyond the first tenth of the data) and exceeds `v` from there on, the
estimate is exactly `c` – the first sample beyond contact -/
theorem c08_deviation_exact_on_clean_curves (v : K) (c : Nat) (rest : List K) (x0 : K)
    (hrest : x0 > v) (hbl : (c + (x0 :: rest).length) / 10 ≤ c) (hbl1 : 1 ≤ (c + (x0 :: rest).length) / 10) :
    devBaseline (List.replicate c v ++ x0 :: rest) = some c := by
  unfold devBaseline
  simp only [List.length_append, List.length_replicate]
  set k := (c + (x0 :: rest).length) / 10 with hk
  have htake : (List.replicate c v ++ x0 :: rest).take k = List.replicate k v := by
    rw [List.take_append_of_le_length (by simpa using hbl), List.take_replicate, Nat.min_eq_left hbl]
  rw [htake]
  have hkpos : 0 < k := by omega
  have hne : (List.replicate k v).isEmpty = false := by
    obtain ⟨m, hm⟩ := Nat.exists_eq_succ_of_ne_zero hkpos.ne'
    rw [hm]; simp [List.replicate_succ]
  simp only [hne, Bool.false_eq_true, ↓reduceIte, List.length_replicate, List.sum_replicate, nsmul_eq_mul]
  have hkK : (k : K) ≠ 0 := by exact_mod_cast hkpos.ne'
  have havg : (k : K) * v / (k : K) = v := by field_simp
  rw [havg]
  have hdev : (List.replicate k v).map (fun b => |b - v|) = List.replicate k 0 := by
    rw [List.map_replicate]; simp
  rw [hdev, lmax_replicate_zero k hkpos]
  simp only
  rw [firstIdx_append_false _ _ _ 0 (by
    intro x hx
    rw [List.mem_replicate] at hx
    simp [hx.2])]
  simp only [firstIdx, List.length_replicate, Nat.zero_add, mul_zero]
  rw [if_pos (by simpa using hrest)]

/-! non-vacuity (ℚ) -/
example : devBaseline [(0 : ℚ), 0, 0, 0, 0, 0, 0, 0, 0, 0, 0, 1, 2, 3, 4, 5, 6, 7, 8, 9] = some 11 := by
  norm_num [devBaseline, lmax, firstIdx]
example : clip [(0 : ℚ), 1, 5, 2] = [0, 1] := by decide

end Nanite.C08
