import Nanite.Model.Preproc
import Mathlib.Tactic.Ring
import Mathlib.Tactic.Linarith
import Mathlib.Tactic.FieldSimp
import Mathlib.Data.List.GetD
import Mathlib.Data.List.Chain
/-!
# C07 – each preprocessing step does what its description says  (partial)
Proved over any ordered field about `Nanite.Model.Preproc`, for every curve: the formulas of tip-sample
separation, force-offset and tip-offset correction (constant shift, zero baseline mean, zero tip position
at the contact index); slope correction (data outside the region untouched, no jump at the region
boundary, the correction is the fitted line up to a constant, with the least-squares line the corrected
baseline has zero trend); segment discovery (single switch at the first farthest point); monotone
smoothing (whenever it returns, the result is strictly monotone and as long as the input).
Not proved: the optimiser of lmfit's LinearModel (tied numerically to the closed-form least-squares
line), binary64 rounding, which window the doubling loop stops at on real data.
-/
set_option linter.unusedSectionVars false
namespace Nanite.C07
open Nanite.Poc Nanite.Preproc
variable {K : Type} [Field K] [LinearOrder K] [IsStrictOrderedRing K]

/-! ## tip-sample separation -/
theorem c07_tip_separation_length (k : K) (h f : List K) :
    (computeTip k h f).length = min h.length f.length := by
  simp [computeTip]

/-- `tip[i] = height[i] + force[i] / k` at every index -/
theorem c07_tip_separation (k : K) (h f : List K) (i : Nat) (hi : i < (computeTip k h f).length) :
    (computeTip k h f)[i] =
      h[i]'(by simp [computeTip] at hi; omega) + f[i]'(by simp [computeTip] at hi; omega) / k := by
  simp [computeTip]

/-! ## force offset -/
theorem sum_map_sub_const (l : List K) (c : K) : (l.map (· - c)).sum = l.sum - (l.length : K) * c := by
  induction l with
  | nil => simp
  | cons x xs ih => simp only [List.map_cons, List.sum_cons, ih, List.length_cons, Nat.cast_add, Nat.cast_one]; ring

theorem c07_force_offset_length (idp : Nat) (f : List K) : (forceOffset idp f).length = f.length := by
  simp [forceOffset]

/-- the force column changes only by a constant -/
theorem c07_force_offset_constant (idp : Nat) (f : List K) (i : Nat) (hi : i < f.length) :
    (forceOffset idp f)[i]'(by simpa [forceOffset] using hi) = f[i] - forceOffsetConst idp f := by
  simp [forceOffset]

/-- … chosen so that the mean pre-contact force is zero -/
theorem c07_force_offset_mean_zero (idp : Nat) (f : List K) (h0 : idp ≠ 0) (hle : idp ≤ f.length) :
    mean ((forceOffset idp f).take idp) = 0 := by
  unfold forceOffset mean
  rw [← List.map_take, sum_map_sub_const]
  simp only [forceOffsetConst, h0, ne_eq, not_false_eq_true, ↓reduceIte, mean, List.length_map,
    List.length_take, Nat.min_eq_left hle]
  have : (idp : K) ≠ 0 := by exact_mod_cast h0
  field_simp
  ring

/-- without a pre-contact part (estimate 0) the first force value becomes zero -/
theorem c07_force_offset_first_zero (f : List K) (hne : f ≠ []) : (forceOffset 0 f).headD 1 = 0 := by
  cases f with
  | nil => exact absurd rfl hne
  | cons x xs => simp [forceOffset, forceOffsetConst]

/-! ## tip offset -/
theorem c07_tip_offset_length (cpid : Nat) (tip : List K) : (tipOffset cpid tip).length = tip.length := by
  simp [tipOffset]

/-- the tip position is zero at the estimated contact index … -/
theorem c07_tip_offset_zero_at_contact (cpid : Nat) (tip : List K) (h : cpid < tip.length) :
    (tipOffset cpid tip)[cpid]'(by simpa [tipOffset] using h) = 0 := by
  simp [tipOffset, List.getElem?_eq_getElem h]

/-- … and the column changes only by a constant -/
theorem c07_tip_offset_constant (cpid : Nat) (tip : List K) (i : Nat) (hi : i < tip.length) :
    (tipOffset cpid tip)[i]'(by simpa [tipOffset] using hi) = tip[i] - tip.getD cpid 0 := by
  simp [tipOffset]

/-! ## slope correction -/
theorem c07_slope_length (m c : K) (xs f : List K) (stop ref : Nat) :
    (subtractLine m c xs f stop ref).length = f.length := by
  simp [subtractLine]

theorem subtractLine_get (m c : K) (xs f : List K) (stop ref i : Nat) (hi : i < f.length) :
    (subtractLine m c xs f stop ref)[i]'(by simpa [subtractLine] using hi) =
      if i < stop then f[i] - (line m c (xs.getD i 0) - line m c (xs.getD ref 0)) else f[i] := by
  simp [subtractLine, List.getElem?_eq_getElem hi]

/-- data outside the selected region are untouched -/
theorem c07_slope_untouched (m c : K) (xs f : List K) (stop ref i : Nat) (hi : i < f.length)
    (hs : stop ≤ i) : (subtractLine m c xs f stop ref)[i]'(by simpa [subtractLine] using hi) = f[i] := by
  rw [subtractLine_get _ _ _ _ _ _ _ hi, if_neg (by omega)]

/-- no jump: at the reference index (the last corrected point for "baseline"/"approach", the contact
index for "all") the correction vanishes, as it does just outside the region -/
theorem c07_slope_no_jump (m c : K) (xs f : List K) (stop ref : Nat) (hi : ref < f.length) :
    (subtractLine m c xs f stop ref)[ref]'(by simpa [subtractLine] using hi) = f[ref] := by
  rw [subtractLine_get _ _ _ _ _ _ _ hi]
  split <;> simp

/-- inside the region the correction is the fitted line up to a constant: its increments are
`m · Δx` -/
theorem c07_slope_linear (m c : K) (xs f : List K) (stop ref i j : Nat) (hi : i < f.length)
    (hj : j < f.length) (his : i < stop) (hjs : j < stop) :
    (f[i] - (subtractLine m c xs f stop ref)[i]'(by simpa [subtractLine] using hi)) -
      (f[j] - (subtractLine m c xs f stop ref)[j]'(by simpa [subtractLine] using hj)) =
      m * (xs.getD i 0 - xs.getD j 0) := by
  rw [subtractLine_get _ _ _ _ _ _ _ hi, subtractLine_get _ _ _ _ _ _ _ hj, if_pos his, if_pos hjs]
  unfold line; ring

/-- region "baseline": everything from the contact index on is untouched -/
theorem c07_slope_baseline_region (m c : K) (xs tip f : List K) (i : Nat) (hi : i < f.length)
    (h : slopeIdp tip ≤ i) :
    (correctSlope .baseline m c xs tip f)[i]'(by simpa [correctSlope, subtractLine] using hi) = f[i] := by
  simp only [correctSlope]
  exact c07_slope_untouched _ _ _ _ _ _ _ hi h

/-- region "approach": everything from the turning point on is untouched -/
theorem c07_slope_approach_region (m c : K) (xs tip f : List K) (i : Nat) (hi : i < f.length)
    (h : max 2 ((turningPoint tip f (slopeIdp tip)).getD 0) ≤ i) :
    (correctSlope .approach m c xs tip f)[i]'(by simpa [correctSlope, subtractLine] using hi) = f[i] := by
  simp only [correctSlope]
  exact c07_slope_untouched _ _ _ _ _ _ _ hi h

/-! ### the least-squares line removes the trend -/
theorem sum_map_add' {α : Type} (l : List α) (f g : α → K) :
    (l.map fun p => f p + g p).sum = (l.map f).sum + (l.map g).sum := by
  induction l with
  | nil => simp
  | cons x xs ih => simp only [List.map_cons, List.sum_cons, ih]; ring

theorem sum_map_mul_left' {α : Type} (l : List α) (a : K) (f : α → K) :
    (l.map fun p => a * f p).sum = a * (l.map f).sum := by
  induction l with
  | nil => simp
  | cons x xs ih => simp only [List.map_cons, List.sum_cons, ih]; ring

theorem sum_map_const' {α : Type} (l : List α) (a : K) : (l.map fun _ => a).sum = (l.length : K) * a := by
  induction l with
  | nil => simp
  | cons x xs ih => simp only [List.map_cons, List.sum_cons, ih, List.length_cons, Nat.cast_add, Nat.cast_one]; ring

/-- subtracting `m'·x + const` from the ordinates lowers the least-squares slope by exactly `m'` -/
theorem ols_slope_sub_line (ps : List (K × K)) (m' d : K) (hx : sxx ps ≠ 0) (hne : ps ≠ []) :
    olsSlope (ps.map fun p => (p.1, p.2 - (m' * p.1 + d))) = olsSlope ps - m' := by
  have hn : (ps.length : K) ≠ 0 := by
    have : 0 < ps.length := List.length_pos_iff.mpr hne
    exact_mod_cast this.ne'
  have hfst : (ps.map fun p => (p.1, p.2 - (m' * p.1 + d))).map Prod.fst = ps.map Prod.fst := by
    rw [List.map_map]; rfl
  have hsnd : mean ((ps.map fun p => (p.1, p.2 - (m' * p.1 + d))).map Prod.snd) =
      mean (ps.map Prod.snd) - m' * mean (ps.map Prod.fst) - d := by
    unfold mean
    rw [List.map_map]
    simp only [List.length_map]
    have : (ps.map (Prod.snd ∘ fun p : K × K => (p.1, p.2 - (m' * p.1 + d)))).sum =
        (ps.map Prod.snd).sum - m' * (ps.map Prod.fst).sum - (ps.length : K) * d := by
      have h1 : (Prod.snd ∘ fun p : K × K => (p.1, p.2 - (m' * p.1 + d))) =
          fun p : K × K => p.2 + ((-m') * p.1 + (-d)) := by
        funext p; simp only [Function.comp]; ring
      rw [h1, sum_map_add', sum_map_add', sum_map_mul_left', sum_map_const']
      ring
    rw [this]
    field_simp
  have hsxx : sxx (ps.map fun p => (p.1, p.2 - (m' * p.1 + d))) = sxx ps := by
    unfold sxx
    rw [hfst, List.map_map]
    rfl
  have hsxy : sxy (ps.map fun p => (p.1, p.2 - (m' * p.1 + d))) = sxy ps - m' * sxx ps := by
    unfold sxy sxx
    rw [hfst, hsnd, List.map_map]
    have h1 : ((fun p : K × K => (p.1 - mean (ps.map Prod.fst)) *
          (p.2 - (mean (ps.map Prod.snd) - m' * mean (ps.map Prod.fst) - d))) ∘
          fun p : K × K => (p.1, p.2 - (m' * p.1 + d))) =
        fun p : K × K => (p.1 - mean (ps.map Prod.fst)) * (p.2 - mean (ps.map Prod.snd)) +
          (-m') * ((p.1 - mean (ps.map Prod.fst)) ^ 2) := by
      funext p; simp only [Function.comp]; ring
    rw [h1, sum_map_add', sum_map_mul_left']
    ring
  unfold olsSlope
  rw [hsxy, hsxx]
  field_simp

/-- **slope correction removes the fitted linear baseline trend**: after subtracting the least-squares
line of the baseline (up to any constant `d`, which only avoids the jump) the least-squares slope of
the corrected baseline is zero -/
theorem c07_ols_removes_trend (bl : List (K × K)) (d : K) (hx : sxx bl ≠ 0) (hne : bl ≠ []) :
    olsSlope (bl.map fun p => (p.1, p.2 - (line (olsSlope bl) (olsIntercept bl) p.1 - d))) = 0 := by
  have := ols_slope_sub_line bl (olsSlope bl) (olsIntercept bl - d) hx hne
  have h2 : (fun p : K × K => (p.1, p.2 - (line (olsSlope bl) (olsIntercept bl) p.1 - d))) =
      fun p : K × K => (p.1, p.2 - (olsSlope bl * p.1 + (olsIntercept bl - d))) := by
    funext p; unfold line; congr 1; ring
  rw [h2, this]; ring

/-- the corrected baseline, paired with its abscissa, is the baseline with the line subtracted -/
theorem zip_take_subtractLine (m c : K) (xs f : List K) (stop ref k : Nat) (hk : k ≤ stop)
    (hlen : xs.length = f.length) :
    (List.zip xs (subtractLine m c xs f stop ref)).take k =
      ((List.zip xs f).take k).map fun p => (p.1, p.2 - (line m c p.1 - line m c (xs.getD ref 0))) := by
  apply List.ext_getElem
  · simp [subtractLine, hlen]
  · intro i h1 h2
    simp only [List.length_take, List.length_zip, c07_slope_length, List.length_map] at h1 h2
    have hi : i < f.length := by omega
    have hix : i < xs.length := by omega
    simp only [List.getElem_take, List.getElem_zip, List.getElem_map]
    rw [subtractLine_get _ _ _ _ _ _ _ hi, if_pos (by omega)]
    simp [List.getElem?_eq_getElem hix]

/-- **region "all" / "approach" / "baseline" with the least-squares line of the baseline: the corrected
baseline has zero trend** (whenever the region covers the baseline, `idp ≤ stop`) -/
theorem c07_slope_removes_trend (xs f : List K) (stop ref idp : Nat) (hk : idp ≤ stop)
    (hlen : xs.length = f.length) (hne : (List.zip xs f).take idp ≠ [])
    (hx : sxx ((List.zip xs f).take idp) ≠ 0) :
    olsSlope ((List.zip xs (subtractLine (olsSlope ((List.zip xs f).take idp))
      (olsIntercept ((List.zip xs f).take idp)) xs f stop ref)).take idp) = 0 := by
  rw [zip_take_subtractLine _ _ _ _ _ _ _ hk hlen]
  exact c07_ols_removes_trend _ _ hx hne

/-! ## segment discovery -/
theorem c07_segment_length (idturn n : Nat) : (segmentOf idturn n).length = n := by simp [segmentOf]

theorem segmentOf_get (idturn n i : Nat) (hi : i < n) :
    (segmentOf idturn n)[i]'(by simpa [segmentOf] using hi) = if i < idturn then 0 else 1 := by
  simp [segmentOf]

/-- a single approach-to-retract switch: approach (0) strictly before the turning index, retract (1)
from it on -/
theorem c07_segment_single_switch (idturn n i j : Nat) (hj : j < n) (hij : i ≤ j) :
    (segmentOf idturn n)[i]'(by simp [segmentOf]; omega) ≤ (segmentOf idturn n)[j]'(by simpa [segmentOf] using hj) := by
  rw [segmentOf_get _ _ _ (by omega), segmentOf_get _ _ _ hj]
  split <;> split <;> omega

/-- numpy `argmax` returns the first index of a maximal value -/
theorem argmaxAux_spec (l : List K) (i bi : Nat) (bv : K) (pre : List K) (hpre : pre.length = i)
    (hb : bi < i) (hbv : pre.getD bi 0 = bv) (hmax : ∀ j < i, pre.getD j 0 ≤ bv)
    (hfirst : ∀ j < bi, pre.getD j 0 < bv) :
    let k := argmaxAux l i bi bv
    k < i + l.length ∧ (∀ j < i + l.length, (pre ++ l).getD j 0 ≤ (pre ++ l).getD k 0) ∧
      (∀ j < k, (pre ++ l).getD j 0 < (pre ++ l).getD k 0) := by
  induction l generalizing i bi bv pre with
  | nil =>
    simp only [argmaxAux, List.length_nil, Nat.add_zero, List.append_nil]
    refine ⟨hb, fun j hj => ?_, fun j hj => ?_⟩
    · rw [hbv]; exact hmax j hj
    · rw [hbv]; exact hfirst j hj
  | cons x xs ih =>
    simp only [argmaxAux]
    have hget : ∀ j < i, (pre ++ [x]).getD j 0 = pre.getD j 0 := by
      intro j hj
      rw [List.getD_append _ _ _ _ (by omega)]
    have hgetx : (pre ++ [x]).getD i 0 = x := by
      rw [List.getD_append_right _ _ _ _ (by omega)]; simp [hpre]
    split
    · rename_i hlt
      have := ih (i + 1) i x (pre ++ [x]) (by simp [hpre]) (by omega) hgetx
        (by
          intro j hj
          rcases Nat.lt_succ_iff_lt_or_eq.mp hj with h | h
          · rw [hget j h]; exact le_of_lt (lt_of_le_of_lt (hmax j h) hlt)
          · subst h; rw [hgetx])
        (by
          intro j hj
          rw [hget j hj]; exact lt_of_le_of_lt (hmax j hj) hlt)
      simpa [List.append_assoc, Nat.add_assoc, Nat.add_comm 1] using this
    · rename_i hnlt
      have hle : x ≤ bv := not_lt.mp hnlt
      have := ih (i + 1) bi bv (pre ++ [x]) (by simp [hpre]) (by omega) (by rw [hget bi hb]; exact hbv)
        (by
          intro j hj
          rcases Nat.lt_succ_iff_lt_or_eq.mp hj with h | h
          · rw [hget j h]; exact hmax j h
          · subst h; rw [hgetx]; exact hle)
        (by
          intro j hj
          rw [hget j (by omega)]; exact hfirst j hj)
      simpa [List.append_assoc, Nat.add_assoc, Nat.add_comm 1] using this

/-- **the split is at the (first) farthest point**: the returned index is valid, no point has a larger
value, and every earlier point has a strictly smaller one -/
theorem c07_argmax_is_first_maximum (l : List K) (k : Nat) (h : argmax l = some k) :
    k < l.length ∧ (∀ j < l.length, l.getD j 0 ≤ l.getD k 0) ∧ (∀ j < k, l.getD j 0 < l.getD k 0) := by
  cases l with
  | nil => simp [argmax] at h
  | cons x xs =>
    simp only [argmax, Option.some.injEq] at h
    have := argmaxAux_spec xs 1 0 x [x] rfl (by omega) (by simp)
      (by intro j hj; have : j = 0 := by omega
          subst this; simp)
      (by intro j hj; omega)
    subst h
    simpa [Nat.add_comm 1] using this

/-! ## monotone smoothing -/
theorem adjLeB_iff (s : List K) : adjLeB s = true ↔ s.Pairwise (· ≤ ·) := by
  rw [← List.isChain_iff_pairwise]
  induction s with
  | nil => simp [adjLeB]
  | cons a r ih =>
    cases r with
    | nil => simp [adjLeB]
    | cons b r' => simp only [adjLeB, Bool.and_eq_true, decide_eq_true_eq, List.isChain_cons_cons, ih]

theorem adjGeB_iff (s : List K) : adjGeB s = true ↔ s.Pairwise (· ≥ ·) := by
  rw [← List.isChain_iff_pairwise]
  induction s with
  | nil => simp [adjGeB]
  | cons a r ih =>
    cases r with
    | nil => simp [adjGeB]
    | cons b r' => simp only [adjGeB, Bool.and_eq_true, decide_eq_true_eq, List.isChain_cons_cons, ih, ge_iff_le]

theorem medianFilter_length (w : Nat) (d : List K) : (medianFilter w d).length = d.length := by
  simp [medianFilter]

theorem smoothLoop1_spec (fuel w : Nat) (d s : List K) (h : smoothLoop1 fuel w d = some s) :
    s.length = d.length ∧ (s.Pairwise (· ≤ ·) ∨ s.Pairwise (· ≥ ·)) := by
  induction fuel generalizing w with
  | zero => simp [smoothLoop1] at h
  | succ n ih =>
    simp only [smoothLoop1] at h
    split at h
    · rename_i hc
      injection h with h; subst h
      refine ⟨medianFilter_length w d, ?_⟩
      rcases Bool.or_eq_true _ _ |>.mp hc with h1 | h1
      · exact Or.inl ((adjLeB_iff _).mp h1)
      · exact Or.inr ((adjGeB_iff _).mp h1)
    · exact ih _ h

theorem countEq_le (v : K) (l : List K) : countEq v l ≤ l.length := by
  induction l with
  | nil => simp [countEq]
  | cons x r ih => simp only [countEq]; split <;> simp <;> omega

theorem countEq_spec (v : K) (l : List K) :
    (∀ x ∈ l.take (countEq v l), x = v) ∧ (l.drop (countEq v l)).head? ≠ some v := by
  induction l with
  | nil => simp [countEq]
  | cons x r ih =>
    simp only [countEq]
    split
    · rename_i hx
      subst hx
      simp only [List.take_succ_cons, List.mem_cons, forall_eq_or_imp, true_and, List.drop_succ_cons]
      exact ih
    · rename_i hx
      simp [hx]

theorem spread_length (v nxt : K) (L : Nat) (hL : 1 ≤ L) : (spread v nxt L).length = L := by
  simp [spread]; omega

theorem spread_mem (v nxt : K) (L : Nat) (hlt : v < nxt) (x : K) (hx : x ∈ spread v nxt L) :
    v < x ∧ x < nxt := by
  have hd : (0 : K) < (L : K) + 5 := by positivity
  have hg : 0 < nxt - v := sub_pos.mpr hlt
  have hq : 0 < (nxt - v) / ((L : K) + 5) := div_pos hg hd
  have hq1 : (nxt - v) / ((L : K) + 5) * ((L : K) + 5) = nxt - v := by field_simp
  simp only [spread, List.mem_cons, List.mem_map, List.mem_range] at hx
  rcases hx with hx | ⟨j, hj, hx⟩
  · subst hx
    constructor
    · linarith
    · have : (L : K) ≥ 0 := Nat.cast_nonneg L
      nlinarith
  · subst hx
    have hjL : (j : K) + 2 ≤ (L : K) := by
      have : j + 2 ≤ L := by omega
      exact_mod_cast this
    have hj0 : (0 : K) ≤ (j : K) := Nat.cast_nonneg j
    set q := (nxt - v) / ((L : K) + 5) with hqdef
    have hg1 : nxt - (v + q * 1) = (nxt - v) - q := by ring
    rw [hg1]
    have hg1pos : 0 < (nxt - v) - q := by nlinarith
    have hc : 0 < ((nxt - v) - q) / ((L : K) + 5) := div_pos hg1pos hd
    have hc1 : ((nxt - v) - q) / ((L : K) + 5) * ((L : K) + 5) = (nxt - v) - q := by field_simp
    set c := ((nxt - v) - q) / ((L : K) + 5) with hcdef
    constructor
    · nlinarith
    · nlinarith

theorem spread_pairwise (v nxt : K) (L : Nat) (hlt : v < nxt) : (spread v nxt L).Pairwise (· ≤ ·) := by
  have hd : (0 : K) < (L : K) + 5 := by positivity
  have hg : 0 < nxt - v := sub_pos.mpr hlt
  have hq : 0 < (nxt - v) / ((L : K) + 5) := div_pos hg hd
  have hq1 : (nxt - v) / ((L : K) + 5) * ((L : K) + 5) = nxt - v := by field_simp
  simp only [spread]
  set q := (nxt - v) / ((L : K) + 5) with hqdef
  have hg1 : nxt - (v + q * 1) = (nxt - v) - q := by ring
  rw [hg1]
  have hL0 : (0 : K) ≤ (L : K) := Nat.cast_nonneg L
  have hg1pos : 0 < (nxt - v) - q := by nlinarith
  have hc : 0 < ((nxt - v) - q) / ((L : K) + 5) := div_pos hg1pos hd
  have hc1 : ((nxt - v) - q) / ((L : K) + 5) * ((L : K) + 5) = (nxt - v) - q := by field_simp
  set c := ((nxt - v) - q) / ((L : K) + 5) with hcdef
  rw [List.pairwise_cons]
  constructor
  · intro y hy
    simp only [List.mem_map, List.mem_range] at hy
    obtain ⟨j, hj, rfl⟩ := hy
    have hj0 : (0 : K) ≤ (j : K) := Nat.cast_nonneg j
    -- q ≤ 2 c  since  2 c (L+5) = 2 (g - q) and q (L+5) = g, L + 5 ≥ 6
    have h2c : q ≤ c * 2 := by
      by_contra hcon
      have hcon' : c * 2 < q := not_le.mp hcon
      nlinarith
    nlinarith
  · rw [List.pairwise_map]
    refine List.Pairwise.imp ?_ List.pairwise_lt_range
    intro i j hij
    have : (i : K) ≤ (j : K) := by exact_mod_cast hij.le
    nlinarith

theorem tieAux_head (dx b : K) (r : List K) : ∃ t, tieAux dx (b :: r) = b :: t := by
  cases r with
  | nil => exact ⟨[], rfl⟩
  | cons c r' =>
    simp only [tieAux]
    split
    · exact ⟨_, rfl⟩
    · exact ⟨_, rfl⟩

/-- resolving the plateau keeps the data weakly increasing -/
theorem fill_pairwise (dx a : K) (l : List K) (hdx : 0 ≤ dx) (hl : (a :: l).Pairwise (· ≤ ·)) :
    (a :: fill dx a (countEq a l) l).Pairwise (· ≤ ·) := by
  obtain ⟨hal, hpl⟩ := List.pairwise_cons.mp hl
  obtain ⟨_, hhead⟩ := countEq_spec a l
  unfold fill
  cases hdrop : l.drop (countEq a l) with
  | nil =>
    simp only
    rw [List.pairwise_cons]
    have hL : (0 : K) ≤ ((countEq a l : Nat) : K) := Nat.cast_nonneg _
    have hfin : a ≤ a + ((countEq a l : Nat) : K) * dx := by nlinarith
    constructor
    · intro y hy
      simp only [List.mem_append, List.mem_replicate, List.mem_singleton] at hy
      rcases hy with ⟨_, rfl⟩ | rfl
      · exact le_refl _
      · exact hfin
    · rw [List.pairwise_append]
      refine ⟨?_, List.pairwise_singleton _ _, ?_⟩
      · exact List.pairwise_replicate.mpr (Or.inr (le_refl a))
      · intro x hx y hy
        simp only [List.mem_replicate] at hx
        simp only [List.mem_singleton] at hy
        rw [hx.2, hy]; exact hfin
  | cons nxt rest =>
    simp only
    rw [hdrop] at hhead
    have hnxt_mem : nxt ∈ l := List.mem_of_mem_drop (by rw [hdrop]; exact List.mem_cons_self)
    have hne : nxt ≠ a := by
      intro h; apply hhead; simp [h]
    have hlt : a < nxt := lt_of_le_of_ne (hal nxt hnxt_mem) (Ne.symm hne)
    have hsub : (nxt :: rest).Pairwise (· ≤ ·) := by
      rw [← hdrop]; exact hpl.sublist (List.drop_sublist _ _)
    rw [List.pairwise_cons]
    constructor
    · intro y hy
      rcases List.mem_append.mp hy with hy | hy
      · exact (spread_mem a nxt _ hlt y hy).1.le
      · exact hal y (List.mem_of_mem_drop (by rw [hdrop]; exact hy))
    · rw [List.pairwise_append]
      refine ⟨spread_pairwise a nxt _ hlt, hsub, ?_⟩
      intro x hx y hy
      have hx' := (spread_mem a nxt _ hlt x hx).2.le
      rcases List.mem_cons.mp hy with rfl | hy
      · exact hx'
      · exact le_trans hx' ((List.pairwise_cons.mp hsub).1 y hy)

theorem tieAux_pairwise (dx : K) (hdx : 0 ≤ dx) (s : List K) (hs : s.Pairwise (· ≤ ·)) :
    (tieAux dx s).Pairwise (· ≤ ·) := by
  induction s with
  | nil => simpa [tieAux] using hs
  | cons a r ih =>
    cases r with
    | nil => simpa [tieAux] using hs
    | cons b r' =>
      simp only [tieAux]
      split
      · exact fill_pairwise dx a (b :: r') hdx hs
      · obtain ⟨ha, hr⟩ := List.pairwise_cons.mp hs
        have ih' := ih hr
        obtain ⟨t, ht⟩ := tieAux_head dx b r'
        rw [List.pairwise_cons]
        refine ⟨?_, ih'⟩
        intro y hy
        rw [ht] at hy ih'
        have hab : a ≤ b := ha b List.mem_cons_self
        rcases List.mem_cons.mp hy with rfl | hy
        · exact hab
        · exact le_trans hab ((List.pairwise_cons.mp ih').1 y hy)

/-- one pass of the tie-breaking loop keeps weakly increasing data weakly increasing -/
theorem tieStep_pairwise (s : List K) (hs : s.Pairwise (· ≤ ·)) : (tieStep s).Pairwise (· ≤ ·) := by
  unfold tieStep
  match s, hs with
  | [], hs => simpa [tieAux] using hs
  | [a], hs => simpa [tieAux] using hs
  | a :: b :: r, hs =>
    apply tieAux_pairwise _ _ _ hs
    have hab : a ≤ b := (List.pairwise_cons.mp hs).1 b List.mem_cons_self
    simp only [List.getD_cons_succ, List.getD_cons_zero]
    have : 0 ≤ b - a := sub_nonneg.mpr hab
    positivity

/-! the falling direction, by symmetry -/
theorem countEq_neg (v : K) (l : List K) : countEq (-v) (l.map (- ·)) = countEq v l := by
  induction l with
  | nil => rfl
  | cons x r ih => simp only [List.map_cons, countEq, neg_inj, ih]

theorem spread_neg (v nxt : K) (L : Nat) : spread (-v) (-nxt) L = (spread v nxt L).map (- ·) := by
  simp only [spread, List.map_cons, List.map_map]
  congr 1
  · ring
  · apply List.map_congr_left
    intro j _
    simp only [Function.comp]
    ring

theorem fill_neg (dx a : K) (L : Nat) (l : List K) :
    fill (-dx) (-a) L (l.map (- ·)) = (fill dx a L l).map (- ·) := by
  unfold fill
  rw [← List.map_drop]
  cases l.drop L with
  | nil => simp only [List.map_nil, List.map_append, List.map_replicate, List.map_cons]; congr 2; ring
  | cons nxt rest => simp only [List.map_cons, spread_neg, List.map_append]

theorem tieAux_neg (dx : K) (s : List K) : tieAux (-dx) (s.map (- ·)) = (tieAux dx s).map (- ·) := by
  induction s with
  | nil => rfl
  | cons a r ih =>
    cases r with
    | nil => rfl
    | cons b r' =>
      simp only [List.map_cons, tieAux, neg_inj]
      split
      · have hc := countEq_neg a (b :: r')
        have hf := fill_neg dx a (countEq a (b :: r')) (b :: r')
        simp only [List.map_cons] at hc hf
        rw [hc, hf, List.map_cons]
      · simp only [List.map_cons] at ih
        rw [ih, List.map_cons]

theorem tieStep_neg (s : List K) : tieStep (s.map (- ·)) = (tieStep s).map (- ·) := by
  unfold tieStep
  have h : ∀ i, (s.map (- ·)).getD i 0 = - s.getD i 0 := by
    intro i
    have := List.getD_map (l := s) (d := (0 : K)) (n := i) (- ·)
    simpa using this
  rw [h, h, ← tieAux_neg]
  congr 1
  ring

theorem pairwise_ge_iff_neg (s : List K) : s.Pairwise (· ≥ ·) ↔ (s.map (- ·)).Pairwise (· ≤ ·) := by
  rw [List.pairwise_map]
  simp only [neg_le_neg_iff, ge_iff_le]

theorem tieStep_pairwise_ge (s : List K) (hs : s.Pairwise (· ≥ ·)) : (tieStep s).Pairwise (· ≥ ·) := by
  rw [pairwise_ge_iff_neg] at hs ⊢
  rw [← tieStep_neg]
  exact tieStep_pairwise _ hs

theorem fill_length (dx a : K) (l : List K) (h1 : 1 ≤ countEq a l) :
    (fill dx a (countEq a l) l).length = l.length := by
  have hle := countEq_le a l
  unfold fill
  cases hdrop : l.drop (countEq a l) with
  | nil =>
    have : l.length ≤ countEq a l := List.drop_eq_nil_iff.mp hdrop
    simp; omega
  | cons nxt rest =>
    have : (l.drop (countEq a l)).length = rest.length + 1 := by rw [hdrop]; simp
    rw [List.length_drop] at this
    simp only [List.length_append, spread_length _ _ _ h1, List.length_cons]
    omega

theorem tieAux_length (dx : K) (s : List K) : (tieAux dx s).length = s.length := by
  induction s with
  | nil => rfl
  | cons a r ih =>
    cases r with
    | nil => rfl
    | cons b r' =>
      simp only [tieAux]
      split
      · rename_i hab
        have h1 : 1 ≤ countEq a (b :: r') := by simp [countEq, hab]
        simp only [List.length_cons]
        rw [fill_length dx a (b :: r') h1]
        simp
      · simp only [List.length_cons] at ih ⊢
        rw [ih]

theorem smoothLoop2_spec (P : List K → Prop) (hP : ∀ s, P s → P (tieStep s)) (fuel : Nat)
    (s out : List K) (h : smoothLoop2 fuel s = some out) (hs : P s) :
    P out ∧ out.Nodup ∧ out.length = s.length := by
  induction fuel generalizing s with
  | zero => simp [smoothLoop2] at h
  | succ n ih =>
    simp only [smoothLoop2] at h
    split at h
    · rename_i hnd
      injection h with h; subst h
      exact ⟨hs, hnd, rfl⟩
    · obtain ⟨h1, h2, h3⟩ := ih _ h (hP s hs)
      refine ⟨h1, h2, ?_⟩
      rw [h3]; exact tieAux_length _ _

/-- **height smoothing: whenever `smooth_axis_monotone` returns, the result has as many points as the
input and is strictly monotonic** (strictly increasing or strictly decreasing) -/
theorem c07_smooth_strictly_monotone (w maxIter : Nat) (d out : List K)
    (h : smoothMonotone w maxIter d = some out) :
    out.length = d.length ∧ (out.Pairwise (· < ·) ∨ out.Pairwise (· > ·)) := by
  unfold smoothMonotone at h
  cases h1 : smoothLoop1 maxIter w d with
  | none => rw [h1] at h; cases h
  | some s =>
    rw [h1] at h
    simp only at h
    obtain ⟨hlen, hmono⟩ := smoothLoop1_spec _ _ _ _ h1
    rcases hmono with hm | hm
    · obtain ⟨hp, hnd, hl⟩ := smoothLoop2_spec (fun l => l.Pairwise (· ≤ ·)) tieStep_pairwise _ _ _ h hm
      refine ⟨by rw [hl, hlen], Or.inl ?_⟩
      exact (List.Pairwise.and hp hnd).imp (fun ⟨h1, h2⟩ => lt_of_le_of_ne h1 h2)
    · obtain ⟨hp, hnd, hl⟩ := smoothLoop2_spec (fun l => l.Pairwise (· ≥ ·)) tieStep_pairwise_ge _ _ _ h hm
      refine ⟨by rw [hl, hlen], Or.inr ?_⟩
      exact (List.Pairwise.and hp hnd).imp (fun ⟨h1, h2⟩ => lt_of_le_of_ne h1 (Ne.symm h2))

/-! non-vacuity (ℚ): window 1 (identity filter), a plateau in the middle -/
example : smoothMonotone 1 3 [(0 : ℚ), 1, 1, 2] = some [0, 1, 7/6, 2] := by
  norm_num [smoothMonotone, smoothLoop1, smoothLoop2, medianFilter, isort, insertSorted, adjLeB, adjGeB,
    tieStep, tieAux, fill, countEq, spread, List.range, List.range.loop]

end Nanite.C07
