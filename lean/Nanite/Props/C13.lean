import Nanite.Model.Residual
/-!
# C13 – Every registered model obeys the structural model contract  (partial)
Wrapper level, for EVERY model function `g` (this is the quantifier over user programs): shape,
order, what the user's function sees, reversal equivariance and the default residual.  The laws
of the shipped model functions themselves (translation, baseline, linearity, monotonicity) are
theorems about the regenerated definitions in `Nanite.Props.C02`; for user models those laws are
only monitored by the oracle.
-/
namespace Nanite.C13
open Nanite.Residual

section wrapper
variable {α β : Type} [LinearOrder α]

/-- what `model_direction_agnostic` hands to the user's function -/
def handed (δ : List α) : List α :=
  match δ.head?, δ.getLast? with
  | some a, some b => if a < b then δ.reverse else δ
  | _, _ => δ

/-- the wrapper returns `g` applied to the handed list, flipped back if it was flipped -/
theorem c13_wrap_eq (g : List α → List β) (δ : List α) (a b : α) (ha : δ.head? = some a)
    (hb : δ.getLast? = some b) :
    wrap g δ = some (if a < b then (g (handed δ)).reverse else g (handed δ)) := by
  unfold wrap handed
  rw [ha, hb]
  simp only
  split <;> rfl

/-- **the user's function always sees approach-ordered data**: first element ≥ last element -/
theorem c13_user_sees_approach_order (δ : List α) (a b : α) (ha : (handed δ).head? = some a)
    (hb : (handed δ).getLast? = some b) : b ≤ a := by
  unfold handed at ha hb
  cases h1 : δ.head? with
  | none => rw [h1] at ha; simp only at ha; rw [h1] at ha; simp at ha
  | some x =>
    cases h2 : δ.getLast? with
    | none =>
      have : δ = [] := List.getLast?_eq_none_iff.mp h2
      subst this; simp at h1
    | some y =>
      rw [h1, h2] at ha hb
      simp only at ha hb
      split at ha
      · rename_i hlt
        simp only [hlt, ↓reduceIte] at hb
        rw [List.head?_reverse, h2] at ha
        rw [List.getLast?_reverse, h1] at hb
        injection ha with ha; injection hb with hb
        subst ha; subst hb
        exact hlt.le
      · rename_i hnlt
        simp only [hnlt, ↓reduceIte] at hb
        rw [h1] at ha; rw [h2] at hb
        injection ha with ha; injection hb with hb
        subst ha; subst hb
        exact not_lt.mp hnlt

/-- output has the shape of the abscissa for any length-preserving model function -/
theorem c13_wrapper_shape (g : List α → List β) (hg : ∀ l, (g l).length = l.length) (δ : List α)
    (r : List β) (h : wrap g δ = some r) : r.length = δ.length := by
  unfold wrap at h
  split at h
  · split at h <;> (injection h with h; subst h; simp [hg])
  · simp at h

/-- a point-wise model function is evaluated point by point in the caller's order, whichever
orientation the abscissa has -/
theorem c13_wrapper_pointwise (f : α → β) (δ : List α) (hne : δ ≠ []) :
    wrap (List.map f) δ = some (δ.map f) := by
  unfold wrap
  cases h1 : δ.head? with
  | none => simp at h1; exact absurd h1 hne
  | some a =>
    cases h2 : δ.getLast? with
    | none => exact absurd (List.getLast?_eq_none_iff.mp h2) hne
    | some b =>
      simp only
      split
      · simp [List.map_reverse]
      · rfl

/-- an empty abscissa is the only input on which the wrapper fails (IndexError) -/
theorem c13_wrapper_total (g : List α → List β) (δ : List α) (hne : δ ≠ []) : (wrap g δ).isSome := by
  unfold wrap
  cases h1 : δ.head? with
  | none => simp at h1; exact absurd h1 hne
  | some a =>
    cases h2 : δ.getLast? with
    | none => exact absurd (List.getLast?_eq_none_iff.mp h2) hne
    | some b => simp only; split <;> rfl

/-- reversing the abscissa reverses the output – for ANY model function, also an
order-sensitive one (end points distinct) -/
theorem c13_wrapper_reverse_equivariant (g : List α → List β) (δ : List α) (a b : α)
    (ha : δ.head? = some a) (hb : δ.getLast? = some b) (hab : a ≠ b) :
    wrap g δ.reverse = (wrap g δ).map List.reverse := by
  unfold wrap
  rw [List.head?_reverse, List.getLast?_reverse, ha, hb]
  simp only
  rcases lt_or_gt_of_ne hab with h | h
  · have : ¬ b < a := not_lt.mpr h.le
    simp [h, this]
  · have : ¬ a < b := not_lt.mpr h.le
    simp [h, this]
end wrapper

section residual
variable {K : Type} [Field K] [LinearOrder K] [IsStrictOrderedRing K]

/-- default residuals: data minus model, times the contact-point weights (and exactly data
minus model when weighting is off) -/
theorem c13_default_residual (model : K → K) (wd cp x y : K) :
    resid model (truthy wd) cp x y =
      if wd = 0 then y - model x else (y - model x) * cpWeight cp wd x := by
  unfold truthy
  split <;> rfl
end residual

/-! non-vacuity: an order-sensitive model function (running sum) on ascending input -/
def runSum : List Int → List Int
  | [] => []
  | x :: xs => x :: (runSum xs).map (· + x)

example : wrap runSum [1, 2, 3] = some [6, 5, 3] ∧ wrap runSum [3, 2, 1] = some [3, 5, 6] := by
  decide
example : handed [1, 2, 3] = [3, 2, 1] ∧ handed [3, 2, 1] = [3, 2, 1] := by decide

end Nanite.C13
