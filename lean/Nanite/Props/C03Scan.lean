import Nanite.Props.C03
/-!
# C03 / C05 – the E(δ) scan (`compute_emodulus_mindelta`) in the object model
`Indentation.compute_emodulus_mindelta()` caches its result – the arrays `optimal_fit_E_array` /
`optimal_fit_delta_array` – among the fit results, and the plateau search of a fit stores the same arrays.
For EVERY finite history of preprocessing calls, fits, direct edits of settings, ratings, scan requests and
operations that raise:

* a visible scan was computed from the data columns as they are now and from the settings as they are stored
  now, completed by the defaults (`c03_scan_current`) – it is never shown for other settings; in particular its
  number of samples is the stored `optimal_fit_num_samples` (`c05_scan_sample_count`);
* a repeated request returns the cached scan and changes nothing (`c03_scan_cached_noop`);
* a request that raises changes nothing (`c03_scan_error_keeps_state`).
-/
namespace Nanite.C03Scan
open Nanite.Indent Nanite.C03

/-- the settings an `IndentationFitter` built from the curve works with -/
def eff (d : Settings) (fp : Settings) : Settings := fitterFp (withDefaults fp d) d

structure ScanInv (d : Settings) (s : St) : Prop where
  current : ∀ p, s.scan = some p → p.cols = s.cols ∧ p.settings = eff d s.fp

theorem scanInv_of_none (d : Settings) (s : St) (h : s.scan = none) : ScanInv d s :=
  ⟨fun p hp => by rw [h] at hp; cases hp⟩

/-! ### the default completion is idempotent -/

theorem withDefaults_idem (fp d : Settings) : withDefaults (withDefaults fp d) d = withDefaults fp d := by
  funext k
  unfold withDefaults
  cases hfp : fp k with
  | some v => simp
  | none =>
    simp only
    by_cases hk : isDefaultKey k = true
    · simp only [hk, ↓reduceIte]
      cases hd : d k <;> simp
    · simp [hk]

theorem withDefaults_set_of_default (w d : Settings) (k : String) (v : V)
    (hw : withDefaults w d = w) : withDefaults (w.set k v) d = w.set k v := by
  funext k'
  have hk' := congrFun hw k'
  unfold withDefaults at hk' ⊢
  unfold Settings.set
  by_cases h : k' = k
  · simp [h]
  · simp only [h, ↓reduceIte]
    exact hk'

theorem fitterFp_cases (w d : Settings) :
    fitterFp w d = w ∨ ∃ dv, d "range_x" = some dv ∧ fitterFp w d = w.set "range_x" dv := by
  unfold fitterFp
  split
  · rename_i v dv hv hd
    split
    · right; exact ⟨dv, hd, rfl⟩
    · left; rfl
  · left; rfl

theorem fitterFp_fix_of_eq (w d : Settings) (h : fitterFp w d = w) : fitterFp (fitterFp w d) d = fitterFp w d := by
  rw [h, h]

theorem fitterFp_set_default (w d : Settings) (dv : V) (hd : d "range_x" = some dv) :
    fitterFp (w.set "range_x" dv) d = w.set "range_x" dv := by
  unfold fitterFp
  have : (w.set "range_x" dv) "range_x" = some dv := by simp [Settings.set]
  rw [this, hd]
  simp

theorem eff_idem (d fp : Settings) : eff d (eff d fp) = eff d fp := by
  unfold eff
  have hw := withDefaults_idem fp d
  rcases fitterFp_cases (withDefaults fp d) d with h | ⟨dv, hd, h⟩
  · rw [h, hw, h]
  · rw [h, withDefaults_set_of_default _ _ _ _ hw, fitterFp_set_default _ _ _ hd]

/-! ### preservation -/

theorem setitem_scan (s s' : St) (k : String) (v : V) (h : setitem s k v = .ok s') :
    s'.scan = none ∨ (s'.fp = s.fp ∧ s'.scan = s.scan ∧ s'.cols = s.cols) := by
  unfold setitem at h
  cases ha : action s k (norm k v) with
  | keep => rw [ha] at h; injection h with h; subst h; right; exact ⟨rfl, rfl, rfl⟩
  | storeSame =>
    rw [ha] at h; injection h with h; subst h; right
    exact ⟨set_same _ _ _ (action_storeSame s k _ ha), rfl, rfl⟩
  | resetStore => rw [ha] at h; injection h with h; subst h; left; rfl
  | modelChange => rw [ha] at h; injection h with h; subst h; left; rfl
  | err e => rw [ha] at h; cases h

theorem setitem_scanInv (d : Settings) (s s' : St) (k : String) (v : V) (hi : ScanInv d s)
    (h : setitem s k v = .ok s') : ScanInv d s' := by
  rcases setitem_scan s s' k v h with h1 | ⟨h1, h2, h3⟩
  · exact scanInv_of_none d s' h1
  · refine ⟨fun p hp => ?_⟩
    rw [h2] at hp
    rw [h1, h3]
    exact hi.current p hp

theorem opt_setitem_scanInv (d : Settings) (s : St) (k : String) (v : V) (hi : ScanInv d s) :
    ScanInv d (match setitem s k v with | .ok x => x | .error _ => s) := by
  cases h : setitem s k v with
  | ok s' => exact setitem_scanInv d s s' _ _ hi h
  | error e => exact hi

theorem applyPre_scanInv (d : Settings) (s : St) (steps : List Nat) (opts : String) (oe : List (Option Err))
    (rd : Bool) (hi : ScanInv d s) : ScanInv d (applyPre s steps opts oe rd).1 := by
  unfold applyPre
  split
  · cases ppAccept steps oe with
    | ok u => exact scanInv_of_none d _ rfl
    | error e => exact scanInv_of_none d _ rfl
  · exact ⟨hi.current⟩

theorem applyKw_scanInv (d : Settings) (kw : List (String × V)) (s : St) (hi : ScanInv d s) :
    ScanInv d (applyKw s kw).1 := by
  induction kw generalizing s with
  | nil => exact hi
  | cons p ps ih =>
    simp only [applyKw]
    cases h : setitem s p.1 p.2 with
    | ok s' => exact ih s' (setitem_scanInv d s s' _ _ hi h)
    | error e => exact hi

theorem fitModel_scanInv (d : Settings) (s : St) (kw : List (String × V)) (oe : List (Option Err))
    (g : String → List String) (hi : ScanInv d s) : ScanInv d (fitModel d s kw oe g).1 := by
  unfold fitModel
  simp only
  generalize hs1 : (if (kwGet kw "preprocessing").isSome || (kwGet kw "preprocessing_options").isSome then
      applyPre s (match kwGet kw "preprocessing" with | some (.steps l) => l | _ => s.attrPre.steps)
        (match kwGet kw "preprocessing_options" with | some (.tok o) => o | _ => s.attrPre.opts) oe false
    else (s, .ok ())) = sr
  have hi1 : ScanInv d sr.1 := by
    rw [← hs1]
    split
    · exact applyPre_scanInv d _ _ _ _ _ hi
    · exact hi
  obtain ⟨s1, r1⟩ := sr
  simp only at hi1 ⊢
  cases r1 with
  | error e => exact hi1
  | ok u =>
    simp only
    have hi1b : ScanInv d (if (s1.fp "model_key").isNone && (kwGet kw "model_key").isNone then
        (match setitem s1 "model_key" ((d "model_key").getD V.none) with | .ok x => x | .error _ => s1)
      else s1) := by
      split
      · exact opt_setitem_scanInv d _ _ _ hi1
      · exact hi1
    generalize (if (s1.fp "model_key").isNone && (kwGet kw "model_key").isNone then
        (match setitem s1 "model_key" ((d "model_key").getD V.none) with | .ok x => x | .error _ => s1)
      else s1) = s1b at hi1b ⊢
    have hi2' := applyKw_scanInv d (sortKw kw) s1b hi1b
    rcases hk2 : applyKw s1b (sortKw kw) with ⟨s3, oe2⟩
    rw [hk2] at hi2'
    cases oe2 with
    | some e => simp only; exact hi2'
    | none =>
      simp only
      have hi3 : ScanInv d s3 := hi2'
      have hi4 : ScanInv d (if s3.fp "params_initial" = none || s3.fp "params_initial" = some V.none then
          (match setitem s3 "params_initial" (V.params (match s3.fp "model_key" with
              | some (.tok m) => (m.drop 2).toString | _ => "") (g (match s3.fp "model_key" with
              | some (.tok m) => (m.drop 2).toString | _ => ""))) with
            | .ok x => x | .error _ => s3)
        else s3) := by
        split
        · exact opt_setitem_scanInv d _ _ _ hi3
        · exact hi3
      generalize (if s3.fp "params_initial" = none || s3.fp "params_initial" = some V.none then
          (match setitem s3 "params_initial" (V.params (match s3.fp "model_key" with
              | some (.tok m) => (m.drop 2).toString | _ => "") (g (match s3.fp "model_key" with
              | some (.tok m) => (m.drop 2).toString | _ => ""))) with
            | .ok x => x | .error _ => s3)
        else s3) = s4 at hi4 ⊢
      split
      · exact hi4
      · split
        · exact hi4
        · -- a fit ran: the completed settings are stored; the scan is the new one or the old one
          refine ⟨fun p hp => ?_⟩
          simp only at hp ⊢
          have hidem : eff d (fitterFp (withDefaults s4.fp d) d) = fitterFp (withDefaults s4.fp d) d :=
            eff_idem d s4.fp
          split at hp
          · cases hp
            exact ⟨rfl, hidem.symm⟩
          · have := hi4.current p hp
            exact ⟨this.1, by rw [hidem]; exact this.2⟩

theorem rate_scanInv (d : Settings) (s : St) (r t n l : String) (hi : ScanInv d s) :
    ScanInv d (rate s r t n l).1 := by
  unfold rate
  split
  · exact hi
  · split
    · exact hi
    · exact ⟨hi.current⟩

theorem emod_scanInv (d : Settings) (s : St) (hi : ScanInv d s) : ScanInv d (emod d s).1 := by
  unfold emod
  split
  · exact hi
  · dsimp only
    cases emodCheck s (fitterFp (withDefaults s.fp d) d) with
    | error e => exact hi
    | ok u => exact ⟨fun p hp => by cases hp; exact ⟨rfl, rfl⟩⟩

theorem step_scanInv (d : Settings) (s : St) (op : Op) (hi : ScanInv d s) : ScanInv d (step d s op).1 := by
  cases op with
  | pp steps opts oe rd => exact applyPre_scanInv d _ _ _ _ _ hi
  | fit kw oe g => exact fitModel_scanInv d _ _ _ g hi
  | set k v =>
    simp only [step]
    cases h : setitem s k v with
    | ok s' => exact setitem_scanInv d s s' _ _ hi h
    | error e => exact hi
  | rate r t n l => exact rate_scanInv d _ _ _ _ _ hi
  | emod => exact emod_scanInv d s hi

/-- **every history**: a visible E(δ) scan belongs to the data columns as they are and to the settings as they
are stored (completed by the defaults) – it is never shown for other settings -/
theorem c03_scan_current (d : Settings) (ops : List Op) : ScanInv d (run d init ops) := by
  suffices h : ∀ s, ScanInv d s → ScanInv d (run d s ops) from h init (scanInv_of_none d init rfl)
  induction ops with
  | nil => intro s hi; exact hi
  | cons op ops ih =>
    intro s hi
    simp only [run, List.foldl_cons]
    exact ih _ (step_scanInv d s op hi)

/-- … in particular the scan has the number of samples that is stored (or the default): C05's "the scan
arrays have the requested number of samples", for every history -/
theorem c05_scan_sample_count (d : Settings) (ops : List Op) (p : Prov)
    (h : (run d init ops).scan = some p) :
    p.settings "optimal_fit_num_samples" =
      (match (run d init ops).fp "optimal_fit_num_samples" with
       | some v => some v
       | none => if isDefaultKey "optimal_fit_num_samples" then d "optimal_fit_num_samples" else none) := by
  have := ((c03_scan_current d ops).current p h).2
  rw [this]
  unfold eff
  rw [fitterFp_other _ _ _ (by decide)]
  rfl

/-- a repeated request is served from the cache: nothing is computed, nothing changes -/
theorem c03_scan_cached_noop (d : Settings) (s : St) (p : Prov) (h : s.scan = some p) :
    emod d s = (s, .ok ()) := by
  simp [emod, h]

/-- a request that raises leaves the curve as it was -/
theorem c03_scan_error_keeps_state (d : Settings) (s : St) (e : Err) (h : (emod d s).2 = .error e) :
    (emod d s).1 = s := by
  unfold emod at h ⊢
  split
  · rfl
  · rename_i h1
    simp only [h1] at h
    dsimp only at h ⊢
    cases hc : emodCheck s (fitterFp (withDefaults s.fp d) d) with
    | error e' => rfl
    | ok u => rw [hc] at h; cases h

/-- changing the number of scan samples through `fit_model` or directly discards the scan (the case a seeded
change broke: results kept because the fit hash ignores this setting while the plateau search is off) -/
theorem c03_scan_discarded_on_change (s s' : St) (k : String) (v : V) (h : setitem s k v = .ok s')
    (hch : s'.fp ≠ s.fp) : s'.scan = none := by
  rcases setitem_scan s s' k v h with h1 | ⟨h1, _, _⟩
  · exact h1
  · exact absurd h1 hch

/-- non-vacuity: a history that ends with a visible scan -/
example : ((run (fun k => if k = "model_key" then some (.tok "s:hertz_para") else
      if k = "range_type" then some (.tok "s:absolute") else if k = "segment" then some (.tok "0.0") else none)
    init [.pp [0] "{}" [] false, .emod]).scan).isSome = true := by decide

end Nanite.C03Scan
