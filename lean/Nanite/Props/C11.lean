import Nanite.Model.Fitter
import Mathlib.Tactic.Ring
import Mathlib.Tactic.Linarith
import Mathlib.Tactic.FieldSimp
import Mathlib.Tactic.NormNum
/-!
# C11 – Geometrical correction factor rescales the modulus and nothing else  (partial)
Power-law models `F = a·E·pw(max (cp − x) 0) + b` with `pw (s·t) = pw s · pw t` on non-negative
arguments (`t ↦ t^{3/2}`: paraboloid; `t ↦ t²`: cone, pyramid).  Proved: fitting the k-scaled
abscissa is the k = 1 problem with the modulus multiplied by `pw k` – residuals, chi-square, the
fitted curve, the minimisers and xmin/xmax correspond, for every mask.  Not proved: that the
optimiser reaches the corresponding minimiser for both k (explored by the oracle).
-/
namespace Nanite.C11
open Nanite.Residual Nanite.Fitter
variable {K : Type} [Field K] [LinearOrder K] [IsStrictOrderedRing K]

/-- power-law contact model (abstract `pw`) -/
def plaw (pw : K → K) (a E cp b x : K) : K := a * E * pw (max (cp - x) 0) + b

/-- the multiplicativity the shipped power laws have -/
def Multiplicative (pw : K → K) : Prop := ∀ s t : K, 0 ≤ s → 0 ≤ t → pw (s * t) = pw s * pw t

theorem depth_scale (k c x : K) (hk : 0 < k) : max (k * c - k * x) 0 = k * max (c - x) 0 := by
  rw [← mul_sub, ← mul_zero k, ← mul_max_of_nonneg _ _ hk.le, mul_zero]

/-- **model equivalence**: the model at modulus `E'`, contact point `k·c`, evaluated at the
corrected abscissa `k·x`, is the k = 1 model at modulus `E'·pw k`, contact point `c`, abscissa `x` -/
theorem c11_model_equiv (pw : K → K) (hpw : Multiplicative pw) (a E' c b x k : K) (hk : 0 < k) :
    plaw pw a E' (k * c) b (k * x) = plaw pw a (E' * pw k) c b x := by
  unfold plaw
  rw [depth_scale k c x hk, hpw k _ hk.le (le_max_right _ _)]
  ring

/-- residuals (weighting off) agree point by point … -/
theorem c11_residual_equiv (pw : K → K) (hpw : Multiplicative pw) (a E' c b x y k : K) (hk : 0 < k) :
    resid (plaw pw a E' (k * c) b) none (k * c) (k * x) y =
      resid (plaw pw a (E' * pw k) c b) none c x y := by
  simp only [resid]
  rw [c11_model_equiv pw hpw a E' c b x k hk]

/-- sum of squared residuals of the k-problem over a list of used points -/
def chi (pw : K → K) (a k : K) (pts : List (K × K)) (E c b : K) : K :=
  (pts.map (fun p => (p.2 - plaw pw a E c b (k * p.1)) ^ 2)).sum

/-- … hence chi-square of the k-problem at `(E', k·c, b)` is chi-square of the k = 1 problem at
`(E'·pw k, c, b)`, for every set of used points -/
theorem c11_chisq_equiv (pw : K → K) (hpw : Multiplicative pw) (a k : K) (hk : 0 < k)
    (pts : List (K × K)) (E' c b : K) :
    chi pw a k pts E' (k * c) b = chi pw a 1 pts (E' * pw k) c b := by
  unfold chi
  congr 1
  apply List.map_congr_left
  intro p _
  rw [c11_model_equiv pw hpw a E' c b p.1 k hk, one_mul]

/-- least-squares minimiser of the k-problem (over all moduli, contact points, baselines) -/
def IsLsqMin (pw : K → K) (a k : K) (pts : List (K × K)) (E c b : K) : Prop :=
  ∀ E' c' b', chi pw a k pts E c b ≤ chi pw a k pts E' c' b'

/-- **minimisers correspond**: `(E', k·c, b)` minimises the k-problem iff `(E'·pw k, c, b)`
minimises the k = 1 problem.  In reported (measured) units: same contact point `c`, same
baseline, modulus multiplied by `(pw k)⁻¹`, i.e. by `k^{-p}`. -/
theorem c11_minimisers_correspond (pw : K → K) (hpw : Multiplicative pw) (a k : K) (hk : 0 < k)
    (hpk : pw k ≠ 0) (pts : List (K × K)) (E' c b : K) :
    IsLsqMin pw a k pts E' (k * c) b ↔ IsLsqMin pw a 1 pts (E' * pw k) c b := by
  unfold IsLsqMin
  rw [c11_chisq_equiv pw hpw a k hk pts E' c b]
  constructor
  · intro h E1 c1 b1
    have := h (E1 / pw k) (k * c1) b1
    rw [c11_chisq_equiv pw hpw a k hk pts _ c1 b1, div_mul_cancel₀ _ hpk] at this
    exact this
  · intro h E1 c1 b1
    have := h (E1 * pw k) (c1 / k) b1
    have hc : c1 = k * (c1 / k) := by rw [mul_div_cancel₀ _ hk.ne']
    rw [hc, c11_chisq_equiv pw hpw a k hk pts E1 (c1 / k) b1]
    exact this

/-- the fitted curve in measured units is the same function of the measured abscissa -/
theorem c11_fit_curve_equal (pw : K → K) (hpw : Multiplicative pw) (a E' c b k : K) (hk : 0 < k)
    (xs : List K) :
    (xs.map (k * ·)).map (plaw pw a E' (k * c) b) = xs.map (plaw pw a (E' * pw k) c b) := by
  rw [List.map_map]
  apply List.map_congr_left
  intro x _
  exact c11_model_equiv pw hpw a E' c b x k hk

/-- with weighting on the correspondence still holds wherever the residual vanishes (exact,
noise-free data): weights multiply a zero -/
theorem c11_noise_free_with_weights (model : K → K) (wd cp x y : K) (h : y = model x) :
    resid model (some wd) cp x y = 0 := by
  simp [resid, h]

/-- the initial contact-point guess `cp₀` (measured units) enters every optimiser call as
`k·cp₀`: scaling a *copy* leaves the stored guess unchanged, so pass n+1 starts from the same
`k·cp₀` as pass 1 (the in-place variant multiplied once more per pass, see the witness) -/
def passStarts (k cp0 : K) (npasses : Nat) : List K := List.replicate npasses (k * cp0)

theorem c11_initial_guess_measured (k cp0 : K) (n : Nat) : ∀ s ∈ passStarts k cp0 n, s = k * cp0 := by
  intro s hs; exact (List.mem_replicate.mp hs).2

/-! ### contact-point limits
`_fit` hands lmfit the contact point AND its limits in corrected units (`cp·k`, `min·k`, `max·k`; `none` is an
absent limit, ±∞ in the code, which `k > 0` leaves where it is) and converts all three back afterwards.  A contact
point is admissible in corrected units exactly when it is admissible in measured units – for two-sided,
one-sided and absent limits alike – so the constrained problem with `k` is the constrained k = 1 problem. -/

/-- admissible w.r.t. optional limits -/
def within (lo hi : Option K) (x : K) : Prop :=
  (∀ l, lo = some l → l ≤ x) ∧ (∀ h, hi = some h → x ≤ h)

/-- the limits as `_fit` passes them on -/
def scaleLimit (k : K) (l : Option K) : Option K := l.map (k * ·)

theorem c11_limits_equivalent (k : K) (hk : 0 < k) (lo hi : Option K) (cp : K) :
    within (scaleLimit k lo) (scaleLimit k hi) (k * cp) ↔ within lo hi cp := by
  unfold within scaleLimit
  constructor
  · rintro ⟨h1, h2⟩
    refine ⟨fun l hl => ?_, fun h hh => ?_⟩
    · have := h1 (k * l) (by simp [hl])
      exact le_of_mul_le_mul_left this hk
    · have := h2 (k * h) (by simp [hh])
      exact le_of_mul_le_mul_left this hk
  · rintro ⟨h1, h2⟩
    refine ⟨fun l hl => ?_, fun h hh => ?_⟩
    · cases lo with
      | none => simp at hl
      | some l0 =>
        simp only [Option.map_some, Option.some.injEq] at hl
        subst hl
        exact mul_le_mul_of_nonneg_left (h1 l0 rfl) hk.le
    · cases hi with
      | none => simp at hh
      | some h0 =>
        simp only [Option.map_some, Option.some.injEq] at hh
        subst hh
        exact mul_le_mul_of_nonneg_left (h2 h0 rfl) hk.le

/-- the seeded variant that rescales limits only when BOTH are finite is not equivalent: a one-sided limit
left in measured units excludes the corrected contact point although the measured one is admissible -/
theorem c11_one_sided_limit_must_scale :
    within (some (2 : ℚ)) none 3 ∧ ¬ within (some (2 : ℚ)) none ((1 / 2) * 3) := by
  constructor
  · exact ⟨fun l hl => by cases hl; norm_num, fun h hh => by cases hh⟩
  · intro h
    have := h.1 2 rfl
    norm_num at this

/-- converting back: the reported limits are the caller's -/
theorem c11_limits_restored (k : K) (hk : 0 < k) (l : Option K) :
    (scaleLimit k l).map (· / k) = l := by
  cases l with
  | none => rfl
  | some x =>
    simp only [scaleLimit, Option.map_some, Option.some.injEq]
    field_simp

/-- instances: squares are multiplicative over any ordered field -/
theorem c11_square_multiplicative : Multiplicative (fun t : K => t ^ 2) := by
  intro s t _ _; ring

/-! non-vacuity (ℚ, cone-like p = 2) -/
example : plaw (fun t : ℚ => t ^ 2) 1 8 (2 * 3) 1 (2 * 1) = plaw (fun t : ℚ => t ^ 2) 1 (8 * 2 ^ 2) 3 1 1 := by
  norm_num [plaw]

end Nanite.C11
