import Nanite.Model.Profile
import Nanite.Gen.Profile
/-!
# C19 – CLI profile persists what was entered; every producible profile can be fitted
(partial: JSON/float text round-trip, plotting and the batch run itself are runtime)
-/
namespace Nanite.C19
open Nanite.Profile

theorem fget_fset_self (f : File) (k : String) (v : JV) : fget (fset f k v) k = some v := by
  simp [fget, fset]

theorem fget_fset_other (f : File) (k k' : String) (v : JV) (h : k' ≠ k) :
    fget (fset f k v) k' = fget f k' := by
  unfold fget fset
  have h1 : (k == k') = false := by simp [Ne.symm h]
  rw [List.find?_cons]
  simp only [h1]
  congr 1
  induction f with
  | nil => rfl
  | cons p ps ih =>
    by_cases hp : p.1 = k
    · have a : (p.1 != k) = false := by simp [hp]
      have b : (p.1 == k') = false := by simp [hp, Ne.symm h]
      rw [List.filter_cons, a, List.find?_cons, b]
      simpa using ih
    · have a : (p.1 != k) = true := by simp [hp]
      rw [List.filter_cons, a]
      simp only [↓reduceIte, List.find?_cons]
      rw [ih]

theorem eff_fset_self (D f : File) (k : String) (v : JV) : eff D (fset f k v) k = some v := by
  simp [eff, fget_fset_self]

theorem eff_fset_other (D f : File) (k k' : String) (v : JV) (h : k' ≠ k) :
    eff D (fset f k v) k' = eff D f k' := by
  simp [eff, fget_fset_other _ _ _ _ h]

/-- a read reports the effective value and changes no effective value (it only writes the value
it has just read) -/
theorem c19_get_reports_eff (D f : File) (k : String) (dv : JV) (hk : fget D k = some dv) :
    ∃ v, (getItem D f k).2 = .val v ∧ eff D f k = some v := by
  unfold getItem eff
  rw [hk]
  cases h : fget f k <;> simp

theorem c19_reads_do_not_change (D f : File) (k k' : String) :
    eff D (getItem D f k).1 k' = eff D f k' := by
  unfold getItem
  cases hk : fget D k with
  | none => rfl
  | some dv =>
    simp only
    by_cases h : k' = k
    · subst h
      rw [eff_fset_self]
      unfold eff
      rw [hk]
      cases fget f k' <;> rfl
    · exact eff_fset_other _ _ _ _ _ h

/-- a new Profile object changes no effective value -/
theorem c19_new_does_not_change (D f : File) (k' : String) :
    eff D (step D f .new).1 k' = eff D f k' := by
  simp only [step]
  generalize D = L at *
  suffices h : ∀ (L' : File) (f : File), eff L (L'.foldl (fun f p => (getItem L f p.1).1) f) k' = eff L f k' from h L f
  intro L'
  induction L' with
  | nil => intro f; rfl
  | cons p ps ih =>
    intro f
    simp only [List.foldl_cons]
    rw [ih, c19_reads_do_not_change]

/-- the last value written for `k` (by an accepted `set`) in a history of new/get/set -/
def lastSet (k : String) : List Op → Option JV
  | [] => none
  | op :: rest =>
      match lastSet k rest with
      | some v => some v
      | none => match op with
        | .set k' v => if k' = k && validKey k' then some v else none
        | _ => none

def plain : Op → Bool
  | .fitParams _ => false
  | _ => true

/-- **values written are returned unchanged by later reads from any new profile object**:
after any history of new-object / read / write operations the effective value of `k` is the
last value written for it, or what it was before (the default for a fresh file). -/
theorem c19_get_after_set (D : File) (k : String) :
    ∀ (ops : List Op) (f : File), ops.all plain = true →
      eff D (run D f ops) k = match lastSet k ops with
        | some v => some v
        | none => eff D f k := by
  intro ops
  induction ops with
  | nil => intro f _; rfl
  | cons op rest ih =>
    intro f hp
    simp only [List.all_cons, Bool.and_eq_true] at hp
    simp only [run, List.foldl_cons] at ih ⊢
    rw [ih _ hp.2]
    simp only [lastSet]
    cases hl : lastSet k rest with
    | some v => rfl
    | none =>
      simp only
      cases op with
      | new => exact c19_new_does_not_change D f k
      | get k' => exact c19_reads_do_not_change D f k' k
      | set k' v =>
        simp only [step]
        by_cases hv : validKey k' = true
        · simp only [hv, ↓reduceIte, Bool.and_true]
          by_cases hkk : k' = k
          · subst hkk; simp [eff_fset_self]
          · have : (decide (k' = k)) = false := by simp [hkk]
            simp only [this]
            exact eff_fset_other _ _ _ _ _ (Ne.symm hkk)
        · simp [hv]
      | fitParams md => simp [plain] at hp

/-- invalid fit-parameter keys are refused and nothing is written -/
theorem c19_invalid_key_refused (D f : File) (k : String) (v : JV) (h : validKey k = false) :
    step D f (.set k v) = (f, .valueErr) := by simp [step, h]

/-- **fit parameters = the model's defaults overridden by exactly the stored value/vary entries** -/
theorem c19_fit_params_exact (D f : File) (md : List (String × JV × Bool)) :
    (step D f (.fitParams md)).2 = .params (md.map (fun e =>
      (e.1, (fget f (vkey e.1)).getD e.2.1,
        match fget f (fkey e.1) with
        | some (.b x) => x
        | _ => e.2.2))) := by
  rfl

/-- setup: the stored range type is always one the fitter accepts, and equals the answer up to
the documented renaming -/
theorem c19_setup_range_type_fittable (a : String) (h : a = "absolute" ∨ a = "relative") :
    fitterAcceptsRangeType (storeRangeType a) = true := by
  cases h with
  | inl h => subst h; decide
  | inr h => subst h; decide

/-- setup: each accepted (non-empty) bound is the value stored, independently of the other -/
theorem c19_setup_interval (cur : JV × JV) (l r : Option JV) :
    (∀ x, l = some x → (storeInterval cur l r).1 = x) ∧
    (∀ x, r = some x → (storeInterval cur l r).2 = x) ∧
    (l = none → (storeInterval cur l r).1 = cur.1) ∧ (r = none → (storeInterval cur l r).2 = cur.2) := by
  refine ⟨?_, ?_, ?_, ?_⟩ <;> intro h <;> simp_all [storeInterval]

/-- the generated defaults contain the keys the setup and the batch fit read -/
theorem c19_defaults_keys :
    ["model_key", "preprocessing", "preprocessing_options", "range_type", "range_x", "segment",
     "weight_cp", "rating regressor", "rating training set"].all
      (fun k => (fget Nanite.Gen.Profile.defaults k).isSome) = true ∧
    fitterAcceptsRangeType (match fget Nanite.Gen.Profile.defaults "range_type" with
      | some (.s x) => x | _ => "") = true := by decide

/-! non-vacuity -/
example : eff Nanite.Gen.Profile.defaults
    (run Nanite.Gen.Profile.defaults [] [.new, .set "weight_cp" (.n "0"), .get "segment", .new]) "weight_cp"
    = some (.n "0") := by
  rw [c19_get_after_set _ _ _ _ (by decide)]
  rfl
example : validKey "fit param E value" = true ∧ validKey "fit param E" = false ∧ validKey "segment" = true := by
  decide

end Nanite.C19
