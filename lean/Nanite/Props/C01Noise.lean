import Nanite.Props.C07
/-!
# C01 – the noise clause, for a fixed contact point  (partial)
"With zero-mean noise added, the estimates stay within a tolerance proportional to the noise level."
With the contact point held fixed every shipped single-material model is LINEAR in the two remaining
parameters: `F_i = E·g_i + b` with the shape values `g_i = a·pw(max(cp − x_i, 0))` (`Props/C01`, `Props/C11`).
For that sub-problem the statement is proved for every data set, every noise realisation and every noise
amplitude `t`:

* the closed-form least-squares pair `(olsSlope, olsIntercept)` IS a least-squares minimiser
  (`c01_ols_minimises`: no `(m, c)` has a smaller sum of squared residuals);
* it is linear in the ordinates (`c01_ols_linear`);
* hence for data `y_i = E·g_i + b + t·e_i` the estimates are `E + t·Ê(e)` and `b + t·b̂(e)`:
  the deviation from the generating parameters is EXACTLY proportional to the noise amplitude
  (`c01_noise_proportional_fixed_cp_partial`), and exact data (`t = 0`) return them (`c01_exact_recovered`).

Not proved (the full clause): a varied contact point makes the problem non-linear; there the recovery runs of
the harness explore the proportionality (tolerances `c·rel_noise`).
-/
set_option linter.unusedSectionVars false
namespace Nanite.C01Noise
open Nanite.Preproc Nanite.C07
variable {K : Type} [Field K] [LinearOrder K] [IsStrictOrderedRing K]

/-- data with shape value, exact ordinate and noise direction per sample -/
abbrev Sample (K : Type) := K × K × K

def clean (ts : List (Sample K)) : List (K × K) := ts.map fun s => (s.1, s.2.1)
def noise (ts : List (Sample K)) : List (K × K) := ts.map fun s => (s.1, s.2.2)
def noisy (t : K) (ts : List (Sample K)) : List (K × K) := ts.map fun s => (s.1, s.2.1 + t * s.2.2)

/-- sum of squared residuals of the line `m·g + c` -/
def sse (ps : List (K × K)) (m c : K) : K := (ps.map fun p => (p.2 - (m * p.1 + c)) ^ 2).sum

theorem fst_clean (ts : List (Sample K)) : (clean ts).map Prod.fst = ts.map (·.1) := by
  simp [clean, List.map_map, Function.comp_def]
theorem fst_noise (ts : List (Sample K)) : (noise ts).map Prod.fst = ts.map (·.1) := by
  simp [noise, List.map_map, Function.comp_def]
theorem fst_noisy (t : K) (ts : List (Sample K)) : (noisy t ts).map Prod.fst = ts.map (·.1) := by
  simp [noisy, List.map_map, Function.comp_def]

theorem sxx_noisy (t : K) (ts : List (Sample K)) : sxx (noisy t ts) = sxx (clean ts) := by
  unfold sxx
  rw [fst_noisy, fst_clean]
  simp [noisy, clean, List.map_map, Function.comp_def]

theorem sxx_noise (ts : List (Sample K)) : sxx (noise ts) = sxx (clean ts) := by
  unfold sxx
  rw [fst_noise, fst_clean]
  simp [noise, clean, List.map_map, Function.comp_def]

theorem mean_snd_noisy (t : K) (ts : List (Sample K)) :
    mean ((noisy t ts).map Prod.snd) = mean ((clean ts).map Prod.snd) + t * mean ((noise ts).map Prod.snd) := by
  unfold mean noisy clean noise
  simp only [List.map_map, List.length_map, Function.comp_def]
  rw [sum_map_add', sum_map_mul_left']
  ring

theorem sxy_noisy (t : K) (ts : List (Sample K)) :
    sxy (noisy t ts) = sxy (clean ts) + t * sxy (noise ts) := by
  unfold sxy
  rw [fst_noisy, fst_clean, fst_noise, mean_snd_noisy]
  simp only [noisy, clean, noise, List.map_map, Function.comp_def]
  rw [← sum_map_mul_left', ← sum_map_add']
  congr 1
  apply List.map_congr_left
  intro s _
  ring

/-- **the least-squares estimates are linear in the data** -/
theorem c01_ols_linear (t : K) (ts : List (Sample K)) :
    olsSlope (noisy t ts) = olsSlope (clean ts) + t * olsSlope (noise ts) ∧
    olsIntercept (noisy t ts) = olsIntercept (clean ts) + t * olsIntercept (noise ts) := by
  have hs : olsSlope (noisy t ts) = olsSlope (clean ts) + t * olsSlope (noise ts) := by
    unfold olsSlope
    rw [sxy_noisy, sxx_noisy, sxx_noise]
    ring
  refine ⟨hs, ?_⟩
  unfold olsIntercept
  rw [hs, mean_snd_noisy, fst_noisy, fst_clean, fst_noise]
  ring

/-- exact data `y = E·g + b` -/
def Exact (E b : K) (ts : List (Sample K)) : Prop := ∀ s ∈ ts, s.2.1 = E * s.1 + b

theorem c01_exact_recovered (E b : K) (ts : List (Sample K)) (hex : Exact E b ts)
    (hx : sxx (clean ts) ≠ 0) (hne : ts ≠ []) :
    olsSlope (clean ts) = E ∧ olsIntercept (clean ts) = b := by
  have hne' : clean ts ≠ [] := by simpa [clean] using hne
  have hn : ((clean ts).length : K) ≠ 0 := by
    have : 0 < (clean ts).length := List.length_pos_iff.mpr hne'
    exact_mod_cast this.ne'
  -- subtracting the generating line leaves zero ordinates, whose slope is 0
  have hz : (clean ts).map (fun p => (p.1, p.2 - (E * p.1 + b))) = (clean ts).map (fun p => (p.1, (0 : K))) := by
    apply List.map_congr_left
    intro p hp
    obtain ⟨s, hs, rfl⟩ := List.mem_map.mp hp
    simp only [Prod.mk.injEq, true_and]
    rw [hex s hs]; ring
  have h0 : olsSlope ((clean ts).map fun p => (p.1, (0 : K))) = 0 := by
    unfold olsSlope sxy
    simp only [List.map_map, Function.comp_def]
    have : mean ((clean ts).map fun _ => (0 : K)) = 0 := by
      unfold mean; rw [sum_map_const']; simp
    rw [this]
    simp
  have hsl := ols_slope_sub_line (clean ts) E b hx hne'
  rw [hz, h0] at hsl
  have hE : olsSlope (clean ts) = E := by linarith
  refine ⟨hE, ?_⟩
  unfold olsIntercept
  rw [hE]
  have hm : mean ((clean ts).map Prod.snd) = E * mean ((clean ts).map Prod.fst) + b := by
    unfold mean
    have : ((clean ts).map Prod.snd).sum = E * ((clean ts).map Prod.fst).sum + ((clean ts).length : K) * b := by
      rw [← sum_map_mul_left', ← sum_map_const' (clean ts) b, ← sum_map_add']
      congr 1
      apply List.map_congr_left
      intro p hp
      obtain ⟨s, hs, rfl⟩ := List.mem_map.mp hp
      exact hex s hs
    rw [this]
    simp only [List.length_map]
    field_simp
  rw [hm]; ring

/-- **noise clause for a fixed contact point**: for exact data plus `t` times any noise vector the
least-squares modulus and baseline deviate from the generating values by exactly `t` times the estimates of
the pure-noise problem -/
theorem c01_noise_proportional_fixed_cp_partial (E b t : K) (ts : List (Sample K)) (hex : Exact E b ts)
    (hx : sxx (clean ts) ≠ 0) (hne : ts ≠ []) :
    olsSlope (noisy t ts) - E = t * olsSlope (noise ts) ∧
    olsIntercept (noisy t ts) - b = t * olsIntercept (noise ts) := by
  obtain ⟨h1, h2⟩ := c01_ols_linear t ts
  obtain ⟨hE, hb⟩ := c01_exact_recovered E b ts hex hx hne
  rw [h1, h2, hE, hb]
  constructor <;> ring

/-! ### the closed form is a least-squares minimiser -/

theorem resid_sum_zero (ps : List (K × K)) (hne : ps ≠ []) :
    (ps.map fun p => p.2 - (olsSlope ps * p.1 + olsIntercept ps)).sum = 0 := by
  have hn : (ps.length : K) ≠ 0 := by
    have : 0 < ps.length := List.length_pos_iff.mpr hne
    exact_mod_cast this.ne'
  have e : (fun p : K × K => p.2 - (olsSlope ps * p.1 + olsIntercept ps)) =
      fun p => p.2 + ((-olsSlope ps) * p.1 + (-olsIntercept ps)) := by funext p; ring
  rw [e, sum_map_add', sum_map_add', sum_map_mul_left', sum_map_const']
  unfold olsIntercept mean
  simp only [List.length_map]
  field_simp
  ring

theorem resid_dot_zero (ps : List (K × K)) (hx : sxx ps ≠ 0) (hne : ps ≠ []) :
    (ps.map fun p => (p.2 - (olsSlope ps * p.1 + olsIntercept ps)) * p.1).sum = 0 := by
  -- Σ r g = Σ r (g − ḡ) + ḡ Σ r = (sxy − m̂ sxx) + 0
  have h0 := resid_sum_zero ps hne
  have e : (fun p : K × K => (p.2 - (olsSlope ps * p.1 + olsIntercept ps)) * p.1) =
      fun p => ((p.1 - mean (ps.map Prod.fst)) * (p.2 - mean (ps.map Prod.snd))
        + (-olsSlope ps) * (p.1 - mean (ps.map Prod.fst)) ^ 2)
        + mean (ps.map Prod.fst) * (p.2 - (olsSlope ps * p.1 + olsIntercept ps)) := by
    funext p; unfold olsIntercept; ring
  rw [e, sum_map_add', sum_map_add', sum_map_mul_left', sum_map_mul_left', h0]
  have : (ps.map fun p => (p.1 - mean (ps.map Prod.fst)) * (p.2 - mean (ps.map Prod.snd))).sum = sxy ps := rfl
  have h2 : (ps.map fun p => (p.1 - mean (ps.map Prod.fst)) ^ 2).sum = sxx ps := rfl
  rw [this, h2]
  unfold olsSlope
  field_simp
  ring

theorem sum_sq_nonneg' {α : Type} (l : List α) (f : α → K) : 0 ≤ (l.map fun p => (f p) ^ 2).sum := by
  induction l with
  | nil => simp
  | cons x xs ih => simp only [List.map_cons, List.sum_cons]; exact add_nonneg (sq_nonneg _) ih

/-- **the closed-form pair minimises the sum of squared residuals** over all lines -/
theorem c01_ols_minimises (ps : List (K × K)) (hx : sxx ps ≠ 0) (hne : ps ≠ []) (m c : K) :
    sse ps (olsSlope ps) (olsIntercept ps) ≤ sse ps m c := by
  have h1 := resid_sum_zero ps hne
  have h2 := resid_dot_zero ps hx hne
  set mh := olsSlope ps with hmh
  set ch := olsIntercept ps with hch
  have e : (fun p : K × K => (p.2 - (m * p.1 + c)) ^ 2) =
      fun p => ((p.2 - (mh * p.1 + ch)) ^ 2 + ((m - mh) * p.1 + (c - ch)) ^ 2)
        + ((-2 * (m - mh)) * ((p.2 - (mh * p.1 + ch)) * p.1) + (-2 * (c - ch)) * (p.2 - (mh * p.1 + ch))) := by
    funext p; ring
  unfold sse
  rw [e, sum_map_add', sum_map_add', sum_map_add', sum_map_mul_left', sum_map_mul_left', h1, h2]
  have := sum_sq_nonneg' ps (fun p => (m - mh) * p.1 + (c - ch))
  linarith

/-! non-vacuity: three samples, generating line `2·g + 1`, noise direction `(1, −2, 1)` -/
example : Exact (2 : ℚ) 1 [(0, 1, 1), (1, 3, -2), (2, 5, 1)] ∧ sxx (clean [((0 : ℚ), (1 : ℚ), (1 : ℚ)), (1, 3, -2), (2, 5, 1)]) ≠ 0 := by
  constructor
  · intro s hs
    simp only [List.mem_cons, List.mem_nil_iff, or_false] at hs
    rcases hs with rfl | rfl | rfl <;> norm_num
  · norm_num [sxx, clean, mean]

end Nanite.C01Noise
