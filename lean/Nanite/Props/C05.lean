import Nanite.Model.Fitter
import Mathlib.Tactic.Ring
import Mathlib.Tactic.Linarith
import Mathlib.Tactic.FieldSimp
/-!
# C05 – Exactly the requested points are fitted  (partial)
Proved for every array, segment and interval over any ordered field: the absolute mask, the
anchoring of contact-point-relative intervals, xmin/xmax in uncorrected units and the depth grid
of the plateau search.  Not proved: convergence of the relative-cp passes ("at convergence") and
the plateau detection on the smoothed modulus curve (Butterworth filter) – explored by the oracle.
-/
namespace Nanite.C05
open Nanite.Fitter
variable {K : Type} [Field K] [LinearOrder K] [IsStrictOrderedRing K]

/-- **closed interval, own segment only**: a point is used iff it belongs to the requested
segment and (the interval has zero width or) its abscissa lies in the closed interval spanned
by the two bounds, whichever order they are given in -/
theorem c05_mask_iff (seg : List Bool) (xs : List K) (a b : K) (i : Nat)
    (h1 : i < seg.length) (h2 : i < xs.length) :
    (maskAbs seg xs a b)[i]? = some true ↔
      seg[i] = true ∧ (a = b ∨ (min a b ≤ xs[i] ∧ xs[i] ≤ max a b)) := by
  simp [maskAbs, List.getElem?_zipWith, List.getElem?_eq_getElem h1, List.getElem?_eq_getElem h2,
    inRange]

/-- a zero-width interval selects the whole segment -/
theorem c05_zero_width (seg : List Bool) (xs : List K) (a : K) (h : seg.length = xs.length) :
    maskAbs seg xs a a = seg := by
  induction seg generalizing xs with
  | nil => simp [maskAbs]
  | cons s ss ih =>
    cases xs with
    | nil => simp at h
    | cons x xs =>
      have := ih xs (by simpa using h)
      simp only [maskAbs, inRange, decide_true, Bool.true_or, Bool.and_true] at this ⊢
      simp only [List.zipWith_cons_cons, List.cons.injEq, true_and]
      exact this

/-- points of the other segment are never used -/
theorem c05_other_segment_excluded (seg : List Bool) (xs : List K) (a b : K) (i : Nat)
    (h1 : i < seg.length) (h2 : i < xs.length) (hs : seg[i] = false) :
    (maskAbs seg xs a b)[i]? = some false := by
  simp [maskAbs, List.getElem?_zipWith, List.getElem?_eq_getElem h1, List.getElem?_eq_getElem h2, hs]

/-- contact-point-relative ranges: the interval of a pass is the requested one shifted by the
contact point of the previous pass – at convergence (`cp` = reported contact point) it is
`[cp + a, cp + b]` -/
theorem c05_relcp_anchor (seg : List Bool) (xs : List K) (a b cp : K) (hab : a ≠ b) (i : Nat)
    (h1 : i < seg.length) (h2 : i < xs.length) :
    (maskAbs seg xs (relInterval a b cp).1 (relInterval a b cp).2)[i]? = some true ↔
      seg[i] = true ∧ cp + min a b ≤ xs[i] ∧ xs[i] ≤ cp + max a b := by
  rw [c05_mask_iff seg xs _ _ i h1 h2]
  simp only [relInterval]
  have hne : a + cp ≠ b + cp := fun h => hab (add_right_cancel h)
  have hmin : min (a + cp) (b + cp) = cp + min a b := by
    rw [min_add_add_right, add_comm]
  have hmax : max (a + cp) (b + cp) = cp + max a b := by
    rw [max_add_add_right, add_comm]
  rw [hmin, hmax]
  constructor
  · rintro ⟨hs, h | h⟩
    · exact absurd h hne
    · exact ⟨hs, h⟩
  · rintro ⟨hs, h⟩
    exact ⟨hs, Or.inr h⟩

theorem lmin_map_mul (k : K) (hk : 0 < k) (l : List K) :
    lmin (l.map (k * ·)) = (lmin l).map (k * ·) := by
  induction l with
  | nil => rfl
  | cons x xs ih =>
    simp only [List.map_cons, lmin, ih]
    cases lmin xs with
    | none => rfl
    | some m => simp [mul_min_of_nonneg _ _ hk.le]

theorem lmax_map_mul (k : K) (hk : 0 < k) (l : List K) :
    lmax (l.map (k * ·)) = (lmax l).map (k * ·) := by
  induction l with
  | nil => rfl
  | cons x xs ih =>
    simp only [List.map_cons, lmax, ih]
    cases lmax xs with
    | none => rfl
    | some m => simp [mul_max_of_nonneg _ _ hk.le]

/-- **xmin / xmax are the extreme abscissae of the used points in uncorrected units**, for
every geometrical correction factor k > 0 -/
theorem c05_xmin_xmax (model : K → K) (cpk : K) (w : Option K) (k : K) (hk : 0 < k) (nv : Nat)
    (seg used : List Bool) (xs ys : List K)
    (hs : (fitOut model cpk w k nv seg used xs ys).success = true) :
    (fitOut model cpk w k nv seg used xs ys).xmin = lmin (select used xs) ∧
    (fitOut model cpk w k nv seg used xs ys).xmax = lmax (select used xs) := by
  have he : enough nv used xs = true := by
    cases h : enough nv used xs
    · simp [fitOut, h] at hs
    · rfl
  simp only [fitOut, he, ↓reduceIte]
  rw [lmin_map_mul k hk, lmax_map_mul k hk]
  constructor
  · cases lmin (select used xs) with
    | none => rfl
    | some m => simp [mul_div_cancel_left₀ _ hk.ne']
  · cases lmax (select used xs) with
    | none => rfl
    | some m => simp [mul_div_cancel_left₀ _ hk.ne']

/-- `lmin` really is the minimum: an element of the list that bounds every element from below -/
theorem lmin_spec (l : List K) (m : K) (h : lmin l = some m) : m ∈ l ∧ ∀ v ∈ l, m ≤ v := by
  induction l generalizing m with
  | nil => simp [lmin] at h
  | cons x xs ih =>
    simp only [lmin] at h
    cases hxs : lmin xs with
    | none =>
      rw [hxs] at h
      have hm : x = m := by simpa using h
      subst hm
      cases xs with
      | nil => simp
      | cons y ys => simp only [lmin] at hxs; cases hys : lmin ys <;> simp [hys] at hxs
    | some m' =>
      rw [hxs] at h
      have hm : min x m' = m := by simpa using h
      obtain ⟨hmem, hle⟩ := ih m' hxs
      subst hm
      constructor
      · rcases min_choice x m' with h1 | h1
        · rw [h1]; exact List.mem_cons_self
        · rw [h1]; exact List.mem_cons_of_mem _ hmem
      · intro v hv
        rcases List.mem_cons.mp hv with rfl | hv
        · exact min_le_left _ _
        · exact le_trans (min_le_right _ _) (hle v hv)

theorem lmax_spec (l : List K) (m : K) (h : lmax l = some m) : m ∈ l ∧ ∀ v ∈ l, v ≤ m := by
  induction l generalizing m with
  | nil => simp [lmax] at h
  | cons x xs ih =>
    simp only [lmax] at h
    cases hxs : lmax xs with
    | none =>
      rw [hxs] at h
      have hm : x = m := by simpa using h
      subst hm
      cases xs with
      | nil => simp
      | cons y ys => simp only [lmax] at hxs; cases hys : lmax ys <;> simp [hys] at hxs
    | some m' =>
      rw [hxs] at h
      have hm : max x m' = m := by simpa using h
      obtain ⟨hmem, hle⟩ := ih m' hxs
      subst hm
      constructor
      · rcases max_choice x m' with h1 | h1
        · rw [h1]; exact List.mem_cons_self
        · rw [h1]; exact List.mem_cons_of_mem _ hmem
      · intro v hv
        rcases List.mem_cons.mp hv with rfl | hv
        · exact le_max_left _ _
        · exact le_trans (hle v hv) (le_max_right _ _)

theorem lmin_isSome_of_ne_nil (l : List K) (h : l ≠ []) : ∃ m, lmin l = some m := by
  cases l with
  | nil => exact absurd rfl h
  | cons x xs => simp only [lmin]; cases lmin xs <;> simp

theorem lmax_isSome_of_ne_nil (l : List K) (h : l ≠ []) : ∃ m, lmax l = some m := by
  cases l with
  | nil => exact absurd rfl h
  | cons x xs => simp only [lmax]; cases lmax xs <;> simp

/-- every selected value is the value at an index the mask flags -/
theorem select_mem {α : Type} (m : List Bool) (l : List α) (v : α) (h : v ∈ select m l) :
    ∃ i, ∃ (h1 : i < m.length) (h2 : i < l.length), m[i] = true ∧ l[i] = v := by
  induction m generalizing l with
  | nil => simp [select] at h
  | cons b bs ih =>
    cases l with
    | nil => simp [select] at h
    | cons x xs =>
      simp only [select] at h
      cases b with
      | false =>
        simp only [Bool.false_eq_true, ↓reduceIte] at h
        obtain ⟨i, h1, h2, hb, hv⟩ := ih xs h
        exact ⟨i + 1, by simpa using h1, by simpa using h2, by simpa using hb, by simpa using hv⟩
      | true =>
        simp only [↓reduceIte, List.mem_cons] at h
        rcases h with rfl | h
        · exact ⟨0, by simp, by simp, by simp, by simp⟩
        · obtain ⟨i, h1, h2, hb, hv⟩ := ih xs h
          exact ⟨i + 1, by simpa using h1, by simpa using h2, by simpa using hb, by simpa using hv⟩

/-- **the reported xmin / xmax of a successful fit are attained at used points and bracket every
used point** (for every geometrical correction factor k > 0): `xmin ≤ x_i ≤ xmax` for all used
`i`, and both are abscissae of points the `fit range` column flags -/
theorem c05_xmin_xmax_extreme (model : K → K) (cpk : K) (w : Option K) (k : K) (hk : 0 < k) (nv : Nat)
    (seg used : List Bool) (xs ys : List K)
    (hs : (fitOut model cpk w k nv seg used xs ys).success = true) :
    ∃ lo hi, (fitOut model cpk w k nv seg used xs ys).xmin = some lo ∧
      (fitOut model cpk w k nv seg used xs ys).xmax = some hi ∧
      (∃ i, ∃ (h1 : i < used.length) (h2 : i < xs.length), used[i] = true ∧ xs[i] = lo) ∧
      (∃ j, ∃ (h1 : j < used.length) (h2 : j < xs.length), used[j] = true ∧ xs[j] = hi) ∧
      ∀ v ∈ select used xs, lo ≤ v ∧ v ≤ hi := by
  obtain ⟨hmin, hmax⟩ := c05_xmin_xmax model cpk w k hk nv seg used xs ys hs
  have hne : select used xs ≠ [] := by
    have he : enough nv used xs = true := by
      cases h : enough nv used xs
      · simp [fitOut, h] at hs
      · rfl
    simp only [enough, decide_eq_true_eq] at he
    intro h0; rw [h0] at he; simp at he
  obtain ⟨lo, hlo⟩ := lmin_isSome_of_ne_nil _ hne
  obtain ⟨hi, hhi⟩ := lmax_isSome_of_ne_nil _ hne
  obtain ⟨hlomem, hlole⟩ := lmin_spec _ _ hlo
  obtain ⟨himem, hile⟩ := lmax_spec _ _ hhi
  exact ⟨lo, hi, by rw [hmin, hlo], by rw [hmax, hhi], select_mem _ _ _ hlomem, select_mem _ _ _ himem,
    fun v hv => ⟨hlole v hv, hile v hv⟩⟩

/-! ### depth grid of the plateau search -/
theorem c05_plateau_grid_length (xmin : K) (n : Nat) (hn : 0 < n) :
    (plateauGrid xmin n).length = n := by
  unfold plateauGrid linspace
  split
  · rename_i h; simp [h]
  · simp

theorem c05_plateau_grid_first (xmin : K) (n : Nat) (hn : 0 < n) :
    (plateauGrid xmin n)[0]? = some xmin := by
  unfold plateauGrid linspace
  split
  · simp
  · rw [List.getElem?_map, List.getElem?_range hn]
    simp

theorem c05_plateau_grid_entry (xmin : K) (n i : Nat) (hn : 2 ≤ n) (hi : i < n) :
    (plateauGrid xmin n)[i]? = some (xmin + (i : K) * ((xmin * (5 / 100) - xmin) / ((n : K) - 1))) := by
  unfold plateauGrid linspace
  have : n ≠ 1 := by omega
  simp only [this, ↓reduceIte]
  rw [List.getElem?_map, List.getElem?_range hi]
  rfl

/-- the last scan depth is 5 % of the deepest point -/
theorem c05_plateau_grid_last (xmin : K) (n : Nat) (hn : 2 ≤ n) :
    (plateauGrid xmin n)[n - 1]? = some (xmin * (5 / 100)) := by
  rw [c05_plateau_grid_entry xmin n (n - 1) hn (by omega)]
  have h1 : ((n - 1 : Nat) : K) = (n : K) - 1 := by
    rw [Nat.cast_sub (by omega)]; simp
  have h2 : (n : K) - 1 ≠ 0 := by
    have : (1 : K) < (n : K) := by exact_mod_cast (by omega : 1 < n)
    linarith
  rw [h1]
  congr 1
  field_simp
  ring

/-- for a curve with indentation (xmin < 0) the scan depths form a strictly increasing grid -/
theorem c05_plateau_grid_monotone (xmin : K) (hx : xmin < 0) (n i j : Nat) (hn : 2 ≤ n)
    (hij : i < j) (hj : j < n) :
    ∃ a b, (plateauGrid xmin n)[i]? = some a ∧ (plateauGrid xmin n)[j]? = some b ∧ a < b := by
  refine ⟨_, _, c05_plateau_grid_entry xmin n i hn (by omega), c05_plateau_grid_entry xmin n j hn hj, ?_⟩
  have h2 : (0 : K) < (n : K) - 1 := by
    have : (1 : K) < (n : K) := by exact_mod_cast (by omega : 1 < n)
    linarith
  have hstep : 0 < (xmin * (5 / 100) - xmin) / ((n : K) - 1) := by
    apply div_pos _ h2
    nlinarith
  have hc : (i : K) < (j : K) := by exact_mod_cast hij
  nlinarith

/-- the final fit of the plateau search: lower bound = reported optimal depth `dopt`, upper
bound = the larger of the requested bounds -/
theorem c05_plateau_lower_bound (seg : List Bool) (xs : List K) (dopt hi : K) (hlt : dopt < hi)
    (i : Nat) (h1 : i < seg.length) (h2 : i < xs.length) :
    (maskAbs seg xs dopt hi)[i]? = some true ↔ seg[i] = true ∧ dopt ≤ xs[i] ∧ xs[i] ≤ hi := by
  rw [c05_mask_iff seg xs _ _ i h1 h2, min_eq_left hlt.le, max_eq_right hlt.le]
  constructor
  · rintro ⟨hs, h | h⟩
    · exact absurd h hlt.ne
    · exact ⟨hs, h⟩
  · rintro ⟨hs, h⟩; exact ⟨hs, Or.inr h⟩

/-! non-vacuity (ℚ) -/
example : maskAbs [true, true, false, true] [(3 : ℚ), 1, 1, -2] 1 (-2) = [false, true, false, true] := by
  decide
example : plateauGrid (-100 : ℚ) 3 = [-100, -105 / 2, -5] := by
  norm_num [plateauGrid, linspace, List.range, List.range.loop]

end Nanite.C05
