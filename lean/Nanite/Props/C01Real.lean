import Nanite.Props.C01
import Nanite.Props.C02
/-!
Instantiation of the abstract power law of C01 / C11 at the REGENERATED shipped model functions
(over ℝ): paraboloid (p = 3/2), cone and three-sided pyramid (p = 2).
-/
namespace Nanite.C01
open Nanite.C11 Nanite.Gen.Models Real

theorem c01_rpow32_powerlaw : PowerLaw (fun t : ℝ => t ^ ((3 : ℝ) / 2)) where
  mul := by intro s t hs ht; exact Real.mul_rpow hs ht
  zero := by simp [Real.zero_rpow]
  strictMono := by
    intro s t hs hst
    exact Real.rpow_lt_rpow hs hst (by norm_num)

/-- the generated paraboloid model is the abstract power law with `a = 4/3 · √R / (1 − ν²)` -/
theorem c01_hertz_para_is_plaw (δ E R ν cp b : ℝ) :
    hertz_para δ E R ν cp b =
      plaw (fun t : ℝ => t ^ ((3 : ℝ) / 2)) (4 / 3 / (1 - ν ^ 2) * sqrt R) E cp b δ := by
  unfold hertz_para plaw
  simp only [gt_iff_lt]
  by_cases h : 0 < cp - δ
  · simp only [h, ↓reduceIte, max_eq_left h.le]
    rw [show Real.rpow (cp - δ) (3 / 2) = (cp - δ) ^ ((3 : ℝ) / 2) from rfl]; ring
  · simp only [h, ↓reduceIte, max_eq_right (not_lt.mp h)]
    simp [Real.zero_rpow]

theorem c01_hertz_cone_is_plaw (δ E α ν cp b : ℝ) :
    hertz_cone δ E α ν cp b =
      plaw (fun t : ℝ => t ^ 2) (2 * tan (α * π / 180) / π / (1 - ν ^ 2)) E cp b δ := by
  unfold hertz_cone plaw
  simp only [gt_iff_lt]
  by_cases h : 0 < cp - δ
  · simp only [h, ↓reduceIte, max_eq_left h.le]; ring
  · simp only [h, ↓reduceIte, max_eq_right (not_lt.mp h)]; ring

theorem c01_hertz_pyr3s_is_plaw (δ E α ν cp b : ℝ) :
    hertz_pyr3s δ E α ν cp b =
      plaw (fun t : ℝ => t ^ 2) (0.8887 * tan (α * π / 180) / (1 - ν ^ 2)) E cp b δ := by
  unfold hertz_pyr3s plaw
  simp only [gt_iff_lt]
  by_cases h : 0 < cp - δ
  · simp only [h, ↓reduceIte, max_eq_left h.le]; ring
  · simp only [h, ↓reduceIte, max_eq_right (not_lt.mp h)]; ring

end Nanite.C01
