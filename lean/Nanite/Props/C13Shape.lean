import Nanite.Props.C02
import Mathlib.Analysis.Calculus.Deriv.MeanValue
import Mathlib.Analysis.Calculus.Deriv.Pow
import Mathlib.Analysis.Calculus.Deriv.Polynomial
import Mathlib.Analysis.SpecialFunctions.Pow.Continuity
import Mathlib.Analysis.SpecialFunctions.Sqrt
import Mathlib.Tactic.Positivity
/-!
# C13 (shipped-model part) – shape laws of the regenerated model functions
"force is continuous at contact and non-decreasing with indentation depth up to the tip radius",
for the REGENERATED definitions (`Nanite.Gen.Models`), over ℝ:

* monotone in the depth: paraboloid (in `Props/C02`), cone, pyramid for every depth, the truncated
  sphere series for depths up to the tip radius (the hypothesis `d₂ ≤ R` is the one the property
  states; the series factor decreases, so the product needs a derivative argument);
* continuity in the abscissa everywhere, in particular across the contact point, for the four
  single-material models.

Not proved here: the two laws for the layered Clifford model (its effective modulus depends on the
depth; the oracle of the harness checks them on the stated parameter regime).
-/
namespace Nanite.C13Shape
open Nanite.Gen.Models Nanite.Spec Nanite.C02 Real

/-! ## monotone in the depth -/

theorem c13_hertz_cone_monotone_depth (E α ν cp b d₁ d₂ : ℝ) (hE : 0 ≤ E) (hν : ν ^ 2 < 1)
    (hα : 0 ≤ tan (α * π / 180)) (h0 : 0 ≤ d₁) (h12 : d₁ ≤ d₂) :
    hertz_cone (cp - d₁) E α ν cp b ≤ hertz_cone (cp - d₂) E α ν cp b := by
  rw [c02_hertz_cone_eq_spec, c02_hertz_cone_eq_spec]
  unfold hertzCone
  simp only [sub_sub_cancel, gt_iff_lt]
  have hA : 0 ≤ 2 * tan (α * π / 180) / π * (E / (1 - ν ^ 2)) :=
    mul_nonneg (div_nonneg (mul_nonneg (by norm_num) hα) pi_pos.le) (div_nonneg hE (by linarith))
  have hsq : d₁ ^ 2 ≤ d₂ ^ 2 := by nlinarith
  by_cases h1 : 0 < d₁
  · have h2 : 0 < d₂ := lt_of_lt_of_le h1 h12
    simp only [h1, h2, ↓reduceIte]
    nlinarith
  · by_cases h2 : 0 < d₂
    · simp only [h1, h2, ↓reduceIte]
      nlinarith [mul_nonneg hA (sq_nonneg d₂)]
    · simp [h1, h2]

theorem c13_hertz_pyr3s_monotone_depth (E α ν cp b d₁ d₂ : ℝ) (hE : 0 ≤ E) (hν : ν ^ 2 < 1)
    (hα : 0 ≤ tan (α * π / 180)) (h0 : 0 ≤ d₁) (h12 : d₁ ≤ d₂) :
    hertz_pyr3s (cp - d₁) E α ν cp b ≤ hertz_pyr3s (cp - d₂) E α ν cp b := by
  rw [c02_hertz_pyr3s_eq_spec, c02_hertz_pyr3s_eq_spec]
  unfold hertzPyr3s
  simp only [sub_sub_cancel, gt_iff_lt]
  have hA : 0 ≤ 0.8887 * tan (α * π / 180) * (E / (1 - ν ^ 2)) :=
    mul_nonneg (mul_nonneg (by norm_num) hα) (div_nonneg hE (by linarith))
  have hsq : d₁ ^ 2 ≤ d₂ ^ 2 := by nlinarith
  by_cases h1 : 0 < d₁
  · have h2 : 0 < d₂ := lt_of_lt_of_le h1 h12
    simp only [h1, h2, ↓reduceIte]
    nlinarith
  · by_cases h2 : 0 < d₂
    · simp only [h1, h2, ↓reduceIte]
      nlinarith [mul_nonneg hA (sq_nonneg d₂)]
    · simp [h1, h2]

/-- the depth-dependent factor of the sphere model in the variable `u = √(d/R)`:
`u³ · series(u²)` -/
noncomputable def spherePoly (u : ℝ) : ℝ :=
  u ^ 3 - 1 / 10 * u ^ 5 - 1 / 840 * u ^ 7 + 11 / 15120 * u ^ 9 + 1357 / 6652800 * u ^ 11

noncomputable def spherePoly' (u : ℝ) : ℝ :=
  3 * u ^ 2 - 1 / 2 * u ^ 4 - 1 / 120 * u ^ 6 + 11 / 1680 * u ^ 8 + 1357 / 604800 * u ^ 10

theorem spherePoly_hasDeriv (u : ℝ) : HasDerivAt spherePoly (spherePoly' u) u := by
  have h3 := hasDerivAt_pow 3 u
  have h5 := (hasDerivAt_pow 5 u).const_mul (1 / 10 : ℝ)
  have h7 := (hasDerivAt_pow 7 u).const_mul (1 / 840 : ℝ)
  have h9 := (hasDerivAt_pow 9 u).const_mul (11 / 15120 : ℝ)
  have h11 := (hasDerivAt_pow 11 u).const_mul (1357 / 6652800 : ℝ)
  have := (((h3.sub h5).sub h7).add h9).add h11
  have e : spherePoly = ((((fun x : ℝ => x ^ 3) - fun y => 1 / 10 * y ^ 5) - fun y => 1 / 840 * y ^ 7)
      + fun y => 11 / 15120 * y ^ 9) + fun y => 1357 / 6652800 * y ^ 11 := by
    funext x; simp [spherePoly]
  rw [e]
  refine this.congr_deriv ?_
  unfold spherePoly'
  norm_num
  ring

theorem spherePoly'_nonneg (u : ℝ) (h0 : 0 ≤ u) (h1 : u ≤ 1) : 0 ≤ spherePoly' u := by
  unfold spherePoly'
  have hu2 : u ^ 2 ≤ 1 := by nlinarith
  have hu2' : 0 ≤ u ^ 2 := sq_nonneg u
  have e : 3 * u ^ 2 - 1 / 2 * u ^ 4 - 1 / 120 * u ^ 6 + 11 / 1680 * u ^ 8 + 1357 / 604800 * u ^ 10
      = u ^ 2 * (3 - 1 / 2 * u ^ 2 - 1 / 120 * (u ^ 2) ^ 2) + 11 / 1680 * u ^ 8
        + 1357 / 604800 * u ^ 10 := by ring
  rw [e]
  have h4 : (u ^ 2) ^ 2 ≤ 1 := by nlinarith
  have : 0 ≤ 3 - 1 / 2 * u ^ 2 - 1 / 120 * (u ^ 2) ^ 2 := by nlinarith
  have h8 : 0 ≤ u ^ 8 := by positivity
  have h10 : 0 ≤ u ^ 10 := by positivity
  nlinarith [mul_nonneg hu2' this]

theorem spherePoly_monotoneOn : MonotoneOn spherePoly (Set.Icc 0 1) := by
  apply monotoneOn_of_deriv_nonneg (convex_Icc 0 1)
  · exact fun x _ => (spherePoly_hasDeriv x).continuousAt.continuousWithinAt
  · exact fun x _ => (spherePoly_hasDeriv x).differentiableAt.differentiableWithinAt
  · intro x hx
    rw [interior_Icc] at hx
    rw [(spherePoly_hasDeriv x).deriv]
    exact spherePoly'_nonneg x hx.1.le hx.2.le

/-- the sphere model's depth factor expressed through `spherePoly` -/
theorem sphere_factor_eq (R d : ℝ) (hR : 0 < R) (hd : 0 ≤ d) :
    d ^ ((3 : ℝ) / 2) * sphereSeries (d / R) = R ^ ((3 : ℝ) / 2) * spherePoly (sqrt (d / R)) := by
  have hx : 0 ≤ d / R := div_nonneg hd hR.le
  have hs : sqrt (d / R) ^ 2 = d / R := sq_sqrt hx
  have h32 : ∀ y : ℝ, 0 ≤ y → y ^ ((3 : ℝ) / 2) = sqrt y ^ 3 := by
    intro y hy
    rw [sqrt_eq_rpow, ← rpow_natCast, ← rpow_mul hy]
    norm_num
  have hd' : d = R * (d / R) := by field_simp
  have : d ^ ((3 : ℝ) / 2) = R ^ ((3 : ℝ) / 2) * sqrt (d / R) ^ 3 := by
    conv_lhs => rw [hd']
    rw [mul_rpow hR.le hx, h32 (d / R) hx]
  rw [this]
  unfold sphereSeries spherePoly
  set u := sqrt (d / R) with hu
  rw [← hs]
  ring

/-- **the truncated sphere series does not decrease with depth up to the tip radius** -/
theorem c13_sneddon_monotone_depth (E R ν cp b d₁ d₂ : ℝ) (hE : 0 ≤ E) (hν : ν ^ 2 < 1)
    (hR : 0 < R) (h0 : 0 ≤ d₁) (h12 : d₁ ≤ d₂) (h2R : d₂ ≤ R) :
    sneddon_spher_approx (cp - d₁) E R ν cp b ≤ sneddon_spher_approx (cp - d₂) E R ν cp b := by
  rw [c02_sneddon_spher_approx_eq_spec, c02_sneddon_spher_approx_eq_spec]
  unfold sneddonSpherApprox
  simp only [sub_sub_cancel, gt_iff_lt]
  have hA : 0 ≤ 4 / 3 * (E / (1 - ν ^ 2)) * sqrt R :=
    mul_nonneg (mul_nonneg (by norm_num) (div_nonneg hE (by linarith))) (sqrt_nonneg R)
  have h0' : 0 ≤ d₂ := h0.trans h12
  have hu : ∀ d : ℝ, 0 ≤ d → d ≤ R → sqrt (d / R) ∈ Set.Icc (0 : ℝ) 1 := by
    intro d hd hdR
    refine ⟨sqrt_nonneg _, ?_⟩
    exact Real.sqrt_le_one.mpr ((div_le_one hR).mpr hdR)
  have hmono : d₁ ^ ((3 : ℝ) / 2) * sphereSeries (d₁ / R) ≤ d₂ ^ ((3 : ℝ) / 2) * sphereSeries (d₂ / R) := by
    rw [sphere_factor_eq R d₁ hR h0, sphere_factor_eq R d₂ hR h0']
    apply mul_le_mul_of_nonneg_left _ (rpow_nonneg hR.le _)
    apply spherePoly_monotoneOn (hu d₁ h0 (h12.trans h2R)) (hu d₂ h0' h2R)
    exact sqrt_le_sqrt (div_le_div_of_nonneg_right h12 hR.le)
  have hnn : ∀ d : ℝ, 0 ≤ d → d ≤ R → 0 ≤ d ^ ((3 : ℝ) / 2) * sphereSeries (d / R) := by
    intro d hd hdR
    rw [sphere_factor_eq R d hR hd]
    apply mul_nonneg (rpow_nonneg hR.le _)
    have := spherePoly_monotoneOn (show (0 : ℝ) ∈ Set.Icc (0 : ℝ) 1 by simp) (hu d hd hdR)
      (hu d hd hdR).1
    simpa [spherePoly] using this
  by_cases h1 : 0 < d₁
  · have h2 : 0 < d₂ := lt_of_lt_of_le h1 h12
    simp only [h1, h2, ↓reduceIte]
    have := mul_le_mul_of_nonneg_left hmono hA
    nlinarith
  · by_cases h2 : 0 < d₂
    · simp only [h1, h2, ↓reduceIte]
      have := mul_nonneg hA (hnn d₂ h0' h2R)
      nlinarith
    · simp [h1, h2]

/-! ## continuity in the abscissa (in particular at the contact point) -/

/-- `d ↦ if d > 0 then f d else 0` is continuous when `f` is and `f 0 = 0` -/
theorem continuous_contact {f : ℝ → ℝ} (hf : Continuous f) (h0 : f 0 = 0) (cp : ℝ) :
    Continuous (fun δ : ℝ => if cp - δ > 0 then f (cp - δ) else 0) := by
  have : (fun δ : ℝ => if cp - δ > 0 then f (cp - δ) else 0) = fun δ => f (max (cp - δ) 0) := by
    funext δ
    by_cases h : cp - δ > 0
    · simp [h, max_eq_left h.le]
    · simp only [h, ↓reduceIte]
      rw [max_eq_right (not_lt.mp h), h0]
  rw [this]
  exact hf.comp ((continuous_const.sub continuous_id).max continuous_const)

theorem c13_hertz_para_continuous (E R ν cp b : ℝ) :
    Continuous (fun δ => hertz_para δ E R ν cp b) := by
  have h := continuous_contact (f := fun d => 4 / 3 * (E / (1 - ν ^ 2)) * sqrt R * d ^ ((3 : ℝ) / 2))
    (continuous_const.mul (continuous_id.rpow_const (fun _ => Or.inr (by norm_num))))
    (by simp [zero_rpow]) cp
  have : (fun δ => hertz_para δ E R ν cp b) =
      fun δ => (if cp - δ > 0 then 4 / 3 * (E / (1 - ν ^ 2)) * sqrt R * (cp - δ) ^ ((3 : ℝ) / 2) else 0) + b := by
    funext δ
    rw [c02_hertz_para_eq_spec]; unfold hertzPara
    split <;> simp
  rw [this]
  exact h.add continuous_const

theorem c13_hertz_cone_continuous (E α ν cp b : ℝ) :
    Continuous (fun δ => hertz_cone δ E α ν cp b) := by
  have h := continuous_contact (f := fun d => 2 * tan (α * π / 180) / π * (E / (1 - ν ^ 2)) * d ^ 2)
    (continuous_const.mul (continuous_id.pow 2)) (by simp) cp
  have : (fun δ => hertz_cone δ E α ν cp b) =
      fun δ => (if cp - δ > 0 then 2 * tan (α * π / 180) / π * (E / (1 - ν ^ 2)) * (cp - δ) ^ 2 else 0) + b := by
    funext δ
    rw [c02_hertz_cone_eq_spec]; unfold hertzCone
    split <;> simp
  rw [this]
  exact h.add continuous_const

theorem c13_hertz_pyr3s_continuous (E α ν cp b : ℝ) :
    Continuous (fun δ => hertz_pyr3s δ E α ν cp b) := by
  have h := continuous_contact (f := fun d => 0.8887 * tan (α * π / 180) * (E / (1 - ν ^ 2)) * d ^ 2)
    (continuous_const.mul (continuous_id.pow 2)) (by simp) cp
  have : (fun δ => hertz_pyr3s δ E α ν cp b) =
      fun δ => (if cp - δ > 0 then 0.8887 * tan (α * π / 180) * (E / (1 - ν ^ 2)) * (cp - δ) ^ 2 else 0) + b := by
    funext δ
    rw [c02_hertz_pyr3s_eq_spec]; unfold hertzPyr3s
    split <;> simp
  rw [this]
  exact h.add continuous_const

theorem c13_sneddon_continuous (E R ν cp b : ℝ) :
    Continuous (fun δ => sneddon_spher_approx δ E R ν cp b) := by
  have hser : Continuous sphereSeries := by unfold sphereSeries; fun_prop
  have h := continuous_contact
    (f := fun d => 4 / 3 * (E / (1 - ν ^ 2)) * sqrt R * d ^ ((3 : ℝ) / 2) * sphereSeries (d / R))
    ((continuous_const.mul (continuous_id.rpow_const (fun _ => Or.inr (by norm_num)))).mul
      (hser.comp (continuous_id.div_const R)))
    (by simp [zero_rpow]) cp
  have : (fun δ => sneddon_spher_approx δ E R ν cp b) =
      fun δ => (if cp - δ > 0 then
        4 / 3 * (E / (1 - ν ^ 2)) * sqrt R * (cp - δ) ^ ((3 : ℝ) / 2) * sphereSeries ((cp - δ) / R) else 0) + b := by
    funext δ
    rw [c02_sneddon_spher_approx_eq_spec]; unfold sneddonSpherApprox
    split <;> simp
  rw [this]
  exact h.add continuous_const

/-- the layered Clifford model is continuous in the abscissa as well (in particular across the contact
point), for a positive layer thickness and a non-negative geometry factor – which the parameter bounds
(`0 ≤ ν ≤ 0.5`, `0 ≤ E`) guarantee -/
theorem c13_clifford_continuous (E_S E_L R nu_S nu_L t cp b : ℝ) (hR : 0 ≤ R) (ht : 0 < t)
    (hc : 0 ≤ (E_L / E_S) ^ ((2 : ℝ) / 3) * (1 - 0.22 * nu_S ^ 2) / (1 - 1.92 * nu_L ^ 2)) :
    Continuous (fun δ => power_layer_clifford_2009 δ E_S E_L R nu_S nu_L t cp b) := by
  have hxi_nonneg : ∀ d : ℝ, 0 ≤ cliffordXi d E_S E_L R nu_S nu_L t := by
    intro d
    unfold cliffordXi
    have h1 : 0 ≤ sqrt (R * d) / t := div_nonneg (sqrt_nonneg _) ht.le
    have e : sqrt (R * d) / t * (E_L / E_S) ^ ((2 : ℝ) / 3) * (1 - 0.22 * nu_S ^ 2) / (1 - 1.92 * nu_L ^ 2)
        = (sqrt (R * d) / t) * ((E_L / E_S) ^ ((2 : ℝ) / 3) * (1 - 0.22 * nu_S ^ 2) / (1 - 1.92 * nu_L ^ 2)) := by
      ring
    rw [e]
    exact mul_nonneg h1 hc
  have hxi : Continuous (fun d : ℝ => cliffordXi d E_S E_L R nu_S nu_L t) := by
    unfold cliffordXi
    fun_prop
  have hpow : Continuous (fun d : ℝ => cliffordXi d E_S E_L R nu_S nu_L t ^ (1.5 : ℝ)) :=
    hxi.rpow_const (fun _ => Or.inr (by norm_num))
  have hden : ∀ d : ℝ, 1 + 2.25 * cliffordXi d E_S E_L R nu_S nu_L t ^ (1.5 : ℝ) ≠ 0 := by
    intro d
    have := rpow_nonneg (hxi_nonneg d) (1.5 : ℝ)
    have : 0 < 1 + 2.25 * cliffordXi d E_S E_L R nu_S nu_L t ^ (1.5 : ℝ) := by positivity
    exact this.ne'
  have hE : Continuous (fun d : ℝ => cliffordEstar d E_S E_L R nu_S nu_L t) := by
    unfold cliffordEstar
    exact continuous_const.add ((continuous_const.mul (continuous_const.mul hpow)).div
      (continuous_const.add (continuous_const.mul hpow)) hden)
  have h := continuous_contact
    (f := fun d => 4 / 3 * cliffordEstar d E_S E_L R nu_S nu_L t * sqrt R * d ^ ((3 : ℝ) / 2))
    (((continuous_const.mul hE).mul continuous_const).mul
      (continuous_id.rpow_const (fun _ => Or.inr (by norm_num))))
    (by simp [zero_rpow]) cp
  have : (fun δ => power_layer_clifford_2009 δ E_S E_L R nu_S nu_L t cp b) =
      fun δ => (if cp - δ > 0 then
        4 / 3 * cliffordEstar (cp - δ) E_S E_L R nu_S nu_L t * sqrt R * (cp - δ) ^ ((3 : ℝ) / 2) else 0) + b := by
    funext δ
    rw [c02_power_layer_clifford_eq_spec _ _ _ _ _ _ _ _ _ hR]; unfold powerLayerClifford
    split <;> simp
  rw [this]
  exact h.add continuous_const

/-- non-vacuity: the hypotheses of the sphere theorem hold for the shipped defaults
(E = 3 kPa, R = 10 µm, ν = 0.5) and depths 0.5 µm ≤ 2 µm -/
example : (0 : ℝ) ≤ 3000 ∧ (0.5 : ℝ) ^ 2 < 1 ∧ (0 : ℝ) < 1e-5 ∧ (0 : ℝ) ≤ 5e-7 ∧ (5e-7 : ℝ) ≤ 2e-6
    ∧ (2e-6 : ℝ) ≤ 1e-5 := by norm_num

end Nanite.C13Shape
